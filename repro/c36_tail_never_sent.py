"""C36: the tail of a partly sent last packet of a TcpClientStack is never sent (txbs non-empty, txPkts empty)."""
import sys, time
from ioflo.aio.proto import stacking, packeting
from ioflo.aio.tcp import serving
from ioflo.base import storing

srv = serving.Server(ha=("127.0.0.1", 0), bufsize=1 << 16)
assert srv.reopen()
port = srv.ss.getsockname()[1]
store = storing.Store(stamp=0.0)
stack = stacking.TcpClientStack(stamper=store, ha=("127.0.0.1", port), bufsize=1 << 16)
assert stack.handler is not None
for i in range(200):
    stack.serviceConnect() if hasattr(stack, "serviceConnect") else None
    srv.serviceConnects()
    if stack.handler.connected and srv.ixes:
        break
    time.sleep(0.01)
assert stack.handler.connected, "not connected"
payload = bytes(bytearray((i * 7) % 251 for i in range(6 * 1024 * 1024)))
pkt = packeting.Packet(stack=stack, packed=payload)
stack.txPkts.append(pkt)
got = bytearray()
for i in range(3000):
    stack.serviceTxPkts()
    srv.serviceReceivesAllIx()
    for ix in srv.ixes.values():
        got.extend(ix.rxbs); del ix.rxbs[:]
    if len(got) == len(payload):
        break
print("queued", len(payload), "peer got", len(got), "txbs left", len(stack.txbs), "txPkts", len(stack.txPkts))
ok = bytes(got) == payload
stack.handler.close(); srv.close()
print("OK" if ok else "C36 VIOLATED: last packet's tail never sent")
sys.exit(0 if ok else 1)
