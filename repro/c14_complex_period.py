"""complex literal as a period / keep count: TypeError escapes Builder.build instead of ParseError"""
import sys
sys.path.insert(0, __file__.rsplit("/", 1)[0])
from flo import *
bad = 0
for plan in ("house h\n  framer f be active at 1j first a\n    frame a\n",
             "house h\n  framer f be active first a\n    frame a\n      bid start me at 1j\n",
             "house h\n  logger l to /tmp/x keep 1j\n"):
    try:
        sk, ok = build(plan)
        print("built:", ok)
    except Exception as ex:
        print(type(ex).__name__, str(ex)[:70])
        bad += type(ex).__name__ == "TypeError"
print("FAIL: %d TypeErrors" % bad if bad else "PASS")
sys.exit(1 if bad else 0)
