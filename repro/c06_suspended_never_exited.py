"""outline a>b>c, conditional aux of b running (c suspended), then `go d` fires in a:
b and a exit but c (entered, suspended) never exits.  Same on stop/abort (C03)."""
import sys
sys.path.insert(0, __file__.rsplit("/", 1)[0])
from flo import *
PLAN = """
house h
  init .ctl.suspend with 0
  init .ctl.go with 0
  framer main be active first c
    frame a
%s      go d if .ctl.go == 1
      frame b in a
%s        aux helper if .ctl.suspend == 1
        frame c in b
%s    frame d
%s
  framer helper be aux first h1
    frame h1
%s""" % (trace(6), trace(8), trace(10), trace(6), trace(6))
sk, ok = build(PLAN)
assert ok
r = Runner(sk)
r.tick()
r.store.fetch(".ctl.suspend").value = 1
r.tick(); r.tick()
mode = sys.argv[1] if len(sys.argv) > 1 else "go"
if mode == "go":
    r.store.fetch(".ctl.go").value = 1
    r.tick()
else:
    from ioflo.base.globaling import STOP
    for t in r.house.taskables:
        t.runner.send(STOP)
opened, problems = entered()
print("still entered:", opened, problems)
main = [f for f in r.house.framers if f.name == 'main'][0]
want = [('main', f.name) for f in (main.active.outline if main.active else [])]
bad = [o for o in opened if o[0] == 'main' and o not in want]
print("FAIL frames entered but never exited: %s" % bad if bad else "PASS")
sys.exit(1 if bad else 0)
