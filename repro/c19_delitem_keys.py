from ioflo.base import storing
s = storing.Share(name="a.b")
s.update(a=1, b=2, c=3)
del s['a']
print("keys", list(s.keys()), "len", len(s))
try:
    print("items", list(s.items()))
except Exception as ex:
    print("items raised", type(ex).__name__, ex)
