"""C33: a CRLF line ending split across two receives (CR | LF) must parse like the unsplit stream."""
import sys, itertools
from ioflo.aio.http import httping

def run(pieces, close=True):
    es = httping.EventSource(raw=bytearray(), events=None, dictable=False) if True else None
    es.makeParser() if hasattr(es, "makeParser") else None
    for p in pieces:
        es.raw.extend(p)
        es.parse()
    return [(e['id'], e['name'], e['data']) for e in es.events], es.leid, es.retry

streams = [b"data: a\r\ndata: b\r\n\r\n", b"id: 7\r\nevent: x\r\ndata: one\r\ndata: two\r\n\r\ndata: z\r\n\r\n",
           b"data: a\rdata: b\r\r", b"data: a\r\n\r\ndata: b\n\n", b"retry: 5\r\n\r\ndata: q\r\rdata: r\n\n", b"data: a\r\r\ndata: b\r\n\r\n"]
bad = 0
for s in streams:
    whole = run([s])
    for i in range(1, len(s)):
        got = run([s[:i], s[i:]])
        if got != whole:
            bad += 1
            print("C33 VIOLATED: %r split at %d -> %r, whole -> %r" % (s, i, got[0], whole[0]))
    for i, j in itertools.combinations(range(1, len(s)), 2):
        got = run([s[:i], s[i:j], s[j:]])
        if got != whole:
            bad += 1
print("OK" if not bad else "%d differing splits" % bad)
sys.exit(1 if bad else 0)
