from ioflo.aid.odicting import modict
m = modict(); m['a']=5; m['a']=6
print("get:", m.get('a'), " getone:", m.getone('a') if hasattr(m,'getone') else None, "item:", m['a'])
m['b']='xyz'; print("get b:", m.get('b'))
