"""Triage helper (NOT a check): build a FloScript plan with the real ioflo and tick it by hand.
Used only to reproduce candidate findings of the static rules against the real code."""
import collections.abc  # noqa
import os, sys, tempfile
import ioflo
from ioflo.aid import consoling
from ioflo.base import doing, skedding

console = consoling.getConsole()
console.reinit(verbosity=console.Wordage.mute)
LOG = []


@doing.doify("TracerRepro")
def tracer(self, **kwa):
    act = self._act
    LOG.append((act.context, act.frame.framer.name, act.frame.name))


def trace(indent):
    return "".join("%sdo tracer repro at %s\n" % (" " * indent, c) for c in ("enter", "exit"))


def build(plan, period=0.125):
    d = tempfile.mkdtemp(prefix="repro")
    p = os.path.join(d, "plan.flo")
    open(p, "w").write(plan)
    sk = skedding.Skedder(name="repro", period=period, real=False, filepath=p)
    ok = sk.build()
    return sk, ok


class Runner:
    def __init__(self, sk):
        self.sk = sk
        self.house = sk.houses[0]
        self.store = self.house.store
        self.stamp = 0.0
        self.store.changeStamp(0.0)
        for t in self.house.taskables:
            sk.addReadyTask(t)

    def tick(self):
        for t in self.house.taskables:
            t.runner.send(t.desire)
        self.stamp += self.sk.period
        self.store.changeStamp(self.stamp)


def entered():
    opened, problems = [], []
    for c, fr, f in LOG:
        if c == "enter":
            if (fr, f) in opened:
                problems.append("re-enter without exit %s" % ((fr, f),))
            opened.append((fr, f))
        elif c == "exit":
            if (fr, f) not in opened:
                problems.append("exit while not entered %s" % ((fr, f),))
            else:
                opened.remove((fr, f))
    return opened, problems
