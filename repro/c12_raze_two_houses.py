"""Two houses: house A rears a clone, razes it, rears again.  Framer.prune reads Framer.Names
without rebinding the house registries, so with a second house built after A the razed clone's
name is looked up in B's registry and is never freed: the second rear raises CloneError."""
import sys
sys.path.insert(0, __file__.rsplit("/", 1)[0])
from flo import *
HOUSE = """
house %(h)s
   framer mission%(h)s be active first cloner1
      frame cloner1
         rear orig%(h)s in frame clonage1
         go next
      frame clonage1
         go next
      frame pruner1
         raze all in frame clonage1
         go next
      frame cloner2
         rear orig%(h)s in frame clonage2
         go next
      frame clonage2
         go next
      frame fin
         bid stop all
   framer orig%(h)s be moot first A
      frame A
         go next
      frame C
         done
"""
two = len(sys.argv) > 1 and sys.argv[1] == "two"
plan = HOUSE % {"h": "alpha"} + (HOUSE % {"h": "beta"} if two else "")
sk, ok = build(plan)
assert ok
for house in sk.houses:
    house.store.changeStamp(0.0)
    for t in house.taskables:
        sk.addReadyTask(t)
try:
    for i in range(10):
        for house in sk.houses:   # the skedder runs every house's taskers in each tick
            for t in house.taskables:
                t.runner.send(t.desire)
        for house in sk.houses:
            house.store.changeStamp((i + 1) * 0.125)
    print("PASS (%s)" % ("two houses" if two else "one house"))
except Exception as ex:
    print("FAIL (%s): %s: %s" % ("two houses" if two else "one house", type(ex).__name__, ex))
    sys.exit(1)
