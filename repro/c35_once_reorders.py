"""C35: GramStack.serviceTxPktsOnce puts a packet whose send failed transiently behind the later packets to the same
destination: [A:p0, A:p1], send to A fails once -> queue becomes [A:p1, A:p0]; the wire then gets p1 before p0."""
import errno, socket, sys
from ioflo.aio.proto import stacking


class Pkt(object):
    def __init__(self, name):
        self.name = name
        self.packed = name.encode("ascii")


class Handler(object):
    opened = True

    def __init__(self, failing):
        self.failing = list(failing)    # per send attempt: True -> transient error
        self.wire = []

    def send(self, data, ha):
        if self.failing and self.failing.pop(0):
            raise socket.error(errno.ECONNREFUSED, "refused")
        self.wire.append((ha, data))
        return len(data)


def run(queue, failing, calls=8):
    class Local(object):
        name = "s"
    stack = stacking.GramStack.__new__(stacking.GramStack)
    stack.local = Local()
    from collections import deque
    stack.txPkts = deque((Pkt(n), ha) for n, ha in queue)
    stack.handler = Handler(failing)
    for i in range(calls):
        stack.serviceTxPktsOnce()
    return stack.handler.wire


bad = []
A, B = ("10.0.0.1", 1), ("10.0.0.2", 2)
for queue, failing in (([("p0", A), ("p1", A)], [True]),
                       ([("p0", A), ("q0", B), ("p1", A), ("q1", B)], [True, False, False, False, False]),
                       ([("p0", A), ("p1", A), ("p2", A)], [True, True, False]),
                       ([("q0", B), ("p0", A), ("p1", A)], [False, True])):
    wire = run(queue, failing)
    for ha in (A, B):
        want = [n.encode() for n, h in queue if h == ha]
        got = [d for h, d in wire if h == ha]
        if got != want:
            bad.append("queue %s failing %s: destination %s got %s, queued order %s" % (queue, failing, ha, got, want))
for b in bad:
    print("C35 VIOLATED:", b)
print("OK" if not bad else "%d case(s) reordered" % len(bad))
sys.exit(1 if bad else 0)
