import sys
from ioflo.aid import timing
clock = [100.0]
timing.time.time = lambda: clock[0]   # MonoTimer reads time.time through the module
t = timing.MonoTimer(duration=20.0, retro=True)
clock[0] = 110.0; e1 = t.elapsed
clock[0] = 105.0                       # clock jumps back 5 s
r = t.extend(1.0)
e2 = t.elapsed
ok = r == (95.0, 116.0) and e2 >= e1
print("extend after a backward jump:", r, "elapsed before", e1, "after", e2)
t2 = timing.MonoTimer(duration=20.0, retro=True, ); clock[0] = 105.0; t2.restart(start=105.0); clock[0] = 130.0; _ = t2.expired; clock[0] = 120.0
r2 = t2.repeat()
print("repeat after a backward jump:", r2)
ok = ok and r2 == (115.0, 135.0)
print("OK" if ok else "C42 VIOLATED: the retro shift is lost when extend()/repeat() is the first call after the clock went back"); sys.exit(0 if ok else 1)
