"""C03: every tasker still scheduled gets one ABORT however the run ends - also when an earlier tasker's abort handling raises."""
import sys
from ioflo.base import skedding, tasking, housing
from ioflo.base.globaling import *
from ioflo.aid import consoling
log = []
class T(tasking.Tasker):
    def __init__(self, boom=False, quit_first=False, **kw):
        super(T, self).__init__(**kw); self.boom = boom; self.quit_first = quit_first
    def makeRunner(self):
        self.status = STOPPED; self.desire = STOP
        n = 0
        while True:
            control = (yield self.status)
            n += 1
            log.append((self.name, control))
            if self.quit_first:
                return
            if control == ABORT:
                if self.boom: raise RuntimeError("exit action of %s failed" % self.name)
                self.status = ABORTED
            elif control in (START, RUN):
                self.status = RUNNING
                if self.name == "d" and n == 2: raise KeyboardInterrupt()
def scenario(kind):
    del log[:]
    housing.ClearRegistries()
    h = housing.House(name="h" + kind)
    if kind == "sweep":
        ts = [T(name="a", store=h.store, boom=True), T(name="b", store=h.store), T(name="c", store=h.store), T(name="d", store=h.store)]
    else:
        ts = [T(name="a", store=h.store, quit_first=True), T(name="b", store=h.store), T(name="c", store=h.store), T(name="d", store=h.store)]
    for t in ts:
        t.schedule = ACTIVE
        t.runner = t.makeRunner(); next(t.runner)
    h.fronts = []; h.mids = ts; h.backs = []; h.orderTaskables()
    sk = skedding.Skedder(name="sk", period=0.125, real=False, stamp=0.0)
    sk.houses = [h]
    err = None
    try:
        sk.run()
    except BaseException as ex:
        err = ex
    return err
bad = 0
err = scenario("sweep")
aborts = [n for n, c in log if c == ABORT]
if sorted(aborts) != ["a", "b", "c"]:
    bad += 1; print("C03 VIOLATED: run ended by KeyboardInterrupt at tick 2, a's abort handling raised %r: aborts sent to %s, expected a, b and c" % (err, aborts))
err = scenario("quit")
if isinstance(err, UnboundLocalError):
    bad += 1; print("C02/C03 VIOLATED: first tasker returned on its first run: %r" % err)
print("OK" if not bad else "%d violation(s)" % bad); sys.exit(1 if bad else 0)
