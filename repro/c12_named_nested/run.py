import sys
from ioflo.base import skedding
from ioflo.aid import consoling
sk = skedding.Skedder(name="t", period=0.125, real=False, stamp=0.0, filepath="/verif/repro/c12_named_nested/plan.flo")
ok = sk.build()
print("built", ok)
try:
    sk.run()
    print("OK run finished")
except Exception as ex:
    print("C12 VIOLATED on the unmodified tree: %s: %s" % (type(ex).__name__, ex)); sys.exit(1)
