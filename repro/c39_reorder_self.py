import sys
from ioflo.aid.odicting import odict, lodict
d = odict([('a',1),('b',2),('c',3)]); d.reorder(d)
e = odict([('a',1),('b',2),('c',3)]); e.reorder(odict([('b',5),('z',9)]))
ok = list(d.keys()) == ['a','b','c'] and list(e.items()) == [('a',1),('c',3),('b',5),('z',9)]
print("reorder(self):", list(d.keys()), "reorder(other):", list(e.items()))
print("OK" if ok else "C39 VIOLATED: reorder with itself must not change the order"); sys.exit(0 if ok else 1)
