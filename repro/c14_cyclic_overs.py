"""frame a in b / frame b in c / frame c in b : resolveOverLinks' loop guard compares only with
self, so a cycle that does not pass through the first frame never terminates."""
import sys, signal
sys.path.insert(0, __file__.rsplit("/", 1)[0])
from flo import *
PLAN = """
house h
  framer f be active first a
    frame a in b
    frame b in c
    frame c in b
"""
def alarm(*a):
    print("FAIL: build did not terminate within 5 s")
    sys.exit(1)
signal.signal(signal.SIGALRM, alarm)
signal.alarm(5)
sk, ok = build(PLAN)
print("PASS: build returned %s" % ok)
