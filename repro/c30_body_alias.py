"""C30/C31: responses read after several have arrived must each carry their own body (Patron stored the respondent's body by reference)."""
import sys, time
from ioflo.aio.http import serving, clienting
from ioflo.base import storing

def app(environ, start_response):
    path = environ['PATH_INFO']
    body = ("body of " + path).encode('ascii')
    if path.startswith('/fixed'):
        start_response('200 OK', [('Content-Type', 'text/plain'), ('Content-Length', str(len(body)))])
        return [body]
    start_response('200 OK', [('Content-Type', 'text/plain')])   # chunked (HTTP/1.1, no length)
    def gen():
        yield body[:4]
        yield body[4:]
    return gen()

store = storing.Store(stamp=0.0)
valet = serving.Valet(port=0, bufsize=131072, store=store, app=app, timeout=0.0)
assert valet.servant.reopen()
port = valet.servant.ss.getsockname()[1]
patron = clienting.Patron(bufsize=131072, store=store, hostname='127.0.0.1', port=port, reconnectable=False)
patron.connector.reopen()
paths = ['/stream/a', '/stream/b', '/fixed/c', '/stream/d']
for p in paths:
    patron.request(method='GET', path=p)
deadline = time.time() + 10
while len(patron.responses) < len(paths) and time.time() < deadline:
    valet.serviceAll(); patron.serviceAll(); store.advanceStamp(0.01) if hasattr(store, 'advanceStamp') else None
    time.sleep(0.005)
got = [bytes(r['body']) for r in patron.responses]
want = [("body of " + p).encode('ascii') for p in paths]
valet.servant.closeAll(); patron.connector.close()
if got != want:
    print("C30 VIOLATED: responses read after all arrived: %r, expected %r" % (got, want)); sys.exit(1)
print("OK"); sys.exit(0)
