from ioflo.aio.http import clienting
for resp in (b'HTTP/1.1 302 Found\r\nContent-Length: 0\r\n\r\n', b'HTTP/1.1 302 Found\r\nLocation: http://a:zz/x\r\nContent-Length: 0\r\n\r\n',
             b'HTTP/1.1 302 Found\r\nLocation: http://[::1/x\r\nContent-Length: 0\r\n\r\n'):
    p = clienting.Patron(hostname='127.0.0.1', port=8080, redirectable=True)
    p.connector.serviceReceives = lambda: None
    p.connector.tx = lambda d: None
    p.waited = True
    p.connector.rxbs.extend(resp)
    try:
        p.serviceResponse()
        print("no raise", list(p.responses))
    except Exception as ex:
        print("RAISED", type(ex).__name__, ex)
