"""clause permutations that must give the same result (C15)"""
import sys
sys.path.insert(0, __file__.rsplit("/", 1)[0])
from flo import *
HEAD = "house h\n  framer f be active first a\n    frame a\n"
CASES = {
 "do-as-via": (HEAD + "      do doer param as fred via .a.b\n", HEAD + "      do doer param via .a.b as fred\n"),
 "rear-in-as": ("house h\n  framer f be active first a\n    frame a\n      rear m in frame as mine\n    frame b\n  framer m be moot first x\n    frame x\n",
                "house h\n  framer f be active first a\n    frame a\n      rear m as mine in frame\n    frame b\n  framer m be moot first x\n    frame x\n"),
 "server-per-rx": ("house h\n  server s per a 1 rx localhost:5555\n", "house h\n  server s rx localhost:5555 per a 1\n"),
 "framer-via-first": ("house h\n  framer f be active via .a.b of framer first a\n    frame a\n",
                      "house h\n  framer f be active first a via .a.b of framer\n    frame a\n"),
}
def outcome(plan):
    try:
        sk, ok = build(plan)
        if not ok:
            return "build False"
        h = sk.houses[0]
        out = []
        for fr in h.framers:
            for frame in fr.frameNames.values():
                for acts in (frame.enacts, frame.reacts):
                    for a in acts:
                        out.append((getattr(a.actor, "name", a.actor), sorted((a.parms or {}).keys()), a.inode))
            out.append((fr.name, fr.inode, getattr(fr.first, "name", fr.first)))
        return "built %s" % out
    except Exception as ex:
        return "%s: %s" % (type(ex).__name__, str(ex)[:60])
bad = 0
for name, (p1, p2) in CASES.items():
    if len(sys.argv) > 1 and name not in sys.argv[1:]:
        continue
    o1, o2 = outcome(p1), outcome(p2)
    same = o1 == o2
    print("%-18s %s\n   A: %s\n   B: %s" % (name, "same" if same else "DIFFERENT", o1[:150], o2[:150]))
    bad += not same
sys.exit(1 if bad else 0)
