"""Apply a unified diff to in-memory file texts (forward or reversed); no disk writes.

Returns {relpath: new_text} or None when some hunk does not apply to the given texts."""
import re

_HUNK = re.compile(r"^@@ -(\d+)(?:,(\d+))? \+(\d+)(?:,(\d+))? @@")


def parse(patch_text):
    files = []
    cur = None
    hunk = None
    for line in patch_text.splitlines():
        if line.startswith("diff --git"):
            cur = None
            continue
        if line.startswith("--- "):
            continue
        if line.startswith("+++ "):
            path = line[4:].strip()
            if path.startswith("b/"):
                path = path[2:]
            cur = {"path": path, "hunks": []}
            files.append(cur)
            continue
        m = _HUNK.match(line)
        if m and cur is not None:
            hunk = {"old_start": int(m.group(1)), "lines": []}
            cur["hunks"].append(hunk)
            continue
        if hunk is not None and cur is not None and line[:1] in (" ", "+", "-"):
            hunk["lines"].append((line[0], line[1:]))
        elif hunk is not None and line == "":
            hunk["lines"].append((" ", ""))
        elif line.startswith("\\"):
            continue
    return files


def apply(texts, patch_text, reverse=False):
    """texts: callable relpath -> current text (or None).  """
    out = {}
    for f in parse(patch_text):
        text = out.get(f["path"])
        if text is None:
            text = texts(f["path"])
        if text is None:
            return None
        lines = text.split("\n")
        offset = 0
        for h in f["hunks"]:
            old, new = [], []
            for tag, l in h["lines"]:
                if reverse:
                    tag = {"+": "-", "-": "+"}.get(tag, tag)
                if tag in (" ", "-"):
                    old.append(l)
                if tag in (" ", "+"):
                    new.append(l)
            # trailing empty context artefacts
            while old and new and old[-1] == "" and new[-1] == "" and len(old) > 1 and False:
                old.pop(); new.pop()
            pos = _find(lines, old, h["old_start"] - 1 + offset)
            if pos is None:
                return None
            lines[pos:pos + len(old)] = new
            offset += len(new) - len(old)
        out[f["path"]] = "\n".join(lines)
    return out


def _find(lines, block, guess):
    n = len(block)
    if n == 0:
        return max(0, min(guess, len(lines)))
    cands = [i for i in range(0, len(lines) - n + 1) if lines[i:i + n] == block]
    if not cands:
        # tolerate trailing whitespace differences
        blk = [b.rstrip() for b in block]
        cands = [i for i in range(0, len(lines) - n + 1) if [x.rstrip() for x in lines[i:i + n]] == blk]
    if not cands:
        return None
    return min(cands, key=lambda i: abs(i - guess))
