"""ioflo-specific modelling: the RegisterType registries, builder verb fan-out, Act construction
sites.  Everything is read from source; nothing is imported."""
import ast

from .model import AnchorError, call_name, const_str, dotted, src
from .callgraph import FuncT


def registry_root(ci):
    """the class whose Registry a class registers in (nearest class in MRO that assigns
    `Registry` in its body), or None"""
    for c in ci.mro()[0]:
        if "Registry" in c.class_attrs:
            return c
    return None


def registry_members(repo, registrar):
    """{registered name: ClassInfo} for classes whose registry root is `registrar`
    (class statements only; doify/actify generated classes are listed separately)"""
    cache = repo.__dict__.setdefault("_registry_members", {})
    if registrar.qual in cache:
        return cache[registrar.qual]
    out = {}
    for c in repo.all_classes():
        if registrar in c.mro()[0] and registry_root(c) is registrar:
            out[c.name] = c
    cache[registrar.qual] = out
    return out


def actor_classes(repo):
    actor = repo.cls("acting", "Actor")
    return [c for c in repo.all_classes() if actor in c.mro()[0]]


def literal_string_list(node):
    if isinstance(node, (ast.List, ast.Tuple, ast.Set)):
        vals = [const_str(e) for e in node.elts]
        if None not in vals:
            return vals
    return None


def act_constructions(fn):
    """acting.Act(...) / acting.Nact(...) / SideAct calls inside fn -> list of Call"""
    out = []
    for n in ast.walk(fn):
        if isinstance(n, ast.Call):
            d = call_name(n) or ""
            if d.split(".")[-1] in ("Act", "Nact", "SideAct"):
                out.append(n)
    return out


def kwarg(call, name):
    for k in call.keywords:
        if k.arg == name:
            return k.value
    return None


def const_of(module, name):
    """integer/str value of a module-level constant through star imports (globaling)"""
    b = module.ns.get(name)
    if b is None or b.kind != "var" or b.node is None:
        return None
    st = b.node
    if isinstance(st, ast.Assign):
        v = st.value
        seen = 0
        while isinstance(v, ast.Name) and seen < 5:
            b2 = b.module.ns.get(v.id)
            if b2 is None or b2.kind != "var" or not isinstance(b2.node, ast.Assign):
                return None
            v = b2.node.value
            b = b2
            seen += 1
        if isinstance(v, ast.Constant):
            return v.value
    return None
