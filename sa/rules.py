"""Rule-template helpers shared by the property modules (DESIGN.md 2.2).

FuncView wraps one function's CFG with semantic locators (by callee / assigned target /
test shape, never by line or text) and the path primitives the templates need."""
import ast

from . import defects
from .callgraph import closure, owner_class, resolve_call
from .cfg import CFG
from .model import AnchorError, call_name, const_str, dotted, enclosing_func, src, walk_no_nested, parent


def suffix_match(d, pat):
    """dotted name d matches pattern pat: equal, or d ends with '.'+pat; pat may be a tuple"""
    if d is None:
        return False
    if isinstance(pat, (tuple, list, set, frozenset)):
        return any(suffix_match(d, p) for p in pat)
    return d == pat or d.endswith("." + pat)


_SWAP = {ast.Lt: ast.Gt, ast.Gt: ast.Lt, ast.LtE: ast.GtE, ast.GtE: ast.LtE}
_COMPL = {ast.Lt: ast.GtE, ast.GtE: ast.Lt, ast.Gt: ast.LtE, ast.LtE: ast.Gt}


def _order_spellings(t, holds):
    """all spellings of an ordering comparison that holds (or does not hold): `a < b` == `b > a`; when it does not hold also
    the complement `a >= b` / `b <= a` (exact for the totally ordered numbers these guards compare: counts, lengths, stamps;
    not for NaN, which none of the rules using facts() are about)"""
    out = {src(t)} if holds else set()
    if isinstance(t, ast.Compare) and len(t.ops) == 1 and type(t.ops[0]) in _SWAP:
        a, b, op = t.left, t.comparators[0], type(t.ops[0])
        if not holds:
            op = _COMPL[op]
        out.add(src(ast.Compare(left=a, ops=[op()], comparators=[b])))
        out.add(src(ast.Compare(left=b, ops=[_SWAP[op]()], comparators=[a])))
    return out


class _FakeIf:
    def __init__(self, real, test):
        self.test = test
        self.body, self.orelse = getattr(real, "orelse", []), getattr(real, "body", [])
        for a in ("lineno", "col_offset", "end_lineno", "end_col_offset", "_module", "_parent"):
            if hasattr(real, a):
                setattr(self, a, getattr(real, a))


class NegTest:
    """a CFG test node seen through the negation of its condition (T and F edges swapped)"""
    neg = True
    kind = "test"

    def __init__(self, real, test):
        self.real, self.id, self.copy = real, real.id, real.copy
        self.ast = _FakeIf(real.ast, test)

    @property
    def lineno(self):
        return self.real.lineno


def _flip(label):
    return {"T": "F", "F": "T"}.get(label, label)


class FuncView:
    def __init__(self, ctx, fn, exc="raise", may_raise=None):
        self.ctx = ctx
        self.repo = ctx.repo
        self.fn = fn
        self.qual = ctx.repo.func_qual(fn)
        self.cfg = CFG(fn, exc=exc, may_raise=may_raise, exc_supers=self._supers)
        ctx.functions.add(self.qual)
        ctx.consulted.add(fn._module.relpath)
        if hasattr(ctx, "unwrapped"):
            ctx.unwrapped(fn)

    def _supers(self, name):
        b = self.fn._module.ns.get(name)
        if b is not None and b.kind == "class":
            out = set()
            for c in b.target.mro()[0]:
                out.add(c.name)
                for be in c.node.bases:
                    d = dotted(be)
                    if d:
                        out.add(d.split(".")[-1])
                        from .cfg import _builtin_exc_supers
                        out |= _builtin_exc_supers(d.split(".")[-1]) or set()
            return out
        return None

    # ---------------------------------------------------------------- locators
    def calls(self, pat, where=None):
        """[(cfgnode, Call)] for calls whose dotted callee matches pat"""
        out = []
        for n in self.cfg.nodes:
            for x in self.cfg.walk_node(n):
                if isinstance(x, ast.Call):
                    hit = suffix_match(call_name(x), pat)
                    root = x.func.value if isinstance(x.func, ast.Attribute) else None
                    while isinstance(root, ast.Attribute):
                        root = root.value
                    if not hit and isinstance(root, ast.Name) and root.id not in ("self", "cls"):
                        # the receiver is a local: match on what it holds (`connector = self.connector; connector.reopen()`)
                        try:
                            v = self.sym(x.func.value, n)
                            if dotted(v) and dotted(v) != dotted(x.func.value):
                                hit = suffix_match(dotted(v) + "." + x.func.attr, pat)
                        except Exception:
                            hit = False
                    if hit and (where is None or where(n, x)):
                        out.append((n, x))
        return out

    def attr_calls(self, names):
        """[(cfgnode, Call)] for method calls whose method name is in names, whatever the receiver
        expression is (subscripts, call results ...)"""
        if isinstance(names, str):
            names = (names,)
        out = []
        for n in self.cfg.nodes:
            for x in self.cfg.walk_node(n):
                if isinstance(x, ast.Call) and isinstance(x.func, ast.Attribute) and x.func.attr in names:
                    out.append((n, x))
        return out

    def call_nodes(self, pat, where=None):
        seen, out = set(), []
        for n, _ in self.calls(pat, where):
            if n.id not in seen:
                seen.add(n.id)
                out.append(n)
        return out

    def stores(self, pat):
        """cfg nodes that assign / augassign / delete a Name or Attribute matching pat"""
        out = []
        for n in self.cfg.nodes:
            hit = False
            for x in self.cfg.walk_node(n):
                if isinstance(x, (ast.Name, ast.Attribute)) and isinstance(x.ctx, (ast.Store, ast.Del)):
                    if suffix_match(dotted(x), pat):
                        hit = True
                    elif isinstance(x, ast.Attribute):
                        # `respondent.errored = ..` with `respondent = self.respondent`: the object written is what the local holds
                        root = x.value
                        while isinstance(root, ast.Attribute):
                            root = root.value
                        if isinstance(root, ast.Name) and root.id not in ("self", "cls"):
                            try:
                                v = self.sym(x.value, n)
                                if dotted(v) and dotted(v) != dotted(x.value) and suffix_match(dotted(v) + "." + x.attr, pat):
                                    hit = True
                            except Exception:
                                pass
            if hit:
                out.append(n)
        return out

    def tests(self, pred):
        """test nodes whose condition satisfies pred.  A test written as the *negation* of such a condition (an early
        `if not C: return` instead of `if C: ...`) is returned as a NegTest proxy: same CFG node, T/F edges swapped, so
        `dominated_by_edge(x, t, "T")` keeps meaning "x runs only when C holds"."""
        from . import normalize
        out, proxies = [], []
        for n in self.cfg.nodes:
            if n.kind != "test":
                continue
            t = n.ast.test
            try:
                if pred(t):
                    out.append(n)
                    continue
            except Exception:
                continue
            try:
                # by value: `respondent = self.respondent; if respondent.ended:` is a test of self.respondent.ended
                tv = self.sym(t, n)
                if src(tv) != src(t) and pred(tv):
                    out.append(n)
                    continue
            except Exception:
                pass
            try:
                neg = normalize._BoolNF().visit(normalize._negate(ast.parse(ast.unparse(t), mode="eval").body))
                if pred(neg):
                    proxies.append(NegTest(n, neg))
            except Exception:
                pass
        return out + proxies        # direct spellings first: rules that take [0] keep their anchor when both exist

    def ptests(self, what):
        """polarity-aware test lookup: `what` is the text of a condition (or a predicate on the condition's AST);
        returns [(test node, label)] where label is the edge ("T"/"F") on which the condition HOLDS -- a test written
        as the negation of `what` (`not X`, `a not in b` for `a in b`, ...) is found with the opposite label."""
        from . import normalize
        out = []
        if callable(what):
            for n in self.cfg.nodes:
                if n.kind != "test":
                    continue
                t = n.ast.test
                if what(t):
                    out.append((n, "T"))
                else:
                    try:
                        neg = normalize._BoolNF().visit(normalize._negate(ast.parse(ast.unparse(t), mode="eval").body))
                    except Exception:
                        continue
                    if what(neg):
                        out.append((n, "F"))
            return out
        want = normalize._BoolNF().visit(ast.parse(what, mode="eval").body)
        neg = normalize._BoolNF().visit(normalize._negate(ast.parse(what, mode="eval").body))
        dw, dn = src(want), src(neg)
        for n in self.cfg.nodes:
            if n.kind != "test":
                continue
            d = src(n.ast.test)
            if d == dw:
                out.append((n, "T"))
            elif d == dn:
                out.append((n, "F"))
        return out

    def under(self, targets, ptest, holds=True):
        """every path to each target leaves the polarity-aware test `ptest` (an item of ptests()) on the edge where the
        condition holds (or does not hold)"""
        n, lab = ptest
        if not holds:
            lab = "F" if lab == "T" else "T"
        return self.dominated_by_edge(targets, n, lab)

    def facts(self, target):
        """atomic conditions that hold on EVERY path to `target` (a CFG node), as normalised source strings: the
        conjuncts of each dominating test taken on its true edge, the negated disjuncts of each dominating test taken on
        its false edge.  Independent of how the guards are nested or merged (`if a: if b:` == `if a and b:`)."""
        from . import normalize
        out = set()

        def atoms(t, holds):
            if isinstance(t, ast.UnaryOp) and isinstance(t.op, ast.Not):
                atoms(t.operand, not holds)
            elif isinstance(t, ast.BoolOp) and isinstance(t.op, ast.And) and holds:
                for v in t.values:
                    atoms(v, True)
            elif isinstance(t, ast.BoolOp) and isinstance(t.op, ast.Or) and not holds:
                for v in t.values:
                    atoms(v, False)
            elif holds:
                out.update(_order_spellings(t, True))
            else:
                try:
                    out.add(src(normalize._BoolNF().visit(normalize._negate(ast.parse(ast.unparse(t), mode="eval").body))))
                except Exception:
                    pass
                out.update(_order_spellings(t, False))
        for n in self.cfg.nodes:
            if n.kind != "test" or n.id == target.id:
                continue
            for lab in ("T", "F"):
                if self.dominated_by_edge([target], n, lab):
                    atoms(n.ast.test, lab == "T")
        return out

    def core_facts(self, target):
        """facts(target) with one spelling per ordering comparison (constant operand on the right), for rules that compare
        the *set* of conditions on a path with an expected set"""
        out = set()
        for f in self.facts(target):
            try:
                e = ast.parse(f, mode="eval").body
            except Exception:
                out.add(f)
                continue
            if isinstance(e, ast.Compare) and len(e.ops) == 1 and type(e.ops[0]) in _SWAP and isinstance(e.left, ast.Constant) \
                    and not isinstance(e.comparators[0], ast.Constant):
                continue
            out.add(f)
        return out

    def symfacts(self, target):
        """facts(target) plus each fact with its local names replaced by their reaching definitions at `target`
        (`sel` -> `self.insels.fetch(tag)`), so a rule can name the condition by value instead of by variable"""
        out = set(self.facts(target))
        for f in list(out):
            try:
                e = ast.parse(f, mode="eval").body
                out.add(src(self.sym(e, target)))
            except Exception:
                pass
        # a guard spelled as a call of a one-expression predicate method (`ix.idled()` with
        # `def idled(self): return self.timeout > 0.0 and self.timer.expired`) contributes that expression's conjuncts
        for f in list(out):
            try:
                e = ast.parse(f, mode="eval").body
            except Exception:
                continue
            if isinstance(e, ast.Call) and not e.args and not e.keywords and isinstance(e.func, ast.Attribute):
                cands = []
                for m in self.ctx.repo.modules.values():
                    if m.is_test:
                        continue
                    for c in m.tree.body:
                        if isinstance(c, ast.ClassDef):
                            for fn in c.body:
                                if isinstance(fn, ast.FunctionDef) and fn.name == e.func.attr and len(fn.args.args) == 1:
                                    cands.append(fn)
                if len(cands) == 1:
                    fn = cands[0]
                    selfname = fn.args.args[0].arg
                    recv = src(e.func.value)
                    try:
                        W = FuncView(self.ctx, fn)
                    except Exception:
                        continue
                    rets = [r for r in W.cfg.nodes if r.kind == "return"]
                    truthy = [r for r in rets if not (r.ast.value is None or
                                                      (isinstance(r.ast.value, ast.Constant) and not r.ast.value.value))]
                    if len(truthy) != 1 or any(x.kind == "for" or (x.kind == "test" and isinstance(x.ast, ast.While)) for x in W.cfg.nodes):
                        continue
                    # the call is truthy only along that return: the guards on the way to it and what it returns all hold
                    parts = set(W.facts(truthy[0]))
                    v = truthy[0].ast.value
                    if not isinstance(v, ast.Constant):
                        for part in (v.values if isinstance(v, ast.BoolOp) and isinstance(v.op, ast.And) else [v]):
                            parts.add(src(part))

                    class R(ast.NodeTransformer):
                        def visit_Name(self, n):
                            return ast.parse(recv, mode="eval").body if n.id == selfname else n
                    for ptxt in parts:
                        try:
                            out.add(src(R().visit(ast.parse(ptxt, mode="eval").body)))
                        except Exception:
                            pass
        return out

    def nodes(self, kind=None, pred=None):
        return [n for n in self.cfg.nodes if (kind is None or n.kind == kind)
                and (pred is None or pred(n))]

    def need(self, items, what):
        if not items:
            raise AnchorError("%s: cannot locate %s" % (self.qual, what))
        return items

    def one(self, items, what):
        self.need(items, what)
        return items[0]

    # ---------------------------------------------------------------- path rules
    def ids(self, nodes):
        return [n.id if hasattr(n, "id") else n for n in nodes]

    def dominated(self, targets, vias, start=None):
        """every path entry->target passes one of vias"""
        self.ctx.paths += 1
        return self.cfg.must_pass(self.ids(targets), self.ids(vias),
                                  start=None if start is None else self.ids([start])[0])

    def dominated_by_edge(self, targets, test_node, label):
        """every path entry->target takes edge `label` out of test_node"""
        self.ctx.paths += 1
        c = self.cfg
        tid = test_node.id
        if getattr(test_node, "neg", False):
            label = _flip(label)
        tids = set(self.ids(targets))
        if not tids or not tids <= self._reachable_all():
            return False    # an unreachable node is not "guarded" by anything (no vacuous truth)
        without = c.reachable(c.entry.id, removed_edges=c.edges_from(tid, label))
        return not (tids & without)

    def _reachable_all(self):
        r = self.__dict__.get("_reach_all")
        if r is None:
            r = self._reach_all = self.cfg.reachable(self.cfg.entry.id)
        return r

    def always_then(self, starts, vias, ends=None, skip_exc=False):
        """every path from each start to `ends` (default normal exit) passes one of vias"""
        self.ctx.paths += 1
        return self.cfg.always_reaches(self.ids(starts), self.ids(vias),
                                       ends=None if ends is None else self.ids(ends),
                                       skip_exc=skip_exc)

    def reach(self, start, removed=()):
        return self.cfg.reachable(self.ids([start])[0], removed_nodes=self.ids(removed))

    def counts_on_paths(self, start, ends, pred, max_visits=1, labels_block=()):
        """set of counts of nodes satisfying pred over all paths start->ends"""
        paths = self.cfg.paths(self.ids([start])[0], self.ids(ends), max_visits=max_visits,
                               labels_block=labels_block)
        self.ctx.paths += len(paths)
        out = {}
        for p in paths:
            k = sum(1 for i in p[1:] if pred(self.cfg.nodes[i]))
            out.setdefault(k, p)
        return out

    def path_text(self, path):
        return " -> ".join(self.cfg.describe(i) for i in path)

    def order_on_paths(self, start, ends, groups, max_visits=1):
        """groups: list of node-id sets. True iff on every path the first occurrences are in
        non-decreasing group order (subsequence order)"""
        paths = self.cfg.paths(self.ids([start])[0], self.ids(ends), max_visits=max_visits)
        self.ctx.paths += len(paths)
        for p in paths:
            last = -1
            for i in p:
                for gi, g in enumerate(groups):
                    if i in g:
                        if gi < last:
                            return False, p
                        last = max(last, gi)
        return True, None

    # ---------------------------------------------------------------- def-use
    def _def_nodes(self, name):
        c = getattr(self, "_defs_cache", None)
        if c is None:
            c = self._defs_cache = {}
            for n in self.cfg.nodes:
                for x in self.cfg.walk_node(n):
                    if isinstance(x, ast.Name) and isinstance(x.ctx, (ast.Store, ast.Del)):
                        c.setdefault(x.id, set()).add(n.id)
                if n.kind == "except" and n.ast.name:
                    c.setdefault(n.ast.name, set()).add(n.id)
        return c.get(name, set())

    def reaching_defs(self, node, name):
        """(set of cfg node ids whose definition of `name` reaches the *entry* of node,
            entry_reaches: True if node is reachable from function entry with no definition)"""
        rc = self.__dict__.setdefault("_rd_cache", {})
        if (node.id, name) in rc:
            return rc[(node.id, name)]
        r = self._reaching_defs(node, name)
        rc[(node.id, name)] = r
        return r

    def _reaching_defs(self, node, name):
        defs = self._def_nodes(name)
        nid = node.id
        out = set()
        for d in defs:
            others = defs - {d}
            r = set()
            for s, _ in self.cfg.succ[d]:
                if s in others:
                    if s == nid:
                        r.add(s)
                    continue
                if s == nid:
                    r.add(s)
                    continue
                r |= self._reach_to(s, others, nid)
            if nid in r:
                out.add(d)
        entry = nid in self._reach_to(self.cfg.entry.id, defs, nid)
        return out, entry

    def _reach_to(self, start, blocked, target):
        """nodes reachable from start where blocked nodes are not traversed *through* (but the
        target itself counts as reached even if it is a blocked definition node)"""
        seen = set()
        stack = [start]
        while stack:
            a = stack.pop()
            if a in seen:
                continue
            seen.add(a)
            if a in blocked:
                continue
            for b, _ in self.cfg.succ[a]:
                if b not in seen:
                    stack.append(b)
        return seen

    def sym(self, expr, at, depth=6, unpack=False):
        """expression with local names replaced by their unique reaching definition's value
        (simple assignments and augmented assignments only); returns an ast expression"""
        import copy
        view = self

        class Sub(ast.NodeTransformer):
            def visit_Name(self, n):
                if not isinstance(n.ctx, ast.Load) or depth <= 0:
                    return n
                defs, entry = view.reaching_defs(at, n.id)
                if entry or len(defs) != 1:
                    return n
                d = view.cfg.nodes[next(iter(defs))]
                st = d.ast
                if d.kind != "stmt":
                    return n
                if isinstance(st, ast.Assign) and len(st.targets) == 1 and isinstance(st.targets[0], ast.Name) \
                        and st.targets[0].id == n.id:
                    if d.id == at.id:
                        return n
                    return view.sym(st.value, d, depth - 1, unpack)
                if unpack and isinstance(st, ast.Assign) and len(st.targets) == 1 and isinstance(st.targets[0], (ast.Tuple, ast.List)) \
                        and d.id != at.id:
                    # `a, b = E`: a is E[0] (opt-in: the expression E then appears once per unpacked name)
                    for i, t in enumerate(st.targets[0].elts):
                        if isinstance(t, ast.Name) and t.id == n.id:
                            if isinstance(st.value, (ast.Tuple, ast.List)) and len(st.value.elts) == len(st.targets[0].elts):
                                return view.sym(st.value.elts[i], d, depth - 1, unpack)
                            return ast.Subscript(value=view.sym(st.value, d, depth - 1, unpack), slice=ast.Constant(value=i), ctx=ast.Load())
                if isinstance(st, ast.AugAssign) and isinstance(st.target, ast.Name) and st.target.id == n.id:
                    if d.id == at.id:
                        return n
                    left = view.sym(ast.Name(id=n.id, ctx=ast.Load()), d, depth - 1)
                    right = view.sym(st.value, d, depth - 1)
                    return ast.BinOp(left=left, op=st.op, right=right)
                return n
        e = ast.parse(ast.unparse(expr), mode="eval").body   # detached copy (no parent links)
        return ast.fix_missing_locations(Sub().visit(e))

    def body_nodes(self, stmt):
        """cfg nodes whose ast lies inside stmt (a compound statement)"""
        inside = set(id(x) for x in ast.walk(stmt))
        return [n for n in self.cfg.nodes if id(n.ast) in inside and n.ast is not stmt]


def node_has_call(view, n, pat):
    return any(isinstance(x, ast.Call) and suffix_match(call_name(x), pat) for x in view.cfg.walk_node(n))


# ------------------------------------------------------------------ writers (T4)
MUTATORS = {"append", "appendleft", "extend", "extendleft", "insert", "remove", "pop", "popleft",
            "clear", "rotate", "reverse", "sort", "update", "setdefault", "add", "discard",
            "popitem", "__setitem__", "__delitem__"}


def attr_writers(repo, attr, include_mutating_calls=True, modules=None):
    """all sites in non-test modules that write attribute `.attr` of any object:
    assignment / augassign / del / subscript-store / mutating call.  -> [(node, kind)]"""
    out = []
    for m in repo.modules.values():
        if m.is_test or (modules and m.name not in modules):
            continue
        for n in ast.walk(m.tree):
            if isinstance(n, ast.Attribute) and n.attr == attr:
                ef = enclosing_func(n)
                if ef is not None and getattr(ef, "_folded", False):
                    continue        # helper folded into its callers by the normal form (N3): judged there
                if isinstance(n.ctx, (ast.Store, ast.Del)):
                    out.append((n, "assign"))
                    continue
                p = parent(n)
                if isinstance(p, ast.Subscript) and p.value is n and isinstance(p.ctx, (ast.Store, ast.Del)):
                    out.append((n, "item-store"))
                elif include_mutating_calls and isinstance(p, ast.Attribute) and p.value is n \
                        and p.attr in MUTATORS and isinstance(parent(p), ast.Call) and parent(p).func is p:
                    out.append((n, "call:" + p.attr))
    return out


def func_qual_of(repo, node):
    f = enclosing_func(node)
    while f is not None and isinstance(f, ast.Lambda):
        f = enclosing_func(f)
    return repo.func_qual(f) if f is not None else node._module.relpath + ":<module>"


def check_writers(ctx, rule, attr, allowed, floor=1, aliases_ok=True, why=""):
    """T4: every writer of .attr lies in one of the allowed functions
    (allowed: set of 'relpath:Class.method' or prefixes ending with '.')"""
    sites = attr_writers(ctx.repo, attr)
    n = 0
    for node, kind in sites:
        q = func_qual_of(ctx.repo, node)
        ctx.use(node)
        ok = any(q == a or (a.endswith(".") and q.startswith(a)) or (a.endswith(":") and q.startswith(a))
                 for a in allowed)
        n += 1
        ctx.check(ok, rule, node, "%s [%s] in %s" % (src(parent(node)) if kind != "assign" else src(node), kind, q),
                  "attribute .%s is written outside its owning functions %s: %s"
                  % (attr, sorted(allowed), why), detail="%s %s in %s" % (kind, src(node), q))
    ctx.floor(rule + ":" + attr, n, floor)
    return sites


# ------------------------------------------------------------------ defect scope
def defect_scope(ctx, rule_prefix, entries, which=("D1", "D1b", "D3", "D4", "D5", "D5b", "D6", "D8"),
                 extra_edges=None, stop=None, label="", max_depth=None, floor=1):
    """run the internal-error detectors over the call-graph closure of entries"""
    repo = ctx.repo
    scope = closure(repo, entries, extra_edges=extra_edges, stop=stop, max_depth=max_depth)
    fns = list(scope.values())
    for f in fns:
        ctx.functions.add(repo.func_qual(f))
        ctx.consulted.add(f._module.relpath)
    found = defects.run(repo, fns, which)
    bad_funcs = set()
    for f in found:
        q = func_qual_of(repo, f.node)
        bad_funcs.add(q)
        ctx.bad(f.rule, f.node, f.construct, f.why + (" [%s]" % label if label else ""))
    for q, f in scope.items():
        if q not in bad_funcs:
            ctx.ok("%s(%s)" % (rule_prefix, "+".join(which)), f,
                   "no internal-error construct in %s" % q)
    ctx.floor(rule_prefix + ":scope", len(fns), floor)
    return scope


def literal_elts(node):
    """list of python values for a literal list/tuple/set of constants; None if not literal"""
    if isinstance(node, (ast.List, ast.Tuple, ast.Set)):
        out = []
        for e in node.elts:
            if isinstance(e, ast.Constant):
                out.append(e.value)
            else:
                return None
        return out
    return None


def module_assign(module, name):
    """value node of the last top-level assignment NAME = ... in module (AnchorError if none)"""
    val = None
    for st in module.tree.body:
        if isinstance(st, ast.Assign):
            for t in st.targets:
                if isinstance(t, ast.Name) and t.id == name:
                    val = st.value
    if val is None:
        raise AnchorError("module %s has no top-level assignment to %s" % (module.name, name))
    return val


def class_assign(ci, name):
    v = ci.class_attrs.get(name)
    if v is None:
        raise AnchorError("class %s has no class-level assignment to %s" % (ci.qual, name))
    return v


def same_ast(a, b):
    return ast.dump(a) == ast.dump(b)


def is_name(node, name):
    return isinstance(node, ast.Name) and node.id == name


def is_attr(node, pat):
    return isinstance(node, ast.Attribute) and suffix_match(dotted(node), pat)


def attr_value_loads(repo, attr):
    """loads of `.attr` that are not the callee of a call (i.e. the object is taken as a value,
    possibly aliased): [(node)] over non-test modules"""
    out = []
    for m in repo.modules.values():
        if m.is_test:
            continue
        for n in ast.walk(m.tree):
            if isinstance(n, ast.Attribute) and n.attr == attr and isinstance(n.ctx, ast.Load):
                p = parent(n)
                if isinstance(p, ast.Call) and p.func is n:
                    continue
                out.append(n)
    return out


def check_no_alias_escape(ctx, rule, attr, allowed, why=""):
    """the container held in .attr is only ever taken as a value inside its owner functions
    (so it cannot be mutated through an alias elsewhere)"""
    k = 0
    for n in attr_value_loads(ctx.repo, attr):
        q = func_qual_of(ctx.repo, n)
        ok = any(q == a or (a.endswith(".") and q.startswith(a)) for a in allowed)
        k += 1
        ctx.check(ok, rule, n, "%s read as a value in %s" % (src(n), q),
                  "container .%s is reachable (aliasable) outside its owner %s: %s" % (attr, sorted(allowed), why),
                  detail="%s in %s" % (src(parent(n))[:80], q))
    return k


def member_test(t):
    """normal form of a membership/equality test of a plain operand against constants:
    `x in (A, B)`, `x == A` (either order) -> (dotted(x), frozenset of dotted constant names), else None.
    (`x == A or x == B` is rewritten to the tuple form by sa/normalize.py N1 before any rule runs)"""
    from .model import dotted
    if isinstance(t, ast.Compare) and len(t.ops) == 1:
        if isinstance(t.ops[0], ast.In) and isinstance(t.comparators[0], (ast.Tuple, ast.List, ast.Set)):
            subj = dotted(t.left)
            names = [dotted(e) for e in t.comparators[0].elts]
            if subj and all(names):
                return subj, frozenset(names)
        if isinstance(t.ops[0], ast.Eq):
            a, b = dotted(t.left), dotted(t.comparators[0])
            if a and b:
                return (a, frozenset([b])) if not a.isupper() else (b, frozenset([a]))
    return None


def truthiness_of(e):
    """X when e computes bool(X): `True if X else False`, `bool(X)`, `not not X`; else None.  (The if/else-assignment
    spelling is rewritten to the conditional expression by sa/normalize N6.)"""
    if isinstance(e, ast.IfExp) and isinstance(e.body, ast.Constant) and e.body.value is True \
            and isinstance(e.orelse, ast.Constant) and e.orelse.value is False:
        return e.test
    if isinstance(e, ast.Call) and isinstance(e.func, ast.Name) and e.func.id == "bool" and len(e.args) == 1 and not e.keywords:
        return e.args[0]
    if isinstance(e, ast.UnaryOp) and isinstance(e.op, ast.Not) and isinstance(e.operand, ast.UnaryOp) and isinstance(e.operand.op, ast.Not):
        return e.operand.operand
    return None


# ----------------------------------------------------------------------------------------------- partial evaluation
class _SubstNames(ast.NodeTransformer):
    def __init__(self, env):
        self.env = env
        self.exprs = {k: v for k, v in env.items() if not k.isidentifier()}

    def generic_visit(self, node):
        if self.exprs and isinstance(node, (ast.Attribute, ast.Subscript)) and isinstance(getattr(node, "ctx", None), ast.Load):
            k = src(node)
            if k in self.exprs:
                return ast.copy_location(_clone(self.exprs[k]), node)
        return super().generic_visit(node)

    def visit_Name(self, n):
        if isinstance(n.ctx, ast.Load) and n.id in self.env:
            import copy as _c
            return ast.copy_location(_c.deepcopy(self.env[n.id]) if False else _clone(self.env[n.id]), n)
        return n


def _clone(node):
    from .inline import clone
    return clone(node)


def simplify(e):
    """constant folding of the boolean skeleton of e: comparisons/membership between constants, and/or/not, conditional
    expressions with a constant test.  Returns a new expression (never mutates e)."""
    e = _clone(e)

    def const(x):
        return isinstance(x, ast.Constant)

    def fold(x):
        if isinstance(x, ast.Attribute) and isinstance(x.value, ast.Name) and x.value.id in ("errno", "ssl", "socket") \
                and x.attr.isupper():
            return ast.Constant(value="%s.%s" % (x.value.id, x.attr))      # symbolic integer constant of the platform
        if isinstance(x, (ast.Tuple, ast.List, ast.Set)):
            x.elts = [fold(z) for z in x.elts]
            return x
        if isinstance(x, ast.UnaryOp) and isinstance(x.op, ast.Not):
            o = fold(x.operand)
            if const(o):
                return ast.Constant(value=not o.value)
            x.operand = o
            return x
        if isinstance(x, ast.BoolOp):
            vals = [fold(v) for v in x.values]
            out = []
            for v in vals:
                if const(v):
                    if isinstance(x.op, ast.And) and not v.value:
                        return ast.Constant(value=False) if not out else ast.BoolOp(op=x.op, values=out + [v])
                    if isinstance(x.op, ast.Or) and v.value:
                        return ast.Constant(value=True) if not out else ast.BoolOp(op=x.op, values=out + [v])
                    continue
                out.append(v)
            if not out:
                return ast.Constant(value=isinstance(x.op, ast.And))
            return out[0] if len(out) == 1 else ast.BoolOp(op=x.op, values=out)
        if isinstance(x, ast.Compare) and len(x.ops) == 1:
            a, b = fold(x.left), fold(x.comparators[0])
            if const(a) and const(b) and isinstance(x.ops[0], (ast.Eq, ast.NotEq)):
                r = a.value == b.value
                return ast.Constant(value=r if isinstance(x.ops[0], ast.Eq) else not r)
            if const(a) and const(b) and isinstance(x.ops[0], (ast.Is, ast.IsNot)) and \
                    any(z.value is None or z.value is True or z.value is False for z in (a, b)):
                r = a.value is b.value        # identity with a singleton
                return ast.Constant(value=r if isinstance(x.ops[0], ast.Is) else not r)
            if const(a) and isinstance(b, ast.Dict) and all(isinstance(z, ast.Constant) for z in b.keys) \
                    and isinstance(x.ops[0], (ast.In, ast.NotIn)):
                r = a.value in [z.value for z in b.keys]
                return ast.Constant(value=r if isinstance(x.ops[0], ast.In) else not r)
            if const(a) and isinstance(b, (ast.Tuple, ast.List, ast.Set)) and all(const(z) for z in b.elts) \
                    and isinstance(x.ops[0], (ast.In, ast.NotIn)):
                r = a.value in [z.value for z in b.elts]
                return ast.Constant(value=r if isinstance(x.ops[0], ast.In) else not r)
            x.left, x.comparators = a, [b]
            return x
        if isinstance(x, ast.Subscript) and isinstance(x.value, ast.Dict):
            k = fold(x.slice)
            if const(k):
                for kk, vv in zip(x.value.keys, x.value.values):
                    if isinstance(kk, ast.Constant) and kk.value == k.value:
                        return fold(vv)
            return x
        if isinstance(x, ast.Call) and isinstance(x.func, (ast.Subscript, ast.Attribute, ast.Name)):
            f_ = fold(x.func) if isinstance(x.func, ast.Subscript) else x.func
            ops = {"lt": ast.Lt, "le": ast.LtE, "gt": ast.Gt, "ge": ast.GtE, "eq": ast.Eq, "ne": ast.NotEq}
            if isinstance(f_, ast.Attribute) and isinstance(f_.value, ast.Name) and f_.value.id == "operator" and f_.attr in ops \
                    and len(x.args) == 2 and not x.keywords:
                return fold(ast.Compare(left=x.args[0], ops=[ops[f_.attr]()], comparators=[x.args[1]]))
            if f_ is not x.func:
                x.func = f_
            x.args = [fold(a) for a in x.args]
            for k in x.keywords:
                k.value = fold(k.value)
            return x
        if isinstance(x, ast.IfExp):
            t = fold(x.test)
            if const(t):
                return fold(x.body if t.value else x.orelse)
            x.test, x.body, x.orelse = t, fold(x.body), fold(x.orelse)
            return x
        if isinstance(x, ast.BinOp):
            x.left, x.right = fold(x.left), fold(x.right)
            if isinstance(x.op, ast.Add) and isinstance(x.left, (ast.Tuple, ast.List)) and type(x.left) is type(x.right):
                return fold(type(x.left)(elts=list(x.left.elts) + list(x.right.elts), ctx=ast.Load()))   # (a, b) + (c,)
            return x
        if isinstance(x, ast.Call):
            x.args = [fold(a) for a in x.args]
            for k in x.keywords:
                k.value = fold(k.value)
            return x
        return x
    return fold(e)


def peval(view, env, max_paths=400, effects=False):
    """Partial evaluation of a (small, loop-light) function under known values.
    env: {name or expression text: python constant} (e.g. {"comparison": "<"} or {"ex.args[0]": "errno.EAGAIN"}; the
    integer constants errno.X / ssl.X / socket.X fold to the symbolic constants "errno.X", ...).  Enumerates the CFG paths that
    are feasible when those names/expressions hold those constants (tests that fold to a constant take one edge only),
    carrying straight-line assignments to locals along each path.
    Returns [(kind, expr | None, in_handler)] with kind in {'return', 'raise', 'end'}; expr is the returned expression with
    locals replaced by what they hold on that path and folded.  With effects=True a 4th item lists the attribute stores
    (`self.cutoff = True`) executed on that path.  The result does not depend on how the function spells its dispatch
    (if/elif chain, early returns, guard clauses, flags), only on what it computes."""
    cfg = view.cfg
    cenv = {k: (v if isinstance(v, ast.AST) else ast.Constant(value=v)) for k, v in env.items()}
    # class-level literal tables of the module (`Orderings = {'<': operator.lt, ..}`) are known values too
    try:
        mtree = view.fn._module.tree
        owner = None
        fn_locals = {x.id for x in ast.walk(view.fn) if isinstance(x, ast.Name) and isinstance(x.ctx, (ast.Store, ast.Del))} | \
            {a.arg for a in view.fn.args.args + view.fn.args.kwonlyargs}
        for st in mtree.body:       # module-level literal tables bound exactly once (`CUTOFF_ERRNOS = (errno.X, ..)`)
            if isinstance(st, ast.Assign) and len(st.targets) == 1 and isinstance(st.targets[0], ast.Name) and \
                    isinstance(st.value, (ast.Dict, ast.Tuple, ast.List)) and st.targets[0].id not in fn_locals and \
                    sum(1 for z in ast.walk(mtree) if isinstance(z, ast.Name) and z.id == st.targets[0].id and isinstance(z.ctx, (ast.Store, ast.Del))) == 1:
                cenv.setdefault(st.targets[0].id, st.value)
        for c in mtree.body:
            if isinstance(c, ast.ClassDef):
                if any(f is view.fn for f in c.body):
                    owner = c.name
                for st in c.body:
                    if isinstance(st, ast.Assign) and len(st.targets) == 1 and isinstance(st.targets[0], ast.Name) and \
                            isinstance(st.value, (ast.Dict, ast.Tuple, ast.List)) and \
                            sum(1 for z in c.body if isinstance(z, ast.Assign) and any(dotted(t) == st.targets[0].id for t in z.targets)) == 1:
                        cenv.setdefault("%s.%s" % (c.name, st.targets[0].id), st.value)
        if owner:
            for k in list(cenv):
                if k.startswith(owner + "."):
                    cenv.setdefault("self." + k.split(".", 1)[1], cenv[k])
                    cenv.setdefault("cls." + k.split(".", 1)[1], cenv[k])
    except Exception:
        pass
    out, seen_out = [], set()
    stack = [(cfg.entry.id, dict(cenv), False, {}, ())]
    paths = 0

    def emit(kind, e, handler, eff):
        key = (kind, src(e) if e is not None else None, handler, eff if effects else ())
        if key not in seen_out:
            seen_out.add(key)
            out.append((kind, e, handler, eff) if effects else (kind, e, handler))
    while stack and paths < max_paths:
        nid, loc, handler, visits, eff = stack.pop()
        n = cfg.nodes[nid]
        visits = dict(visits)
        visits[nid] = visits.get(nid, 0) + 1
        if visits[nid] > 2:
            continue
        if n.kind == "return":
            v = n.ast.value
            e = simplify(_SubstNames(loc).visit(_clone(v))) if v is not None else None
            emit("return", e, handler, eff)
            paths += 1
            # evaluating the returned expression may raise into an enclosing handler (`try: return a <= b  except TypeError: ..`)
            for b, lab in cfg.succ.get(nid, []):
                if lab == "exc":
                    stack.append((b, loc, handler, visits, eff))
            continue
        if n.kind == "raise":
            emit("raise", getattr(n.ast, "exc", None), handler, eff)
            paths += 1
            continue
        succ = cfg.succ.get(nid, [])
        if n.kind == "test":
            c = simplify(_SubstNames(loc).visit(_clone(n.ast.test)))
            if isinstance(c, ast.Constant):
                succ = [(b, lab) for b, lab in succ if lab == ("T" if c.value else "F") or lab not in ("T", "F")]
        elif n.kind == "except":
            handler = src(n.ast.type) if getattr(n.ast, "type", None) is not None else "BaseException"   # truthy: which handler
        elif isinstance(n.ast, ast.Assign) and len(n.ast.targets) == 1 and n.kind not in ("for", "with"):
            tg = n.ast.targets[0]
            val = simplify(_SubstNames(loc).visit(_clone(n.ast.value)))
            if isinstance(tg, ast.Name):
                loc = dict(loc)
                loc[tg.id] = val
            elif isinstance(tg, ast.Attribute):
                eff = eff + ("%s = %s" % (src(tg), src(val)),)
        if nid == cfg.exit.id or not succ:
            if nid == cfg.exit.id:
                emit("end", None, handler, eff)
            paths += 1
            continue
        for b, lab in succ:
            stack.append((b, loc, handler, visits, eff))
    return out


# ----------------------------------------------------------------------------------------------- path conditions as formulas
def _atom(e):
    """canonical propositional form of a test expression: ("atom", text) | ("not", f) | ("and", [f..]) | ("or", [f..]).
    Orderings are expressed with `<` only (a > b == b < a; a <= b == not (b < a)); !=, not in, is not are negated atoms."""
    if isinstance(e, ast.UnaryOp) and isinstance(e.op, ast.Not):
        return ("not", _atom(e.operand))
    if isinstance(e, ast.BoolOp):
        return ("and" if isinstance(e.op, ast.And) else "or", [_atom(v) for v in e.values])
    if isinstance(e, ast.Compare) and len(e.ops) == 1:
        a, b, op = e.left, e.comparators[0], e.ops[0]
        def mk(l, o, r):
            if isinstance(o, ast.Eq) and src(r) < src(l):
                l, r = r, l                     # == is symmetric: one spelling
            t = src(ast.Compare(left=l, ops=[o], comparators=[r]))
            if isinstance(o, (ast.Lt, ast.Eq)):
                _ATOM_STRUCT[t] = ("<" if isinstance(o, ast.Lt) else "==", src(l), src(r))
            return ("atom", t)
        if isinstance(op, (ast.In, ast.NotIn)) and isinstance(b, (ast.Tuple, ast.List, ast.Set)) and 1 <= len(b.elts) <= 4:
            alts = [mk(a, ast.Eq(), z) for z in b.elts]         # x in (A, B)  ==  x == A or x == B
            f = alts[0] if len(alts) == 1 else ("or", alts)
            return f if isinstance(op, ast.In) else ("not", f)
        if isinstance(op, ast.Eq):
            return mk(a, ast.Eq(), b)
        if isinstance(op, ast.Lt):
            return mk(a, ast.Lt(), b)
        if isinstance(op, ast.Gt):
            return mk(b, ast.Lt(), a)
        if isinstance(op, ast.LtE):
            return ("not", mk(b, ast.Lt(), a))
        if isinstance(op, ast.GtE):
            return ("not", mk(a, ast.Lt(), b))
        if isinstance(op, ast.NotEq):
            return ("not", mk(a, ast.Eq(), b))
        if isinstance(op, ast.NotIn):
            return ("not", mk(a, ast.In(), b))
        if isinstance(op, ast.IsNot):
            return ("not", mk(a, ast.Is(), b))
    if isinstance(e, ast.Compare) and len(e.ops) > 1:      # chained: a < b < c
        parts, left = [], e.left
        for op, right in zip(e.ops, e.comparators):
            parts.append(_atom(ast.Compare(left=left, ops=[op], comparators=[right])))
            left = right
        return ("and", parts)
    if isinstance(e, ast.Constant):
        return ("const", bool(e.value))
    return ("atom", src(e))


_ATOM_STRUCT = {}      # atom text -> ("<" | "==", left text, right text)


def _assignments(atoms):
    """truth assignments over the atoms that are consistent with a total order on the compared terms: for each pair of terms,
    exactly one of a < b, b < a, a == b holds (constrained only among those of the three that occur)"""
    import itertools
    groups = {}
    for t in atoms:
        st = _ATOM_STRUCT.get(t)
        if st:
            groups.setdefault(frozenset((st[1], st[2])), []).append(t)
    tri = [g for g in groups.values() if len(g) >= 2]
    for vals in itertools.product((False, True), repeat=len(atoms)):
        env = dict(zip(atoms, vals))
        ok = True
        for g in tri:
            k = sum(1 for t in g if env[t])
            if k > 1 or (len(g) == 3 and k != 1):
                ok = False
                break
        if ok:
            yield env


def _atoms(f, acc):
    if f[0] == "atom":
        acc.add(f[1])
    elif f[0] == "not":
        _atoms(f[1], acc)
    elif f[0] in ("and", "or"):
        for g in f[1]:
            _atoms(g, acc)
    return acc


def _eval(f, env):
    if f[0] == "atom":
        return env[f[1]]
    if f[0] == "const":
        return f[1]
    if f[0] == "not":
        return not _eval(f[1], env)
    if f[0] == "and":
        return all(_eval(g, env) for g in f[1])
    return any(_eval(g, env) for g in f[1])


def path_condition(view, node, start=None, by_value=True, max_paths=2000, loops=False):
    """the condition under which `node` is executed, as a propositional formula over the tests on the way: OR over the
    (loop-free) CFG paths from `start` (default: the innermost enclosing loop header's iteration edge, else the function entry)
    of the AND of the tests taken on that path.  Independent of nesting, merging, splitting, ordering of guards.
    loops=True also counts the tests of `while` headers passed on the way (first entry into the loop)."""
    cfg = view.cfg
    if start is None:
        hdrs = [h for h in cfg.nodes if h.kind == "for" or (h.kind == "test" and isinstance(h.ast, ast.While))]
        enclosing = [h for h in hdrs if id(node.ast) in {id(x) for x in ast.walk(h.ast)} and h.id != node.id]
        if enclosing:
            h = max(enclosing, key=lambda x: getattr(x.ast, "lineno", 0))
            start = [b for b, lab in cfg.succ[h.id] if lab in ("iter", "T")]
        else:
            start = [cfg.entry.id]
    paths = []
    for s0 in start:
        if s0 == node.id:
            paths.append([s0])
        else:
            paths += cfg.paths(s0, [node.id], max_visits=1, limit=max_paths)
    disj = []
    for p in paths:
        conj = []
        for a, b in zip(p, p[1:]):
            n = cfg.nodes[a]
            if n.kind == "test" and (loops or not isinstance(n.ast, ast.While)):
                lab = [l for x, l in cfg.succ[a] if x == b]
                if not lab or lab[0] not in ("T", "F"):
                    continue
                t = n.ast.test
                if by_value:
                    try:
                        t = view.sym(t, n)
                    except Exception:
                        pass
                f = _atom(t)
                conj.append(f if lab[0] == "T" else ("not", f))
        disj.append(("and", conj))
    return ("or", disj)


def formula_equiv(f, expected_text, ignore=()):
    """is formula f equivalent to the python boolean expression expected_text (atoms compared by canonical text)?
    Atoms listed in `ignore` (e.g. logging verbosity tests) are quantified away: f must agree for both values."""
    g = _atom(ast.parse(expected_text, mode="eval").body)
    atoms = sorted(_atoms(f, set()) | _atoms(g, set()))
    if len(atoms) > 14:
        return False
    import itertools
    for env in _assignments(atoms):
        if _eval(f, env) != _eval(g, env):
            return False
    return True


def formula_implies(f, expected_text):
    """does formula f imply the python boolean expression expected_text (propositionally, atoms by canonical text)?"""
    g = _atom(ast.parse(expected_text, mode="eval").body)
    atoms = sorted(_atoms(f, set()) | _atoms(g, set()))
    if len(atoms) > 16:
        return False
    import itertools
    for env in _assignments(atoms):
        if _eval(f, env) and not _eval(g, env):
            return False
    return True


def formula_implied_by(f, premise_text):
    """does the python boolean expression premise_text imply formula f?"""
    g = _atom(ast.parse(premise_text, mode="eval").body)
    atoms = sorted(_atoms(f, set()) | _atoms(g, set()))
    if len(atoms) > 16:
        return False
    import itertools
    for env in _assignments(atoms):
        if _eval(g, env) and not _eval(f, env):
            return False
    return True


# ------------------------------------------------------------------------------------------- caller-owned arguments
_INPLACE = {"reverse", "sort", "extend", "append", "insert", "pop", "remove", "clear", "update", "add", "discard", "popitem",
            "setdefault", "appendleft", "extendleft", "popleft", "rotate", "__setitem__", "__delitem__", "__iadd__"}
_FRESH_CALLS = {"bytearray", "list", "dict", "set", "bytes", "tuple", "sorted", "reversed", "deque", "odict", "copy", "deepcopy", "str"}


def _fresh(e):
    """does expression e build a new object (so that mutating it cannot touch what the caller passed)?"""
    if isinstance(e, (ast.List, ast.Dict, ast.Set, ast.ListComp, ast.DictComp, ast.SetComp, ast.Constant, ast.JoinedStr, ast.BinOp)):
        return True
    if isinstance(e, ast.Subscript) and isinstance(e.slice, ast.Slice):
        return True
    if isinstance(e, ast.Call):
        n = (call_name(e) or "").split(".")[-1]
        return n in _FRESH_CALLS
    if isinstance(e, ast.IfExp):
        return _fresh(e.body) and _fresh(e.orelse)
    return False


def param_mutations(view, params=None):
    """in-place mutations of an object that may still be the caller's argument (or a mutable default):
    [(cfg node, parameter name, construct text)].  A site is clean when every definition of the name that reaches it binds a
    fresh object (bytearray(b), b[:], list(b), ..) and the parameter's original binding does not reach it."""
    fn = view.fn
    names = set(params) if params is not None else {a.arg for a in fn.args.args + fn.args.kwonlyargs} - {"self", "cls"}
    out = []
    for n in view.cfg.nodes:
        sites = []
        for x in view.cfg.walk_node(n):
            if isinstance(x, ast.Call) and isinstance(x.func, ast.Attribute) and x.func.attr in _INPLACE and isinstance(x.func.value, ast.Name) \
                    and x.func.value.id in names:
                sites.append((x.func.value.id, src(x)[:60]))
            elif isinstance(x, ast.Subscript) and isinstance(x.ctx, (ast.Store, ast.Del)) and isinstance(x.value, ast.Name) and x.value.id in names:
                sites.append((x.value.id, src(x)[:60] + (" = .." if isinstance(x.ctx, ast.Store) else " (del)")))
            elif isinstance(x, ast.AugAssign) and isinstance(x.target, ast.Name) and x.target.id in names and \
                    isinstance(x.op, (ast.Add, ast.BitOr, ast.BitAnd, ast.Sub, ast.Mult)) and False:
                pass
        for name, text in sites:
            defs, entry = view.reaching_defs(n, name)
            stale = entry
            for d in defs:
                da = view.cfg.nodes[d].ast
                ok = isinstance(da, ast.Assign) and len(da.targets) == 1 and isinstance(da.targets[0], ast.Name) and _fresh(da.value)
                stale = stale or not ok
            if stale:
                out.append((n, name, text))
    return out


# ------------------------------------------------------------------------------------------- named integer constants
def propagate_constants(fn, module_tree=None):
    """copy of function fn in which every name that only ever holds one literal constant is replaced by that literal:
    locals assigned exactly once (to a literal, outside any loop) and module-level names assigned exactly once to a literal.
    Rules about parameters of an algorithm (polynomials, masks, presets) then do not depend on whether the literal is written
    in place, kept in a local or kept in a module constant."""
    import copy as _copy
    f2 = _clone(fn)
    consts = {}
    if module_tree is not None:
        cnt = {}
        for st in module_tree.body:
            if isinstance(st, ast.Assign) and len(st.targets) == 1 and isinstance(st.targets[0], ast.Name):
                cnt.setdefault(st.targets[0].id, []).append(st.value)
        for k, vs in cnt.items():
            if len(vs) == 1 and isinstance(vs[0], ast.Constant) and isinstance(vs[0].value, (int, float, str, bytes)):
                consts[k] = vs[0]
    stores = {}
    for n in ast.walk(f2):
        if isinstance(n, ast.Name) and isinstance(n.ctx, (ast.Store, ast.Del)):
            stores[n.id] = stores.get(n.id, 0) + 1
        elif isinstance(n, ast.arg):
            stores[n.arg] = stores.get(n.arg, 0) + 2
        elif isinstance(n, (ast.Global, ast.Nonlocal)):
            for k in n.names:
                stores[k] = stores.get(k, 0) + 2
    local = {}
    for st in f2.body:      # top-level statements only: not under a loop or a condition
        if isinstance(st, ast.Assign) and len(st.targets) == 1 and isinstance(st.targets[0], ast.Name) and \
                isinstance(st.value, ast.Constant) and stores.get(st.targets[0].id) == 1:
            local[st.targets[0].id] = st.value
    for k in list(consts):
        if k in stores:
            del consts[k]       # shadowed by a local
    consts.update(local)

    class S(ast.NodeTransformer):
        def visit_Name(self, n):
            if isinstance(n.ctx, ast.Load) and n.id in consts:
                return ast.copy_location(ast.Constant(value=consts[n.id].value), n)
            return n
    f2 = S().visit(f2)
    f2.body = [st for st in f2.body if not (isinstance(st, ast.Assign) and len(st.targets) == 1 and isinstance(st.targets[0], ast.Name)
                                            and st.targets[0].id in local)] or [ast.Pass()]
    ast.fix_missing_locations(f2)
    return f2


def truth_formula(view, max_paths=3000):
    """the condition under which a predicate function returns a truthy value, as a propositional formula over its tests:
    OR over the (loop-free) paths to its return statements of (tests taken on the path AND truth of what is returned there).
    A returned local is read through to the assignment that last defined it *on that path* (`result = False; if c: result =
    E; return result`), so flag-style, early-return, `return cond` and conditional-expression spellings give one formula."""
    cfg = view.cfg
    disj = []
    for r in cfg.nodes:
        if r.kind != "return":
            continue
        v0 = r.ast.value
        if v0 is None or (isinstance(v0, ast.Constant) and not v0.value):
            continue
        for p in cfg.paths(cfg.entry.id, [r.id], max_visits=1, limit=max_paths):
            conj = []
            for a_, b_ in zip(p, p[1:]):
                n = cfg.nodes[a_]
                if n.kind == "test" and not isinstance(n.ast, ast.While):
                    lab = [l for x, l in cfg.succ[a_] if x == b_]
                    if lab and lab[0] in ("T", "F"):
                        t = n.ast.test
                        try:
                            t = view.sym(t, n)
                        except Exception:
                            pass
                        f = _atom(t)
                        conj.append(f if lab[0] == "T" else ("not", f))
            v, at = v0, r
            if isinstance(v, ast.Name):
                defs = view._def_nodes(v.id)
                last = [i for i in p[:-1] if i in defs]
                # a definition left on an exception edge did not happen
                last = [i for i in last if not all(l == "exc" for x, l in cfg.succ[i] if x == p[p.index(i) + 1])]
                if last:
                    d = cfg.nodes[last[-1]]
                    if isinstance(d.ast, ast.Assign) and len(d.ast.targets) == 1 and isinstance(d.ast.targets[0], ast.Name):
                        v, at = d.ast.value, d
            if isinstance(v, ast.Constant):
                if not v.value:
                    continue
                disj.append(("and", conj))
                continue
            try:
                v = view.sym(v, at)
            except Exception:
                pass
            if isinstance(v, ast.IfExp):
                t = _atom(v.test)
                val = ("or", [("and", [t, _atom(v.body)]), ("and", [("not", t), _atom(v.orelse)])])
            else:
                val = _atom(v)
            disj.append(("and", conj + [val]))
    return ("or", disj)


def quantifier_loops(view):
    """explicit any/all loops (the normal form N8 gives to `x = any(..)`, `return all(..)`, `if any(..): <jump>`):
       for v in ITER: if TEST: <x = CONST; break | return CONST | jump>
    -> [{"node": for-header, "iter": text of ITER by value, "var": v, "test": text of TEST, "sets": CONST or None, "kind": "any"|"all"}]
    kind is "any" when the hit sets/returns True (or jumps), "all" when it sets/returns False (TEST is then the negated element)."""
    out = []
    for h in view.cfg.nodes:
        if h.kind != "for" or not isinstance(h.ast.target, ast.Name) or len(h.ast.body) != 1 or h.ast.orelse:
            continue
        inner = h.ast.body[0]
        if not isinstance(inner, ast.If) or inner.orelse or not inner.body:
            continue
        last = inner.body[-1]
        sets = None
        if isinstance(last, ast.Break) and len(inner.body) == 2 and isinstance(inner.body[0], ast.Assign) and \
                isinstance(inner.body[0].value, ast.Constant) and isinstance(inner.body[0].targets[0], ast.Name):
            sets = inner.body[0].value.value
        elif isinstance(last, ast.Return) and len(inner.body) == 1 and isinstance(last.value, ast.Constant):
            sets = last.value.value
        elif not isinstance(last, (ast.Break, ast.Return, ast.Raise, ast.Continue)):
            continue
        try:
            it = src(view.sym(h.ast.iter, h))
        except Exception:
            it = src(h.ast.iter)
        out.append({"node": h, "iter": it, "var": h.ast.target.id, "test": src(inner.test), "sets": sets,
                    "kind": "all" if sets is False else "any"})
    return out


def formula_unsat(f, g=None):
    """is f (and g) unsatisfiable propositionally?  (f, g formulas as returned by path_condition / truth_formula)"""
    h = ("and", [f, g]) if g is not None else f
    atoms = sorted(_atoms(h, set()))
    if len(atoms) > 16:
        return False
    import itertools
    return not any(_eval(h, env) for env in _assignments(atoms))


def formula_of(text):
    return _atom(ast.parse(text, mode="eval").body)


def loop_continue_condition(view, header, by_value=True):
    """the condition under which a `while` loop goes round once more: OR over the paths from its body back to its header of
    the AND of the header test (true) and the tests taken inside the body"""
    cfg = view.cfg
    t = header.ast.test
    if by_value:
        try:
            t = view.sym(t, header)
        except Exception:
            pass
    head = _atom(t)
    disj = []
    for s0 in [b for b, lab in cfg.succ[header.id] if lab == "T"]:
        if s0 == header.id:
            disj.append(head)
            continue
        for p in cfg.paths(s0, [header.id], max_visits=1, limit=2000):
            conj = [head]
            for a, b in zip(p, p[1:]):
                n = cfg.nodes[a]
                if n.kind == "test" and n.id != header.id:
                    lab = [l for x, l in cfg.succ[a] if x == b]
                    if lab and lab[0] in ("T", "F"):
                        tt = n.ast.test
                        if by_value:
                            try:
                                tt = view.sym(tt, n)
                            except Exception:
                                pass
                        f = _atom(tt)
                        conj.append(f if lab[0] == "T" else ("not", f))
            disj.append(("and", conj))
    return ("or", disj)


def formula_implies_f(f, g):
    atoms = sorted(_atoms(f, set()) | _atoms(g, set()))
    if len(atoms) > 16:
        return False
    import itertools
    for env in _assignments(atoms):
        if _eval(f, env) and not _eval(g, env):
            return False
    return True


def nearest_dominator(view, node, branching=True):
    """the last node (other than `node`) that every path from the function entry to `node` passes through; with branching=True
    the last such node that is a *decision* (a test / loop header / handler head), so that straight-line statements just in front
    of `node` do not hide the guard they share with it"""
    cfg = view.cfg
    cands = [d for d in cfg.nodes if d.id != node.id and node.id in cfg.reachable(d.id) and view.dominated([node], [d])]
    if branching:
        cands = [d for d in cands if d.kind in ("test", "for", "except") or len(cfg.succ.get(d.id, [])) > 1] or cands
    best = None
    for d in cands:
        if all(o.id == d.id or view.dominated([d], [o]) for o in cands):
            best = d
    return best


def local_condition(view, node, by_value=True):
    """path condition of `node` measured from its nearest dominator: the part of the guard that is decided after the last point
    every path has in common (keeps the number of atoms small in long functions)"""
    d = nearest_dominator(view, node)
    start = [d.id] if d is not None else [view.cfg.entry.id]
    return path_condition(view, node, start=start, by_value=by_value)


def possibly_unbound(view):
    """reads of a local that some path from the function entry reaches without any binding of it - counting a binding whose
    right-hand side raised (the path leaves the assignment on an exception edge) as not done.
    -> [(cfg node, name, path)]   (correlated-flag idioms can make a report infeasible: use on functions where that was reviewed)"""
    fn = view.fn
    cfg = view.cfg
    params = {a.arg for a in fn.args.args + fn.args.kwonlyargs + fn.args.posonlyargs}
    if fn.args.vararg:
        params.add(fn.args.vararg.arg)
    if fn.args.kwarg:
        params.add(fn.args.kwarg.arg)
    glob = {n_ for x in ast.walk(fn) if isinstance(x, (ast.Global, ast.Nonlocal)) for n_ in x.names}
    comp_targets = {t.id for x in ast.walk(fn) if isinstance(x, ast.comprehension) for t in ast.walk(x.target) if isinstance(t, ast.Name)}
    plain_stores = set()
    for x in ast.walk(fn):
        if isinstance(x, (ast.ListComp, ast.SetComp, ast.DictComp, ast.GeneratorExp)):
            continue
    def _stores_outside_comprehensions(node, acc):
        for c in ast.iter_child_nodes(node):
            if isinstance(c, (ast.ListComp, ast.SetComp, ast.DictComp, ast.GeneratorExp, ast.Lambda, ast.FunctionDef, ast.ClassDef)):
                continue
            if isinstance(c, ast.Name) and isinstance(c.ctx, ast.Store):
                acc.add(c.id)
            _stores_outside_comprehensions(c, acc)
        return acc
    locs = _stores_outside_comprehensions(fn, set()) - params - glob       # comprehension variables live in their own scope
    locs |= {h.name for h in ast.walk(fn) if isinstance(h, ast.ExceptHandler) and h.name}
    out = []
    for name in sorted(locs):
        defs = view._def_nodes(name)
        # a read inside a comprehension that binds the name itself is a read of the comprehension's variable, not of the local
        own_scope = set()
        for x in ast.walk(fn):
            if isinstance(x, (ast.ListComp, ast.SetComp, ast.DictComp, ast.GeneratorExp)) and any(
                    isinstance(t, ast.Name) and t.id == name for g in x.generators for t in ast.walk(g.target)):
                own_scope |= {id(y) for y in ast.walk(x)} - {id(y) for y in ast.walk(x.generators[0].iter)}
        uses = [n for n in cfg.nodes if any(isinstance(x, ast.Name) and x.id == name and isinstance(x.ctx, ast.Load) and id(x) not in own_scope
                                            for x in cfg.walk_node(n))]
        if not uses:
            continue
        # forward reachability from the entry over edges that do not complete a definition
        seen, todo = set(), [cfg.entry.id]
        while todo:
            a = todo.pop()
            if a in seen:
                continue
            seen.add(a)
            for b, lab in cfg.succ.get(a, []):
                if a in defs and lab != "exc" and not (cfg.nodes[a].kind == "except"):
                    continue            # the definition completed: paths through here are bound
                if a in defs and cfg.nodes[a].kind == "except":
                    continue            # `except X as name` binds on entry to the handler
                todo.append(b)
        for u in uses:
            if u.id in seen and not (u.id in defs and isinstance(u.ast, ast.AugAssign) is False and False):
                # a node that both defines and uses (x = f(x)) still reads first
                if u.id in defs and not any(isinstance(x, ast.Name) and x.id == name and isinstance(x.ctx, ast.Load)
                                            for x in cfg.walk_node(u)):
                    continue
                out.append((u, name))
    return out


def group_condition(view, nodes, by_value=True):
    """the condition under which *one of* `nodes` runs, measured from the last point every path to any of them shares"""
    cfg = view.cfg
    nodes = list(nodes)
    ids = {n.id for n in nodes}
    cands = [d for d in cfg.nodes if d.id not in ids and all(n.id in cfg.reachable(d.id) and view.dominated([n], [d]) for n in nodes)]
    cands = [d for d in cands if d.kind in ("test", "for", "except") or len(cfg.succ.get(d.id, [])) > 1] or cands
    best = None
    for d in cands:
        if all(o.id == d.id or view.dominated([d], [o]) for o in cands):
            best = d
    start = [best.id] if best is not None else [cfg.entry.id]
    return ("or", [path_condition(view, n, start=start, by_value=by_value) for n in nodes])


# ------------------------------------------------------------------ transparent wrappers
def _only_console(st):
    """an expression statement that only talks to the console (tracing)"""
    return isinstance(st, ast.Expr) and (
        (isinstance(st.value, ast.Constant) and isinstance(st.value.value, str)) or
        (isinstance(st.value, ast.Call) and (dotted(st.value.func) or "").startswith("console.")))


def _passes_through(call, fn, skip_first):
    """call hands on exactly fn's parameters, in order (positional or by their own names), *pa/**kwa included"""
    a = fn.args
    pos = [x.arg for x in a.posonlyargs + a.args][1 if skip_first else 0:]
    got = []
    for x in call.args:
        if isinstance(x, ast.Starred):
            got.append("*" + (dotted(x.value) or "?"))
        else:
            got.append(dotted(x) or "?")
    kws = {}
    for k in call.keywords:
        if k.arg is None:
            got.append("**" + (dotted(k.value) or "?"))
        else:
            kws[k.arg] = dotted(k.value) or "?"
    want = list(pos) + (["*" + a.vararg.arg] if a.vararg else []) + [x.arg for x in a.kwonlyargs] + (["**" + a.kwarg.arg] if a.kwarg else [])
    given = got[:]
    for n in pos + [x.arg for x in a.kwonlyargs]:
        if n in kws:
            if kws[n] != n:
                return False
            given.append(n)
    return sorted(given) == sorted(want) and all(k in pos + [x.arg for x in a.kwonlyargs] for k in kws) and \
        [g for g in got if not g.startswith("*")] == pos[:len([g for g in got if not g.startswith("*")])]


def transparent_override(fn):
    """a method that only delegates to super() with its own arguments and returns the result (tracing to the console aside):
    it changes nothing about what the inherited method does"""
    body = [st for st in fn.body if not _only_console(st)]
    if len(body) != 1:
        return False
    st = body[0]
    v = st.value if isinstance(st, (ast.Return, ast.Expr)) else None
    if not isinstance(v, ast.Call) or not isinstance(v.func, ast.Attribute) or v.func.attr != fn.name:
        return False
    r = v.func.value
    if not (isinstance(r, ast.Call) and isinstance(r.func, ast.Name) and r.func.id == "super"):
        return False
    if isinstance(st, ast.Expr) and any(isinstance(x, ast.Return) and x.value is not None for x in ast.walk(fn)):
        return False
    return _passes_through(v, fn, skip_first=True)


def transparent_decorator(repo, module, deco):
    """@deco where deco(func) returns func itself, or a wrapper `def w(*pa, **kwa): <console tracing>; return func(*pa, **kwa)`"""
    name = deco.func if isinstance(deco, ast.Call) else deco
    b = repo.resolve_expr(module, name) if dotted(name) else None
    if b is None or b.kind != "func" or isinstance(deco, ast.Call):
        return False
    d = b.target
    params = [x.arg for x in d.args.args]
    if len(params) != 1:
        return False
    f = params[0]
    inner = [st for st in d.body if isinstance(st, ast.FunctionDef)]
    rest = [st for st in d.body if not isinstance(st, ast.FunctionDef) and not _only_console(st)]
    if len(rest) != 1 or not isinstance(rest[0], ast.Return):
        return False
    rv = dotted(rest[0].value)
    if rv == f and not inner:
        return True
    if len(inner) != 1 or rv != inner[0].name:
        return False
    w = inner[0]
    for dd in w.decorator_list:
        n = dotted(dd.func if isinstance(dd, ast.Call) else dd) or ""
        if n.split(".")[-1] != "wraps":
            return False
    body = [st for st in w.body if not _only_console(st)]
    if len(body) == 2 and isinstance(body[0], ast.Assign) and len(body[0].targets) == 1 and isinstance(body[0].targets[0], ast.Name) and \
            isinstance(body[1], ast.Return) and dotted(body[1].value) == body[0].targets[0].id and isinstance(body[0].value, ast.Call):
        # result = func(*pa, **kwa); <tracing>; return result
        if any(isinstance(x, ast.Name) and x.id == body[0].targets[0].id and isinstance(x.ctx, ast.Store) for st in w.body[w.body.index(body[0]) + 1:]
               for x in ast.walk(st)):
            return False
        call = body[0].value
    elif len(body) == 1 and isinstance(body[0], ast.Return) and isinstance(body[0].value, ast.Call):
        call = body[0].value
    else:
        return False
    if dotted(call.func) != f:
        return False
    return _passes_through(call, w, skip_first=False)
