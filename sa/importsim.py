"""Static simulation of Python's import machinery over the repo's module-level code.

Executes, *symbolically on the syntax tree only*, what `import <module>` does in a fresh
interpreter: parent packages first, module-level statements in order, recursive imports with
partially-initialised modules, `from X import n` semantics (attribute, then submodule), the
importlib.import_module loops of the package __init__ files, try/except ImportError fallbacks,
and the stdlib's own must-load import closure (read from the stdlib *source*).  At every
import-time expression (class bases, decorators, defaults, module-level calls and
assignments) every Name must be bound *by then* and every `module.attr` chain must be bound in
that module *by then* (a submodule only becomes an attribute of its package when its import
has finished).
"""
import ast
import sys

from .model import BUILTINS, call_name, const_str, dotted, src, walk_no_nested

FuncT = (ast.FunctionDef, ast.AsyncFunctionDef)


_STD_TREES = {}


class ImportProblem:
    def __init__(self, module, node, kind, construct, why, chain):
        self.module, self.node, self.kind = module, node, kind
        self.construct, self.why, self.chain = construct, why, list(chain)


class Sim:
    def __init__(self, repo):
        self.repo = repo
        self.state = {}        # modname -> 'running' | 'done' | 'failed'
        self.bound = {}        # modname -> {name: value}  value: ('mod', name)|('x',)
        self.std_loaded = set()
        self.std_attr_bound = {}   # stdlib pkg -> submodule names bound as attributes
        self.problems = []
        self.stack = []
        self.order = []
        self.checked_exprs = 0
        self.import_stmts = 0
        self._std_seen = set()

    def clone(self):
        s = Sim(self.repo)
        s.state = dict(self.state)
        s.bound = {k: dict(v) for k, v in self.bound.items()}
        s.std_loaded = set(self.std_loaded)
        s.std_attr_bound = {k: set(v) for k, v in self.std_attr_bound.items()}
        s._std_seen = set(self._std_seen)
        return s

    # ------------------------------------------------------------------ stdlib
    def load_std(self, name):
        """mark stdlib module (and parents) loaded, following its must-execute imports"""
        parts = name.split(".")
        for i in range(1, len(parts) + 1):
            self._load_std_one(".".join(parts[:i]))
        for i in range(1, len(parts)):
            self.std_attr_bound.setdefault(".".join(parts[:i]), set()).add(parts[i])

    def _load_std_one(self, name):
        if name in self._std_seen:
            return
        self._std_seen.add(name)
        self.std_loaded.add(name)
        path, is_pkg = self.repo.stdlib._find(name)
        if not path:
            return
        tree = _STD_TREES.get(path)
        if tree is None:
            try:
                tree = ast.parse(open(path, encoding="utf8", errors="replace").read())
            except SyntaxError:
                return
            _STD_TREES[path] = tree
        pkg = name if is_pkg else name.rpartition(".")[0]
        self._std_body(tree.body, name, pkg)

    def _std_body(self, body, name, pkg):
        for st in body:
            if isinstance(st, ast.Import):
                for a in st.names:
                    if self.repo.stdlib.is_known_toplevel(a.name):
                        self.load_std(a.name)
            elif isinstance(st, ast.ImportFrom):
                if st.level:
                    base = pkg.split(".")
                    if st.level > 1:
                        base = base[: len(base) - (st.level - 1)]
                    tgt = ".".join(base + (st.module.split(".") if st.module else []))
                else:
                    tgt = st.module
                if not tgt or not self.repo.stdlib.is_known_toplevel(tgt):
                    continue
                self.load_std(tgt)
                for a in st.names:
                    sub = tgt + "." + a.name
                    if not self.repo.stdlib.binds(tgt, a.name) and self.repo.stdlib._find(sub)[0]:
                        self.load_std(sub)
            elif isinstance(st, ast.Try):
                self._std_body(st.body, name, pkg)   # normal case: body succeeds
                self._std_body(st.orelse, name, pkg)
                self._std_body(st.finalbody, name, pkg)
            elif isinstance(st, ast.If):
                v = _static_truth(st.test)
                if v is True:
                    self._std_body(st.body, name, pkg)
                elif v is False:
                    self._std_body(st.orelse, name, pkg)
                # undecidable test: neither branch counts as must-load
            elif isinstance(st, ast.With):
                self._std_body(st.body, name, pkg)

    # ------------------------------------------------------------------- repo
    def problem(self, node, kind, construct, why):
        m = self.stack[-1] if self.stack else None
        self.problems.append(ImportProblem(m, node, kind, construct, why,
                                           [x.name for x in self.stack]))

    def import_repo(self, name, node=None):
        """import a repo module by absolute name (parents first).  returns True if the module
        object exists afterwards (done or running)"""
        parts = name.split(".")
        for i in range(1, len(parts) + 1):
            n = ".".join(parts[:i])
            if not self._import_one(n, node):
                return False
            if i > 1 and self.state.get(n) == "done":
                self.bound[".".join(parts[:i - 1])][parts[i - 1]] = ("mod", n)
        return True

    def _import_one(self, n, node):
        st = self.state.get(n)
        if st in ("done", "running"):
            return True
        if st == "failed":
            return False
        m = self.repo.modules.get(n)
        if m is None:
            self.problem(node, "D2-module", n, "no module named %s: ModuleNotFoundError" % n)
            self.state[n] = "failed"
            return False
        self.state[n] = "running"
        self.bound[n] = {"__name__": ("x",), "__file__": ("x",), "__doc__": ("x",),
                         "__package__": ("x",), "__path__": ("x",), "__spec__": ("x",)}
        self.stack.append(m)
        nprob = len(self.problems)
        self.exec_body(m.tree.body, m, self.bound[n])
        self.stack.pop()
        fatal = [p for p in self.problems[nprob:] if p.kind != "note"]
        self.state[n] = "done"
        self.order.append(n)
        return True

    def exec_body(self, body, m, env, cls_env=None):
        for st in body:
            self.exec_stmt(st, m, env, cls_env)

    def _bind(self, env, cls_env, name, val=("x",)):
        (cls_env if cls_env is not None else env)[name] = val

    def exec_stmt(self, st, m, env, cls_env=None):
        if isinstance(st, ast.Import):
            self.import_stmts += 1
            for a in st.names:
                if self.repo.is_repo_modname(a.name):
                    ok = self.import_repo(a.name, st)
                    if a.asname:
                        self._bind(env, cls_env, a.asname, ("mod", a.name))
                    else:
                        self._bind(env, cls_env, a.name.split(".")[0], ("mod", a.name.split(".")[0]))
                else:
                    if self.repo.stdlib.is_known_toplevel(a.name):
                        if not self.repo.stdlib.is_module(a.name):
                            self.problem(st, "D2-module", a.name, "no stdlib module named %s: "
                                         "ModuleNotFoundError" % a.name)
                        self.load_std(a.name)
                    else:
                        self.problem(st, "D2-thirdparty", a.name, "third-party/absent module %s "
                                     "imported unguarded" % a.name)
                    if a.asname:
                        self._bind(env, cls_env, a.asname, ("std", a.name))
                    else:
                        top = a.name.split(".")[0]
                        self._bind(env, cls_env, top, ("std", top))
            return
        if isinstance(st, ast.ImportFrom):
            if st.module == "__future__":
                return
            self.import_stmts += 1
            tgt = m._abs_from(st)
            if self.repo.is_repo_modname(tgt):
                if not self.import_repo(tgt, st):
                    for a in st.names:
                        self._bind(env, cls_env, a.asname or a.name)
                    return
                tb = self.bound.get(tgt, {})
                for a in st.names:
                    if a.name == "*":
                        allv = _literal_all(self.repo.modules[tgt])
                        for k, v in list(tb.items()):
                            if (allv is not None and k in allv) or (allv is None and not k.startswith("_")):
                                self._bind(env, cls_env, k, v)
                        if self.state.get(tgt) == "running":
                            self.problem(st, "note", "from %s import *" % tgt,
                                         "star import from partially initialised module")
                        continue
                    if a.name in tb:
                        self._bind(env, cls_env, a.asname or a.name, tb[a.name])
                        continue
                    sub = tgt + "." + a.name
                    if sub in self.repo.modules:
                        self.import_repo(sub, st)
                        self._bind(env, cls_env, a.asname or a.name, ("mod", sub))
                        continue
                    if self.state.get(tgt) == "running":
                        self.problem(st, "D2-circular", "from %s import %s" % (tgt, a.name),
                                     "cannot import name %r from partially initialised module %s "
                                     "(circular import; import chain %s): ImportError"
                                     % (a.name, tgt, " -> ".join(x.name for x in self.stack)))
                    else:
                        self.problem(st, "D2-name", "from %s import %s" % (tgt, a.name),
                                     "cannot import name %r from %s: ImportError" % (a.name, tgt))
                    self._bind(env, cls_env, a.asname or a.name)
            else:
                known = self.repo.stdlib.is_known_toplevel(tgt)
                if known:
                    if not self.repo.stdlib.is_module(tgt):
                        self.problem(st, "D2-module", tgt, "no stdlib module named %s" % tgt)
                    self.load_std(tgt)
                else:
                    self.problem(st, "D2-thirdparty", tgt, "third-party/absent module %s imported "
                                 "unguarded: ModuleNotFoundError" % tgt)
                for a in st.names:
                    if a.name == "*":
                        for k in self.repo.stdlib.star(tgt):
                            self._bind(env, cls_env, k, ("stdattr", tgt + "." + k))
                        continue
                    if known:
                        has = self.repo.stdlib.has_name(tgt, a.name)
                        sub = tgt + "." + a.name
                        if has is False:
                            self.problem(st, "D2-name", "from %s import %s" % (tgt, a.name),
                                         "cannot import name %r from %s (python %d.%d): ImportError"
                                         % (a.name, tgt, sys.version_info[0], sys.version_info[1]))
                        elif not self.repo.stdlib.binds(tgt, a.name) and self.repo.stdlib._find(sub)[0]:
                            self.load_std(sub)
                            self._bind(env, cls_env, a.asname or a.name, ("std", sub))
                            continue
                    self._bind(env, cls_env, a.asname or a.name, ("stdattr", tgt + "." + a.name))
            return
        if isinstance(st, ast.ClassDef):
            for e in st.decorator_list + st.bases + [k.value for k in st.keywords]:
                self.check_expr(e, m, env, cls_env)
            cenv = {}
            self.exec_body(st.body, m, env, cenv)
            self._bind(env, cls_env, st.name)
            return
        if isinstance(st, FuncT):
            for e in st.decorator_list + st.args.defaults + [d for d in st.args.kw_defaults if d]:
                self.check_expr(e, m, env, cls_env)
            self._bind(env, cls_env, st.name)
            return
        if isinstance(st, (ast.Assign, ast.AnnAssign, ast.AugAssign)):
            if st.value is not None:
                self.check_expr(st.value, m, env, cls_env)
            val = ("x",)
            if isinstance(st, ast.Assign) and isinstance(st.value, ast.Name):
                val = (cls_env or {}).get(st.value.id) or env.get(st.value.id) or ("x",)
            targets = st.targets if isinstance(st, ast.Assign) else [st.target]
            for t in targets:
                for n in ast.walk(t):
                    if isinstance(n, ast.Name) and isinstance(n.ctx, ast.Store):
                        self._bind(env, cls_env, n.id, val)
                    elif isinstance(n, ast.Name):
                        self.check_expr(n, m, env, cls_env)
            return
        if isinstance(st, ast.Expr):
            self.check_expr(st.value, m, env, cls_env)
            return
        if isinstance(st, ast.If):
            self.check_expr(st.test, m, env, cls_env)
            v = _static_truth(st.test)
            if v is True:
                self.exec_body(st.body, m, env, cls_env)
            elif v is False:
                self.exec_body(st.orelse, m, env, cls_env)
            else:
                self.exec_body(st.body, m, env, cls_env)
                self.exec_body(st.orelse, m, env, cls_env)
            return
        if isinstance(st, ast.For):
            self.check_expr(st.iter, m, env, cls_env)
            for n in ast.walk(st.target):
                if isinstance(n, ast.Name):
                    self._bind(env, cls_env, n.id)
            done = False
            m.ns  # (building the namespace records the importlib loops)
            for s, full in getattr(m, "dynamic_imports", []):
                if s is st:
                    done = True
                    self.import_stmts += 1
                    self.import_repo(full, st)
            if not done:
                self.exec_body(st.body, m, env, cls_env)
            self.exec_body(st.orelse, m, env, cls_env)
            return
        if isinstance(st, ast.While):
            self.check_expr(st.test, m, env, cls_env)
            self.exec_body(st.body, m, env, cls_env)
            return
        if isinstance(st, ast.With):
            for it in st.items:
                self.check_expr(it.context_expr, m, env, cls_env)
                if it.optional_vars is not None:
                    for n in ast.walk(it.optional_vars):
                        if isinstance(n, ast.Name):
                            self._bind(env, cls_env, n.id)
            self.exec_body(st.body, m, env, cls_env)
            return
        if isinstance(st, ast.Try):
            catches = set()
            for h in st.handlers:
                if h.type is None:
                    catches.add("*")
                else:
                    for n in ast.walk(h.type):
                        if isinstance(n, ast.Name):
                            catches.add(n.id)
            n0 = len(self.problems)
            self.exec_body(st.body, m, env, cls_env)
            new = self.problems[n0:]
            caught = []
            for p in new:
                if p.kind == "note":
                    continue
                kinds = {"D2-module": ("ImportError", "ModuleNotFoundError"),
                         "D2-thirdparty": ("ImportError", "ModuleNotFoundError"),
                         "D2-name": ("ImportError",), "D2-circular": ("ImportError",),
                         "D2-attr": ("AttributeError",), "D1": ("NameError",)}[p.kind]
                if "*" in catches or "Exception" in catches or "BaseException" in catches \
                        or any(k in catches for k in kinds):
                    caught.append(p)
            if caught:
                for p in caught:
                    self.problems.remove(p)
                for h in st.handlers:
                    if h.name:
                        self._bind(env, cls_env, h.name)
                    self.exec_body(h.body, m, env, cls_env)
            else:
                self.exec_body(st.orelse, m, env, cls_env)
            self.exec_body(st.finalbody, m, env, cls_env)
            return
        if isinstance(st, (ast.Delete, ast.Pass, ast.Global, ast.Assert, ast.Raise)):
            return

    # ---------------------------------------------------------------- expressions
    def check_expr(self, e, m, env, cls_env=None, depth=0):
        """every Name load / module attribute chain evaluated at import time must be bound now"""
        self.checked_exprs += 1
        comp_bound = set()
        for n in ast.walk(e):
            if isinstance(n, (ast.ListComp, ast.SetComp, ast.DictComp, ast.GeneratorExp)):
                for g in n.generators:
                    for t in ast.walk(g.target):
                        if isinstance(t, ast.Name):
                            comp_bound.add(t.id)
        skip = set()
        for n in ast.walk(e):
            if isinstance(n, ast.Lambda):
                for x in ast.walk(n.body):
                    skip.add(id(x))
        handled_attr = set()
        for n in ast.walk(e):
            if id(n) in skip:
                continue
            if isinstance(n, ast.Attribute) and id(n) not in handled_attr:
                # outermost attribute chains rooted at a name
                d = dotted(n)
                if d:
                    x = n
                    while isinstance(x, ast.Attribute):
                        handled_attr.add(id(x))
                        x = x.value
                    handled_attr.add(id(x))
                    self._check_chain(d.split("."), n, m, env, cls_env, comp_bound)
                    continue
            if isinstance(n, ast.Name) and isinstance(n.ctx, ast.Load) and id(n) not in handled_attr:
                self._lookup(n.id, n, m, env, cls_env, comp_bound)
        # import-time calls of repo functions: their bodies run now
        if depth < 2:
            for n in ast.walk(e):
                if id(n) in skip or not isinstance(n, ast.Call):
                    continue
                self._check_call(n, m, env, cls_env, depth)

    def _lookup(self, name, node, m, env, cls_env, comp_bound=()):
        if cls_env is not None and name in cls_env:
            return cls_env[name]
        if name in env:
            return env[name]
        if name in comp_bound or name in BUILTINS:
            return ("x",)
        self.problem(node, "D1", name, "name %r is not bound yet when this module-level "
                     "expression is evaluated during import of %s: NameError" % (name, m.name))
        return None

    def _check_chain(self, parts, node, m, env, cls_env, comp_bound):
        v = self._lookup(parts[0], node, m, env, cls_env, comp_bound)
        if v is None:
            return
        cur = v
        for i, attr in enumerate(parts[1:], 1):
            if cur[0] == "mod":
                mod = cur[1]
                b = self.bound.get(mod)
                if b is None:
                    return
                if attr in b:
                    cur = b[attr]
                    continue
                stt = self.state.get(mod)
                self.problem(node, "D2-attr", ".".join(parts[:i + 1]),
                             "module %s has no attribute %r at this point of the import sequence%s: "
                             "AttributeError" % (mod, attr, " (it is still partially initialised; "
                                                 "chain %s)" % " -> ".join(x.name for x in self.stack)
                                                 if stt == "running" else ""))
                return
            if cur[0] == "std":
                mod = cur[1]
                info = self.repo.stdlib.info(mod)
                if not info["exists"]:
                    return
                if info["names"] is not None and attr in info["names"]:
                    cur = ("stdattr", mod + "." + attr)
                    sub = mod + "." + attr
                    if self.repo.stdlib._find(sub)[0] and sub in self.std_loaded:
                        cur = ("std", sub)
                    continue
                sub = mod + "." + attr
                if self.repo.stdlib._find(sub)[0]:
                    if attr in self.std_attr_bound.get(mod, ()):
                        cur = ("std", sub)
                        continue
                    self.problem(node, "D2-attr", ".".join(parts[:i + 1]),
                                 "%s is a submodule that package %s does not import itself and that "
                                 "nothing imported so far in this interpreter has loaded: "
                                 "AttributeError: module %r has no attribute %r"
                                 % (sub, mod, mod, attr))
                    return
                if info["names"] is None or info["open"]:
                    return
                self.problem(node, "D2-attr", ".".join(parts[:i + 1]),
                             "stdlib module %s (python %d.%d) defines no %r: AttributeError"
                             % (mod, sys.version_info[0], sys.version_info[1], attr))
                return
            return

    def _check_call(self, call, m, env, cls_env, depth):
        f = call.func
        tm, fn = None, None
        if isinstance(f, ast.Name):
            b = m.ns.get(f.id)
            if b is not None and b.kind == "func" and f.id in env:
                tm, fn = b.module, b.target
        elif isinstance(f, ast.Attribute) and isinstance(f.value, ast.Name):
            v = env.get(f.value.id)
            if v and v[0] == "mod" and v[1] in self.repo.modules:
                mod = self.repo.modules[v[1]]
                b = mod.ns.get(f.attr)
                if b is not None and b.kind == "func" and f.attr in self.bound.get(v[1], {}):
                    tm, fn = b.module, b.target
        if fn is None or tm is None:
            return
        fenv = self.bound.get(tm.name)
        if fenv is None:
            return
        from .callgraph import _locals_of
        locs = _locals_of(fn)
        for n in walk_no_nested(fn):
            if isinstance(n, ast.Name) and isinstance(n.ctx, ast.Load):
                if n.id in locs or n.id in BUILTINS or n.id in fenv:
                    continue
                if n.id in tm.ns and self.state.get(tm.name) == "running":
                    self.problem(call, "D1", "%s -> %s" % (src(call)[:60], n.id),
                                 "import-time call runs %s.%s which reads global %r before "
                                 "module %s has bound it (partially initialised): NameError"
                                 % (tm.name, fn.name, n.id, tm.name))


def _literal_all(module):
    for st in module.tree.body:
        if isinstance(st, ast.Assign) and any(isinstance(t, ast.Name) and t.id == "__all__"
                                              for t in st.targets):
            if isinstance(st.value, (ast.List, ast.Tuple)):
                v = [const_str(e) for e in st.value.elts]
                if None not in v:
                    return set(v)
    return None


def _static_truth(test):
    """decide interpreter-constant tests (python version / platform / __name__) for the repo
    interpreter this analysis runs under; None if not decidable"""
    s = src(test)
    if isinstance(test, ast.Compare) and len(test.ops) == 1:
        l, r = src(test.left), test.comparators[0]
        try:
            rv = ast.literal_eval(r)
        except Exception:
            return None
        lv = {"sys.version": sys.version, "sys.version_info": tuple(sys.version_info),
              "sys.version_info[0]": sys.version_info[0], "sys.version_info[:2]": tuple(sys.version_info[:2]),
              "sys.version_info.major": sys.version_info[0],
              "sys.platform": sys.platform, "__name__": "<imported>", "os.name": "posix",
              "sys.maxsize": sys.maxsize}.get(l)
        if lv is None:
            return None
        op = test.ops[0]
        try:
            if isinstance(op, ast.Gt):
                return lv > rv
            if isinstance(op, ast.GtE):
                return lv >= rv
            if isinstance(op, ast.Lt):
                return lv < rv
            if isinstance(op, ast.LtE):
                return lv <= rv
            if isinstance(op, ast.Eq):
                return lv == rv
            if isinstance(op, ast.NotEq):
                return lv != rv
            if isinstance(op, ast.In):
                return lv in rv
            if isinstance(op, ast.NotIn):
                return lv not in rv
        except TypeError:
            return None
    if isinstance(test, ast.Call) and s.startswith("sys.platform.startswith("):
        try:
            return sys.platform.startswith(ast.literal_eval(test.args[0]))
        except Exception:
            return None
    if isinstance(test, ast.Constant):
        return bool(test.value)
    if isinstance(test, ast.Name) and test.id == "TYPE_CHECKING":
        return False
    return None
