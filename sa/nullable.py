"""D7 nullable dereference: `v = m.get(k)` (no default) / `v = getattr(o, n, None)` yields None when the key is absent.
A use that dereferences v (v.attr, v[...], v(...), iteration, `in v`) must be guarded by a truthiness / None test on v on every
path from the assignment: `if v:`, `if v is not None:`, `v and v.x`, `if not v: return|raise|continue|break`."""
import ast

from .model import call_name, dotted, src, parent
from .rules import FuncView


def _nullable_value(v):
    if isinstance(v, ast.Call) and isinstance(v.func, ast.Attribute) and v.func.attr == "get" and len(v.args) == 1 and not v.keywords:
        return "%s returns None when the key is absent" % src(v)
    if isinstance(v, ast.Call) and call_name(v) == "getattr" and len(v.args) == 3 and isinstance(v.args[2], ast.Constant) and v.args[2].value is None:
        return "%s is None when the attribute is missing" % src(v)
    return None


def _test_polarity(test, name):
    """'T' if the true edge of test implies name is truthy/not None, 'F' if the false edge does, else None"""
    t = test
    if isinstance(t, ast.Name) and t.id == name:
        return "T"
    if isinstance(t, ast.UnaryOp) and isinstance(t.op, ast.Not) and isinstance(t.operand, ast.Name) and t.operand.id == name:
        return "F"
    if isinstance(t, ast.Compare) and isinstance(t.left, ast.Name) and t.left.id == name and len(t.ops) == 1 and \
            isinstance(t.comparators[0], ast.Constant) and t.comparators[0].value is None:
        if isinstance(t.ops[0], (ast.IsNot, ast.NotEq)):
            return "T"
        if isinstance(t.ops[0], (ast.Is, ast.Eq)):
            return "F"
    if isinstance(t, ast.BoolOp) and isinstance(t.op, ast.And):
        if any(_test_polarity(v, name) == "T" for v in t.values):
            return "T"
    if isinstance(t, ast.BoolOp) and isinstance(t.op, ast.Or):
        if any(_test_polarity(v, name) == "F" for v in t.values):
            return "F"
    return None


def _guarded_inline(use, name, stop):
    """use sits in `name and <use>` / `<use> if name else ..` inside the same statement"""
    child, p = use, parent(use)
    while p is not None and p is not stop:
        if isinstance(p, ast.BoolOp) and isinstance(p.op, ast.And):
            idx = next((i for i, v in enumerate(p.values) if v is child), None)
            if idx is not None and any(_test_polarity(v, name) == "T" for v in p.values[:idx]):
                return True
        if isinstance(p, ast.BoolOp) and isinstance(p.op, ast.Or):
            idx = next((i for i, v in enumerate(p.values) if v is child), None)
            if idx is not None and any(_test_polarity(v, name) == "F" for v in p.values[:idx]):
                return True
        if isinstance(p, ast.IfExp):
            pol = _test_polarity(p.test, name)
            if (pol == "T" and child is p.body) or (pol == "F" and child is p.orelse):
                return True
        child, p = p, parent(p)
    return False


def check(ctx, rule, funcs, floor_name=None):
    """returns number of nullable assignments examined"""
    n = 0
    for f in funcs:
        assigns = [a for a in ast.walk(f) if isinstance(a, ast.Assign) and len(a.targets) == 1 and isinstance(a.targets[0], ast.Name)
                   and _nullable_value(a.value)]
        if not assigns:
            continue
        V = FuncView(ctx, f)
        for a in assigns:
            name = a.targets[0].id
            an = [nd for nd in V.cfg.nodes if nd.ast is a]
            if not an:
                continue
            n += 1
            tests = [(t, _test_polarity(t.ast.test, name)) for t in V.cfg.nodes if t.kind == "test" and hasattr(t.ast, "test")]
            tests = [(t, p) for t, p in tests if p]
            for nd in V.cfg.nodes:
                for x in V.cfg.walk_node(nd):
                    deref = None
                    if isinstance(x, ast.Attribute) and isinstance(x.value, ast.Name) and x.value.id == name and isinstance(x.ctx, ast.Load):
                        deref = x
                    elif isinstance(x, ast.Subscript) and isinstance(x.value, ast.Name) and x.value.id == name:
                        deref = x
                    elif isinstance(x, ast.Call) and isinstance(x.func, ast.Name) and x.func.id == name:
                        deref = x
                    elif isinstance(x, ast.Compare) and any(isinstance(o, (ast.In, ast.NotIn)) for o in x.ops) and \
                            any(isinstance(c, ast.Name) and c.id == name for c in x.comparators):
                        deref = x
                    if deref is None:
                        continue
                    defs, entry = V.reaching_defs(nd, name)
                    if an[0].id not in defs:
                        continue
                    if _guarded_inline(deref, name, nd.ast):
                        continue
                    ok = False
                    for t, pol in tests:
                        if t.id == nd.id:
                            continue
                        # the guard must lie between the assignment and the use: use dominated by the guard edge
                        if V.dominated_by_edge([nd], t, pol):
                            tdefs, _ = V.reaching_defs(t, name)
                            if an[0].id in tdefs:
                                ok = True
                                break
                    ctx.check(ok, rule, deref, "%s: %s after %s" % (V.qual.split(":")[1], src(deref)[:60], src(a)[:70]),
                              "%s, and %s dereferences it on a path with no check: AttributeError/TypeError instead of handling the missing value"
                              % (_nullable_value(a.value), src(deref)[:40]))
    return n
