"""Driver:  python -m sa.check <PROPERTY> [--tier quick|thorough] [--replay path]

exit 0  property's claimed clauses hold on /repo's current source (known findings printed)
exit 1  at least one violation not listed in known_findings.json (VIOLATION line each)
exit 2  ANALYSIS-ERROR (vanished anchor, instance floor, surviving self-test mutant, crash)
"""
import argparse
import importlib
import json
import os
import sys
import time
import traceback
import warnings

warnings.simplefilter("ignore", SyntaxWarning)

from . import model  # noqa: E402
from .model import AnchorError, Repo  # noqa: E402

VERIF = os.path.dirname(os.path.dirname(os.path.abspath(__file__)))
EVID = os.path.join(VERIF, "evidence")
KNOWN = os.path.join(VERIF, "known_findings.json")


def norm(text):
    return " ".join(str(text).split())


class Violation:
    def __init__(self, prop, rule, func, construct, why, site=""):
        self.prop, self.rule, self.func = prop, rule, func
        self.construct, self.why, self.site = norm(construct), why, site

    def key(self):
        return (self.prop, self.rule, self.func, self.construct)

    def as_dict(self):
        return {"property": self.prop, "rule": self.rule, "function": self.func,
                "construct": self.construct, "why": self.why, "site": self.site}


class Ctx:
    """what a property module sees"""

    def __init__(self, prop, repo, tier="quick", seed=0):
        self.prop = prop
        self.repo = repo
        self.tier = tier
        self.seed = seed
        self.violations = []
        self.obligations = []   # (rule, site, detail) discharged
        self.samples = []
        self.evaluations = 0
        self.functions = set()
        self.paths = 0
        self.notes = []
        self.rules_text = []
        self.floors = {}        # rule -> (matched, floor)
        self.extra = {}
        self.consulted = set()
        self._unwrapped_seen = set()
        self._unwrapped_rule = False

    # recording ---------------------------------------------------------------
    def rule(self, rid, text):
        """declare a rule (goes to evidence explanation)"""
        self.rules_text.append("%s: %s" % (rid, text))

    def use(self, node_or_module):
        m = getattr(node_or_module, "_module", node_or_module)
        if hasattr(m, "relpath"):
            self.consulted.add(m.relpath)

    def fn(self, modname, qual):
        f = self.repo.func(modname, qual)
        self.functions.add(self.repo.func_qual(f))
        self.consulted.add(f._module.relpath)
        self.unwrapped(f)
        return f

    def unwrapped(self, f):
        """T0-wrapped: the rules decide what a function's own body does; a decorator that is not one of Python's descriptor
        builders (staticmethod/classmethod/property and its setters) replaces the function by a wrapper that callers get
        instead - caching, converting arguments or results - which no rule on the body sees."""
        if getattr(f, "decorator_list", None) is None or id(f) in self._unwrapped_seen:
            return
        self._unwrapped_seen.add(id(f))
        holder = getattr(f, "_parent", None)
        for st in getattr(holder, "body", []) or []:
            # `f = wrap(f)` after the def is the same thing without the @
            if isinstance(st, model.ast.Assign) and any(isinstance(t, model.ast.Name) and t.id == f.name for t in st.targets) and \
                    getattr(st, "lineno", 0) > getattr(f, "lineno", 0):
                v_ = st.value
                if isinstance(v_, model.ast.Call) and model.dotted(v_.func) in ("staticmethod", "classmethod") and len(v_.args) == 1 and \
                        model.dotted(v_.args[0]) == f.name:
                    continue        # the pre-decorator spelling of @staticmethod / @classmethod
                if not self._unwrapped_rule:
                    self._unwrapped_rule = True
                    self.rule("T0-wrapped", "functions the rules are anchored in carry no decorator other than staticmethod/classmethod/property")
                self.bad("T0-wrapped", st, "%s rebound after its definition: %s" % (f.name, model.src(st)[:60]),
                         "callers get the new binding, not the analysed function")
        for d in f.decorator_list:
            name = model.dotted(d.func if isinstance(d, model.ast.Call) else d) or "?"
            if name in ("staticmethod", "classmethod", "property") or name.split(".")[-1] in ("setter", "getter", "deleter"):
                continue
            try:
                from .rules import transparent_decorator
                if transparent_decorator(self.repo, f._module, d):
                    continue        # the wrapper calls through once with the same arguments and returns the result unchanged
            except Exception:
                pass
            if not self._unwrapped_rule:
                self._unwrapped_rule = True
                self.rule("T0-wrapped", "functions the rules are anchored in carry no decorator other than staticmethod/classmethod/property")
            self.bad("T0-wrapped", f, "@%s on %s" % (name, f.name),
                     "callers no longer get the analysed function but whatever the decorator returns: a memoising or converting wrapper "
                     "changes results (a cache keyed too coarsely hands one input another input's answer; a result converted back to "
                     "the argument's type is truncated) while the body the rules look at is unchanged")

    def cls(self, modname, name):
        c = self.repo.cls(modname, name)
        self.consulted.add(c.module.relpath)
        return c

    def ok(self, rule, node_or_site, detail=""):
        site = node_or_site if isinstance(node_or_site, str) else self.repo.site(node_or_site)
        self.evaluations += 1
        self.obligations.append((rule, site, norm(detail)))
        if len(self.samples) < 12 and (len([s for s in self.samples if s["rule"] == rule]) < 2):
            self.samples.append({"rule": rule, "site": site, "holds": True, "detail": norm(detail)[:300]})

    def bad(self, rule, node, construct, why, func=None):
        self.evaluations += 1
        site = node if isinstance(node, str) else self.repo.site(node)
        if func is None:
            if isinstance(node, str):
                func = node
            else:
                f = node if isinstance(node, (model.ast.FunctionDef,)) else model.enclosing_func(node)
                func = self.repo.func_qual(f) if f is not None else node._module.relpath + ":<module>"
        v = Violation(self.prop, rule, func, construct, why, site)
        if v.key() not in {x.key() for x in self.violations}:
            self.violations.append(v)
        return v

    def check(self, cond, rule, node, construct, why, detail=""):
        if cond:
            self.ok(rule, node, detail or construct)
        else:
            self.bad(rule, node, construct, why)
        return cond

    def floor(self, rule, matched, floor):
        """instance-count floor: fewer matches than hand-confirmed => analysis error"""
        self.floors[rule] = (matched, floor)
        if matched < floor:
            raise AnchorError("rule %s matched %d instance(s), floor is %d (anchor vanished or "
                              "was restructured beyond what the rule recognises)" % (rule, matched, floor))

    def note(self, text):
        self.notes.append(text)


def load_known():
    if not os.path.exists(KNOWN):
        return []
    with open(KNOWN) as f:
        return json.load(f).get("findings", [])


def run_property(prop, tier, seed, repo=None, quiet=False):
    """returns (ctx, module)"""
    repo = repo or Repo()
    if repo.parse_errors:
        raise AnchorError("source does not parse: %s" % repo.parse_errors)
    mod = importlib.import_module("sa.props.%s" % prop.lower())
    ctx = Ctx(prop, repo, tier, seed)
    try:
        mod.check(ctx)
    except AnchorError as ex:
        # a later rule lost its anchor.  Violations already established by earlier rules stand on their own (each is a
        # located construct); they are reported, and the incompleteness is noted.  With nothing established: exit 2 as ever.
        known = {(k["property"], k["rule"], k["function"], norm(k["construct"])) for k in load_known()
                 if k.get("status", "open") == "open"}
        if not [v for v in ctx.violations if v.key() not in known]:
            raise
        ctx.incomplete = str(ex)
        ctx.note("analysis incomplete: %s" % ex)
    return ctx, mod


def main(argv=None):
    ap = argparse.ArgumentParser()
    ap.add_argument("prop")
    ap.add_argument("--tier", default=os.environ.get("VERIF_TIER", "quick"))
    ap.add_argument("--replay", default=None)
    ap.add_argument("--no-evidence", action="store_true")
    a = ap.parse_args(argv)
    prop = a.prop.upper()
    tier = a.tier if a.tier in ("quick", "thorough") else "quick"
    try:
        seed = int(os.environ.get("VERIF_SEED", "0"))
    except ValueError:
        seed = 0
    t0 = time.time()
    try:
        ctx, mod = run_property(prop, tier, seed)
        selftest = None
        if tier == "thorough":
            from . import selftest as st
            selftest = st.run(prop, mod, ctx, seed)
    except AnchorError as ex:
        print("ANALYSIS-ERROR property=%s %s" % (prop, ex))
        return 2
    except Exception:
        print("ANALYSIS-ERROR property=%s internal error in the analysis:" % prop)
        traceback.print_exc(file=sys.stdout)
        return 2

    known = [k for k in load_known() if k.get("property") == prop]
    open_keys = {}
    for k in known:
        if k.get("status", "open") == "open":
            open_keys[(k["property"], k["rule"], k["function"], norm(k["construct"]))] = k
    new, listed = [], []
    for v in ctx.violations:
        (listed if v.key() in open_keys else new).append(v)

    if a.replay:
        try:
            want = json.load(open(a.replay))
            wk = (want["property"], want["rule"], want["function"], norm(want["construct"]))
            hit = [v for v in ctx.violations if v.key() == wk]
            print("REPLAY %s: %s" % (a.replay, "violation reproduced" if hit else "not present on this tree"))
            for v in hit:
                _print_violation(v, a.replay)
            return 1 if hit else 0
        except (OSError, KeyError, ValueError) as ex:
            print("ANALYSIS-ERROR cannot replay %s: %s" % (a.replay, ex))
            return 2

    os.makedirs(EVID, exist_ok=True)
    if not a.no_evidence:
        for fn in os.listdir(EVID):
            if fn.startswith(prop + ".replay"):
                os.remove(os.path.join(EVID, fn))
    for v in listed:
        k = open_keys[v.key()]
        print("KNOWN-FINDING: property=%s %s [%s %s :: %s]" % (
            prop, k.get("what_fails", v.why), v.rule, v.func, v.construct))
    for i, v in enumerate(new):
        rp = os.path.join(EVID, "%s.replay%s.json" % (prop, "" if i == 0 else ".%d" % i))
        d = v.as_dict()
        d["modules"] = ctx.repo.digests(ctx.consulted)
        with open(rp, "w") as f:
            json.dump(d, f, indent=1)
        _print_violation(v, rp)

    wall = time.time() - t0
    if not a.no_evidence:
        write_evidence(ctx, mod, tier, seed, wall, new, listed, selftest)
    if getattr(ctx, "incomplete", None):
        print("ANALYSIS-INCOMPLETE property=%s the rules after this point could not be evaluated: %s" % (prop, ctx.incomplete))
    nob = len(ctx.obligations)
    print("%s tier=%s: %d rule-instance evaluations, %d obligations discharged, %d violation(s) "
          "(%d known), %d function(s), %.2fs" % (prop, tier, ctx.evaluations, nob,
                                                 len(ctx.violations), len(listed),
                                                 len(ctx.functions), wall))
    if selftest is not None:
        print("  self-test: %d/%d mutants reported, %d/%d neutral variants silent" % (
            selftest["killed"], selftest["mutants"], selftest["neutral_ok"], selftest["neutral"]))
        if selftest["survivors"] or selftest["neutral_flagged"]:
            for s in selftest["survivors"]:
                print("ANALYSIS-ERROR property=%s self-test mutant not reported: %s" % (prop, s))
            for s in selftest["neutral_flagged"]:
                print("ANALYSIS-ERROR property=%s behaviour-preserving variant reported: %s" % (prop, s))
            return 2
    return 1 if new else 0


def _print_violation(v, rp):
    print("VIOLATION property=%s replay=%s" % (v.prop, rp))
    print("  rule=%s  site=%s" % (v.rule, v.site))
    print("  construct: %s" % v.construct)
    print("  why: %s" % v.why)


def write_evidence(ctx, mod, tier, seed, wall, new, listed, selftest):
    distinct = len({(r, s) for r, s, _ in ctx.obligations}) + len({v.key() for v in ctx.violations})
    cov = {
        "explanation": (getattr(mod, "EXPLANATION", "") + " Rules: " + " | ".join(ctx.rules_text)).strip(),
        "evaluations": ctx.evaluations,
        "distinct_nontrivial": distinct,
        "rule": "one case = one rule instance evaluated at one located source site (function / call "
                "site / table entry / CFG path query); distinct = distinct (rule, site) pairs; "
                "non-trivial = the anchor was located in today's source and at least one path, "
                "entry or construct was examined",
        "obligations": ctx.evaluations,
        "discharged": len(ctx.obligations),
        "samples": ctx.samples or [{"note": "no rule instance matched"}],
        "functions_analysed": sorted(ctx.functions),
        "cfg_paths_or_queries": ctx.paths,
        "instance_floors": {k: {"matched": v[0], "floor": v[1]} for k, v in ctx.floors.items()},
        "modules": ctx.repo.digests(ctx.consulted),
        "known_findings": [v.as_dict() for v in listed],
        "new_violations": [v.as_dict() for v in new],
        "not_decided": getattr(mod, "NOT_DECIDED", ""),
        "notes": ctx.notes,
        "exhaustive": bool(getattr(mod, "EXHAUSTIVE", False)),
    }
    cov.update(ctx.extra)
    if selftest is not None:
        cov["selftest"] = selftest
    ev = {
        "property_id": ctx.prop,
        "tier": tier,
        "seed": seed,
        "level": "other",
        "coverage": cov,
        "assumptions": list(getattr(mod, "ASSUMPTIONS", [])) + [
            "source is analysed as text with ast (python %d.%d grammar); nothing is imported or run"
            % sys.version_info[:2],
            "dynamic features not modelled (setattr with computed names, registry look-ups by "
            "runtime strings beyond the explicit fan-out tables) silence a rule rather than fire it",
        ],
        "wall_s": round(wall, 3),
        "violations": len(new),
    }
    with open(os.path.join(EVID, "%s.json" % ctx.prop), "w") as f:
        json.dump(ev, f, indent=1, sort_keys=False)


if __name__ == "__main__":
    try:
        rc = main()
    except SystemExit:
        raise
    except Exception:
        print("ANALYSIS-ERROR internal error:")
        traceback.print_exc(file=sys.stdout)
        rc = 2
    sys.exit(rc)
