"""Callee resolution and call-graph closure (source-level, MRO aware)."""
import ast

from .model import (ClassInfo, call_name, dotted, enclosing_class, enclosing_func, walk_no_nested,
                    parent)

FuncT = (ast.FunctionDef, ast.AsyncFunctionDef)


def owner_class(repo, fn):
    """ClassInfo whose body directly contains fn (method), else None"""
    p = parent(fn)
    if isinstance(p, ast.ClassDef):
        m = fn._module
        m.ns
        ci = m.classes.get(p.name)
        if ci is not None and ci.node is p:
            return ci
    return None


def self_name(fn):
    if fn.args.args:
        return fn.args.args[0].arg
    return None


def field_types(repo, ci):
    """light field typing: self.f = Class(...) / self.f = self.factory() with Class(...) returns.
    returns {field: set(ClassInfo)}"""
    cache = repo.__dict__.setdefault("_field_types", {})
    if ci.qual in cache:
        return cache[ci.qual]
    out = {}
    cache[ci.qual] = out
    for c in ci.mro()[0]:
        for m in c.methods.values():
            sn = self_name(m)
            if not sn:
                continue
            for n in walk_no_nested(m):
                if isinstance(n, ast.Assign):
                    # value alternatives: f(), `a if c else f()`, `a or f()`
                    alts = [n.value]
                    if isinstance(n.value, ast.IfExp):
                        alts = [n.value.body, n.value.orelse]
                    elif isinstance(n.value, ast.BoolOp):
                        alts = list(n.value.values)
                    for v in alts:
                        if not isinstance(v, ast.Call):
                            continue
                        for t in n.targets:
                            if isinstance(t, ast.Attribute) and isinstance(t.value, ast.Name) \
                                    and t.value.id == sn:
                                for k in _call_result_classes(repo, v, c, m):
                                    out.setdefault(t.attr, set()).add(k)
    return out


def _call_result_classes(repo, call, ci, fn, depth=0):
    b = repo.resolve_expr(fn._module, call.func) if dotted(call.func) else None
    if b is not None and b.kind == "class":
        return [b.target]
    sn = self_name(fn)
    f = call.func
    if depth < 2 and isinstance(f, ast.Attribute) and isinstance(f.value, ast.Name) and f.value.id == sn:
        out = []
        for recv in [ci] + ci.subclasses(strict=True):
            meth = recv.method(f.attr)
            if meth is None:
                continue
            for r in walk_no_nested(meth):
                if isinstance(r, ast.Return) and isinstance(r.value, ast.Call):
                    out.extend(_call_result_classes(repo, r.value, owner_class(repo, meth) or recv,
                                                    meth, depth + 1))
                elif isinstance(r, ast.Return) and isinstance(r.value, ast.Name):
                    # `x = Class(...); ...; return x`
                    for a in walk_no_nested(meth):
                        if isinstance(a, ast.Assign) and isinstance(a.value, ast.Call) and any(
                                isinstance(t, ast.Name) and t.id == r.value.id for t in a.targets):
                            out.extend(_call_result_classes(repo, a.value, owner_class(repo, meth) or recv,
                                                            meth, depth + 1))
        return out
    return []


def resolve_call(repo, call, fn=None, receivers="all"):
    """list of (FunctionDef, receiver ClassInfo|None, kind) candidates for a Call node.
    kind: 'method' (bound: first param is implicit), 'func', 'ctor' (bound __init__).
    Empty list = unresolved."""
    fn = fn or enclosing_func(call)
    module = call._module
    f = call.func
    out = []
    ci = None
    if fn is not None and isinstance(fn, FuncT):
        # method of a class (possibly nested function inside a method)
        p = fn
        while p is not None and ci is None:
            if isinstance(p, FuncT):
                ci = owner_class(repo, p)
                if ci is not None:
                    meth = p
            p = parent(p)
    sn = self_name(meth) if ci is not None else None

    # super(C, self).m(...) / super().m(...)
    if isinstance(f, ast.Attribute) and isinstance(f.value, ast.Call) and call_name(f.value) == "super":
        if ci is not None:
            start = ci
            if f.value.args:
                c0 = repo.resolve_class_expr(module, f.value.args[0])
                if c0 is not None:
                    start = c0
            # for every concrete subclass the 'next after start' may differ; use start's own MRO
            mro = start.mro()[0]
            for c in mro[1:]:
                if f.attr in c.methods:
                    out.append((c.methods[f.attr], c, "method"))
                    break
        return out

    # self.m(...)
    if isinstance(f, ast.Attribute) and isinstance(f.value, ast.Name) and sn and f.value.id == sn \
            and ci is not None:
        recvs = [ci] + (ci.subclasses(strict=True) if receivers == "all" else [])
        seen = set()
        for r in recvs:
            look = r.lookup(f.attr)
            if look and isinstance(look[1], FuncT) and id(look[1]) not in seen:
                seen.add(id(look[1]))
                kind = "func" if f.attr in look[0].statics else "method"
                out.append((look[1], r, kind))
        return out

    # self.field.m(...)
    if isinstance(f, ast.Attribute) and isinstance(f.value, ast.Attribute) \
            and isinstance(f.value.value, ast.Name) and sn and f.value.value.id == sn and ci is not None:
        seen = set()
        for r in [ci] + ci.subclasses(strict=True):
            for k in field_types(repo, r).get(f.value.attr, ()):
                look = k.lookup(f.attr)
                if look and isinstance(look[1], FuncT) and id(look[1]) not in seen:
                    seen.add(id(look[1]))
                    out.append((look[1], k, "method"))
        if out:
            return out

    d = dotted(f)
    if d is None:
        return out
    # local shadowing: a name bound in the function is not the module-level one
    root = d.split(".")[0]
    if fn is not None and root in _locals_of(fn):
        return out
    # console.profuse(..): `console` is the module-level `console = getConsole()` (an instance of consoling.Console)
    if isinstance(f, ast.Attribute) and isinstance(f.value, ast.Name):
        vb = module.ns.get(f.value.id)
        st = getattr(vb, "node", None) if vb is not None and vb.kind == "var" else None
        if isinstance(st, ast.Assign) and isinstance(st.value, ast.Call) and len(st.targets) == 1 and isinstance(st.targets[0], ast.Name):
            fb = repo.resolve_expr(vb.module or module, st.value.func)
            if fb is not None and fb.kind == "func" and getattr(fb.target, "name", "") in INSTANCE_FACTORIES:
                cm, cn = INSTANCE_FACTORIES[fb.target.name]
                tm = repo.modules.get(cm)
                k = tm.classes.get(cn) if tm is not None else None
                if tm is not None and k is None:
                    tm.ns
                    k = tm.classes.get(cn)
                look = k.lookup(f.attr) if k is not None else None
                if look and isinstance(look[1], FuncT):
                    return [(look[1], k, "func" if f.attr in look[0].statics else "method")]
    b = repo.resolve_expr(module, f)
    if b is None:
        return out
    if b.kind == "func":
        node = b.target
        p = parent(node)
        if isinstance(p, ast.ClassDef):
            # Class.method(...) unbound call: explicit self
            out.append((node, None, "func"))
        else:
            out.append((node, None, "func"))
    elif b.kind == "class":
        look = b.target.lookup("__init__")
        if look and isinstance(look[1], FuncT):
            out.append((look[1], b.target, "ctor"))
    return out


_BUILTIN_METHOD_NAMES = None
# functions that hand out the one instance of a class: name -> (module, class)
INSTANCE_FACTORIES = {"getConsole": ("ioflo.aid.consoling", "Console")}


def resolve_call_loose(repo, call, fn=None):
    """resolve_call, plus unique-name resolution: `x.m(...)` with an untyped receiver resolves to
    the single repo class (non-test) that defines a method m, provided m is not also a method of a
    builtin container/str/file type.  Used for call-graph reachability only (never for D4)."""
    global _BUILTIN_METHOD_NAMES
    out = resolve_call(repo, call, fn)
    if out:
        return out
    f = call.func
    if not isinstance(f, ast.Attribute):
        return out
    if _BUILTIN_METHOD_NAMES is None:
        import collections
        import io
        s = set()
        for t in (list, dict, set, str, bytes, bytearray, tuple, collections.deque, io.IOBase, frozenset, int, float):
            s.update(dir(t))
        _BUILTIN_METHOD_NAMES = s
    if f.attr in _BUILTIN_METHOD_NAMES:
        return out
    idx = repo.__dict__.get("_method_index")
    if idx is None:
        idx = {}
        for c in repo.all_classes():
            for name, m in c.methods.items():
                idx.setdefault(name, []).append((m, c))
        repo.__dict__["_method_index"] = idx
    cands = idx.get(f.attr, [])
    roots = []
    for m, c in cands:
        # overriding definitions in one hierarchy count as one name
        if not any(c is not c2 and c.is_subclass_of(c2) for _, c2 in cands):
            roots.append((m, c))
    if len(roots) == 1:
        return [(m, c, "method") for m, c in cands]
    return out


def _locals_of(fn):
    cache = getattr(fn, "_locals_cache", None)
    if cache is None:
        cache = set()
        if isinstance(fn, FuncT):
            a = fn.args
            for x in a.posonlyargs + a.args + a.kwonlyargs:
                cache.add(x.arg)
            if a.vararg:
                cache.add(a.vararg.arg)
            if a.kwarg:
                cache.add(a.kwarg.arg)
            gl = set()
            for n in walk_no_nested(fn):
                if isinstance(n, ast.Name) and isinstance(n.ctx, (ast.Store, ast.Del)):
                    cache.add(n.id)
                elif isinstance(n, (ast.Import, ast.ImportFrom)):
                    for al in n.names:
                        cache.add((al.asname or al.name).split(".")[0])
                elif isinstance(n, ast.ExceptHandler) and n.name:
                    cache.add(n.name)
                elif isinstance(n, (ast.Global, ast.Nonlocal)):
                    gl.update(n.names)
                elif isinstance(n, FuncT + (ast.ClassDef,)):
                    cache.add(n.name)
            cache -= gl
        fn._locals_cache = cache
    return cache


def calls_in(fn):
    return [n for n in walk_no_nested(fn) if isinstance(n, ast.Call)]


def closure(repo, entries, extra_edges=None, max_depth=None, stop=None, loose=False):
    """call-graph closure: dict func_qual -> FunctionDef, following resolved calls.
    extra_edges(fn) -> iterable of FunctionDef (registry fan-out).  Nested functions of a
    visited function are included (they execute as part of it)."""
    seen = {}
    work = [(e, 0) for e in entries]
    while work:
        fn, d = work.pop()
        q = repo.func_qual(fn)
        if q in seen:
            continue
        seen[q] = fn
        if stop and stop(fn):
            continue
        if max_depth is not None and d >= max_depth:
            continue
        for n in ast.walk(fn):
            if isinstance(n, ast.Call):
                for cal, _, _ in (resolve_call_loose(repo, n) if loose else resolve_call(repo, n)):
                    if repo.func_qual(cal) not in seen:
                        work.append((cal, d + 1))
            elif isinstance(n, ast.Attribute) and isinstance(n.ctx, ast.Load):
                # property access on self
                pass
        if extra_edges:
            for cal in extra_edges(fn):
                if repo.func_qual(cal) not in seen:
                    work.append((cal, d + 1))
    return seen
