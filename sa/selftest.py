"""Thorough tier: validate the analysis itself on in-memory overlays derived from the current
tree (nothing is written to /repo, nothing is executed).

neutral variants  - behaviour-preserving rewrites of every module the property consulted; the
                    verdict (set of violation keys) must not change
mutants           - must-kill edits, each must produce a *new* violation of this property:
                      * /verif/seeded/<id>/patch.diff written by independent sub-agents for this property
                      * /verif/mutants/*.diff: the reverse of every `fix:` commit made in /repo (the defect returns)
                      * per-property MUTANTS (find/replace) lists
                    A mutant whose hunks no longer apply to the current tree is skipped and counted.
Variants are evaluated in a process pool (up to 16 workers).
"""
import ast
import json
import os
import warnings
from concurrent.futures import ProcessPoolExecutor

from .model import Repo, AnchorError
from . import patching


def _reformat(src_text):
    """whole-module round trip through the parser: changes every line number and all layout, drops comments"""
    return ast.unparse(ast.parse(src_text)) + "\n"


class _AddNoise(ast.NodeTransformer):
    """insert a no-op expression statement at the start of every function body"""

    def visit_FunctionDef(self, node):
        self.generic_visit(node)
        noise = ast.Expr(value=ast.Constant(value="selftest no-op"))
        doc = node.body and isinstance(node.body[0], ast.Expr) and isinstance(node.body[0].value, ast.Constant) \
            and isinstance(node.body[0].value.value, str)
        node.body.insert(1 if doc else 0, noise)
        return node


def _noise(src_text):
    t = _AddNoise().visit(ast.parse(src_text))
    ast.fix_missing_locations(t)
    return ast.unparse(t) + "\n"


class _Blank(ast.NodeTransformer):
    pass


def _shift(src_text):
    """prepend blank lines and a comment: every line number moves, text otherwise identical"""
    return "# selftest: shifted\n\n\n" + src_text


NEUTRAL = [("reformat", _reformat), ("noop-statements", _noise), ("line-shift", _shift)]


# --- stronger behaviour-preserving variants (each was validated once against the pinned 123-test suite) ---------------
class _AlphaRenamer(ast.NodeTransformer):
    def __init__(self, names):
        self.names = names

    def visit_Name(self, n):
        if n.id in self.names:
            n.id = self.names[n.id]
        return n

    def visit_ExceptHandler(self, n):
        if n.name in self.names:
            n.name = self.names[n.name]
        self.generic_visit(n)
        return n


def _alpha(src_text):
    """rename every local variable of every function (parameters, globals and imports untouched)"""
    from .normalize import scope_info
    tree = ast.parse(src_text)
    for fn in ast.walk(tree):
        if isinstance(fn, (ast.FunctionDef, ast.AsyncFunctionDef)):
            info = scope_info(fn)
            if not info or not info[1]:
                continue
            _, locs, used = info
            m = {}
            for name in locs:
                new = name + "_q"
                while new in used:
                    new += "q"
                m[name] = new
            r = _AlphaRenamer(m)
            fn.body = [r.visit(st) for st in fn.body]
    return ast.unparse(tree) + "\n"


class _IfFlip(ast.NodeTransformer):
    def visit_If(self, n):
        self.generic_visit(n)
        if n.orelse and not (len(n.orelse) == 1 and isinstance(n.orelse[0], ast.If)):
            t = n.test
            nt = t.operand if isinstance(t, ast.UnaryOp) and isinstance(t.op, ast.Not) else ast.UnaryOp(op=ast.Not(), operand=t)
            return ast.If(test=nt, body=n.orelse, orelse=n.body)
        return n


def _flip(src_text):
    """swap the arms of every if/else (negating the test)"""
    t = _IfFlip().visit(ast.parse(src_text))
    ast.fix_missing_locations(t)
    return ast.unparse(t) + "\n"


class _Membership(ast.NodeTransformer):
    """x == A or x == B  <->  x in (A, B): rewrite each spelling into the other"""

    def visit_BoolOp(self, n):
        self.generic_visit(n)
        if isinstance(n.op, ast.Or) and all(isinstance(v, ast.Compare) and len(v.ops) == 1 and isinstance(v.ops[0], ast.Eq)
                                            and isinstance(v.left, (ast.Name, ast.Attribute)) for v in n.values) \
                and len({ast.dump(v.left) for v in n.values}) == 1:
            return ast.Compare(left=n.values[0].left, ops=[ast.In()],
                               comparators=[ast.Tuple(elts=[v.comparators[0] for v in n.values], ctx=ast.Load())])
        return n

    def visit_Compare(self, n):
        self.generic_visit(n)
        if len(n.ops) == 1 and isinstance(n.ops[0], ast.In) and isinstance(n.comparators[0], ast.Tuple) \
                and 2 <= len(n.comparators[0].elts) <= 3 and isinstance(n.left, (ast.Name, ast.Attribute)) \
                and all(isinstance(e, (ast.Name, ast.Attribute)) and ast.unparse(e).split(".")[-1].isupper() for e in n.comparators[0].elts):
            return ast.BoolOp(op=ast.Or(), values=[ast.Compare(left=n.left, ops=[ast.Eq()], comparators=[e])
                                                   for e in n.comparators[0].elts])
        return n


def _member(src_text):
    t = _Membership().visit(ast.parse(src_text))
    ast.fix_missing_locations(t)
    return ast.unparse(t) + "\n"


NEUTRAL += [("alpha-rename-locals", _alpha), ("flip-if-else", _flip), ("membership-spelling", _member)]


def _job(args):
    prop, seed, overlay = args
    from .check import run_property
    try:
        with warnings.catch_warnings():
            warnings.simplefilter("ignore")
            ctx, _ = run_property(prop, "quick", seed, repo=Repo(overlay=overlay))
        return ("ok", sorted(v.key() for v in ctx.violations))
    except AnchorError as ex:
        return ("anchor", str(ex)[:200])
    except Exception as ex:  # an analysis crash on a variant is a finding about the analysis
        return ("crash", "%s: %s" % (type(ex).__name__, str(ex)[:200]))


def run(prop, mod, base_ctx, seed):
    res = {"mutants": 0, "killed": 0, "skipped": 0, "neutral": 0, "neutral_ok": 0,
           "survivors": [], "neutral_flagged": [], "details": []}
    base = {v.key() for v in base_ctx.violations}
    files = sorted(base_ctx.consulted)
    repo0 = base_ctx.repo
    verif = os.path.dirname(os.path.dirname(os.path.abspath(__file__)))
    jobs = []   # (kind, name, overlay)
    for name, fn in list(NEUTRAL) + list(getattr(mod, "EXTRA_NEUTRAL", [])):
        overlay = {}
        for rel in files:
            m = repo0.by_path.get(rel)
            if m is None:
                continue
            try:
                overlay[rel] = fn(m.source)
            except Exception as ex:
                res["details"].append("neutral %s could not transform %s: %s" % (name, rel, ex))
        jobs.append(("neutral", name, overlay))
    # behaviour-preserving refactors written by independent sub-agents for this property (/verif/neutral/<id>/patch.diff, each
    # validated against the pinned suite and the property's demo): must stay silent.  Those recorded as still flagged
    # (meta flagged_by / analysis_error_in non-empty: heavy multi-step refactors the rules do not see through yet, listed in
    # DESIGN.md) are reported as "expected-flagged" and not counted.
    nd = os.path.join(verif, "neutral")
    if os.path.isdir(nd):
        for d in sorted(os.listdir(nd)):
            mp = os.path.join(nd, d, "meta.json")
            pp = os.path.join(nd, d, "patch.diff")
            if not (os.path.exists(mp) and os.path.exists(pp)):
                continue
            meta = json.load(open(mp))
            if meta.get("property") != prop:
                continue
            if meta.get("flagged_by") or meta.get("analysis_error_in"):
                res["details"].append("neutral refactor %s: known to be flagged (not counted)" % d)
                continue
            overlay = patching.apply(lambda rel: (repo0.by_path[rel].source if rel in repo0.by_path else None), open(pp).read())
            if overlay is None:
                res["details"].append("neutral refactor %s skipped: does not apply to the current tree" % d)
                continue
            jobs.append(("neutral", "refactor:" + d, overlay))
    diffs = []
    sd = os.path.join(verif, "seeded")
    if os.path.isdir(sd):
        for d in sorted(os.listdir(sd)):
            mp = os.path.join(sd, d, "meta.json")
            if not os.path.exists(mp):
                continue
            meta = json.load(open(mp))
            targets = [meta.get("property")] + list(meta.get("also_detected_by", []))
            if prop in targets and prop not in meta.get("not_detected_by", []):
                diffs.append(("seed:" + d, os.path.join(sd, d, "patch.diff"), False))
    ip = os.path.join(verif, "mutants", "index.json")
    if os.path.exists(ip):
        for e in json.load(open(ip)):
            if prop in e.get("properties", []):
                diffs.append((e["id"], os.path.join(verif, e["diff"]), bool(e.get("reverse"))))
    for name, path, reverse in diffs:
        try:
            text = open(path).read()
        except OSError:
            continue
        overlay = patching.apply(lambda rel: (repo0.by_path[rel].source if rel in repo0.by_path else None), text, reverse=reverse)
        ok = overlay is not None
        if ok:
            try:
                for rel, t in overlay.items():
                    ast.parse(t)
            except SyntaxError:
                ok = False
        if not ok:
            res["skipped"] += 1
            res["details"].append("mutant %s skipped: does not apply to the current tree (site changed)" % name)
            continue
        jobs.append(("mutant", name, overlay))
    for mu in getattr(mod, "MUTANTS", []):
        m = repo0.by_path.get(mu["file"])
        if m is None or mu["find"] not in m.source:
            res["skipped"] += 1
            res["details"].append("mutant %s skipped: site text not present on this tree" % mu["name"])
            continue
        text = m.source.replace(mu["find"], mu["replace"], 1)
        try:
            ast.parse(text)
        except SyntaxError:
            res["skipped"] += 1
            continue
        jobs.append(("mutant", mu["name"], {mu["file"]: text}))
    workers = max(1, min(16, len(jobs), (os.cpu_count() or 2)))
    args = [(prop, seed, ov) for _, _, ov in jobs]
    if workers > 1:
        with ProcessPoolExecutor(max_workers=workers) as ex:
            outs = list(ex.map(_job, args))
    else:
        outs = [_job(a) for a in args]
    for (kind, name, _), (status, payload) in zip(jobs, outs):
        if kind == "neutral":
            res["neutral"] += 1
            if status == "ok" and {tuple(k) for k in payload} == base:
                res["neutral_ok"] += 1
            elif status == "ok":
                got = {tuple(k) for k in payload}
                res["neutral_flagged"].append("%s: +%s -%s" % (name, sorted(got - base)[:2], sorted(base - got)[:2]))
            else:
                res["neutral_flagged"].append("%s: %s %s" % (name, status, payload))
        else:
            res["mutants"] += 1
            if status == "ok":
                new = {tuple(k) for k in payload} - base
                if new:
                    res["killed"] += 1
                    res["details"].append("mutant %s reported by %s" % (name, sorted({k[1] for k in new})))
                else:
                    res["survivors"].append("%s (no new violation)" % name)
            elif status == "anchor":
                res["killed"] += 1
                res["details"].append("mutant %s reported as ANALYSIS-ERROR: %s" % (name, payload[:100]))
            else:
                res["survivors"].append("%s (analysis crashed: %s)" % (name, payload))
    return res
