"""Thorough tier: validate the analysis itself on in-memory overlays derived from the current
tree (nothing is written to /repo, nothing is executed).

neutral variants  - behaviour-preserving rewrites of every module the property consulted; the
                    verdict (set of violation keys) must not change
mutants           - per-property must-kill edits (module attribute MUTANTS: list of dicts
                    {name, file, find, replace, expect_rule}); each must produce a new violation.
                    A mutant whose `find` text no longer occurs is skipped and counted.
"""
import ast
import re
import warnings

from .model import Repo, AnchorError


def _reformat(src_text):
    """whole-module round trip through the parser: changes every line number and all layout,
    drops comments"""
    return ast.unparse(ast.parse(src_text)) + "\n"


class _AddNoise(ast.NodeTransformer):
    """insert a no-op statement at the start of every function body and after every simple
    statement of the bodies the property consulted"""

    def _noise(self):
        return ast.parse("console = console if 'console' in globals() else None").body[0] \
            if False else ast.Expr(value=ast.Constant(value="selftest no-op"))

    def visit_FunctionDef(self, node):
        self.generic_visit(node)
        new = []
        doc = node.body and isinstance(node.body[0], ast.Expr) and isinstance(node.body[0].value, ast.Constant) \
            and isinstance(node.body[0].value.value, str)
        for i, st in enumerate(node.body):
            new.append(st)
            if i == 0 and doc:
                new.append(self._noise())
        if not doc:
            new.insert(0, self._noise())
        node.body = new
        return node


def _noise(src_text):
    t = ast.parse(src_text)
    t = _AddNoise().visit(t)
    ast.fix_missing_locations(t)
    return ast.unparse(t) + "\n"


class _RenameLocals(ast.NodeTransformer):
    """alpha-rename function locals that are plain assigned names (not params, not globals,
    not used in nested scopes): x -> x_st"""

    def visit_FunctionDef(self, node):
        self.generic_visit(node)
        params = {a.arg for a in node.args.posonlyargs + node.args.args + node.args.kwonlyargs}
        if node.args.vararg:
            params.add(node.args.vararg.arg)
        if node.args.kwarg:
            params.add(node.args.kwarg.arg)
        nested_names = set()
        declared = set()
        for n in ast.walk(node):
            if n is not node and isinstance(n, (ast.FunctionDef, ast.Lambda, ast.ClassDef, ast.ListComp,
                                                ast.SetComp, ast.DictComp, ast.GeneratorExp)):
                for x in ast.walk(n):
                    if isinstance(x, ast.Name):
                        nested_names.add(x.id)
            if isinstance(n, (ast.Global, ast.Nonlocal)):
                declared.update(n.names)
        stores = {n.id for n in ast.walk(node) if isinstance(n, ast.Name) and isinstance(n.ctx, ast.Store)}
        ren = {x for x in stores - params - nested_names - declared if not x.startswith("_")}
        # keep names the rules key on semantically? no: rules must not depend on local names,
        # except the documented parameter-like locals listed here (unpack targets are matched
        # positionally, not by name)
        for n in ast.walk(node):
            if isinstance(n, ast.Name) and n.id in ren:
                n.id = n.id + "_st"
            elif isinstance(n, ast.ExceptHandler) and n.name in ren:
                n.name = n.name + "_st"
        return node


def _rename(src_text):
    t = ast.parse(src_text)
    t = _RenameLocals().visit(t)
    ast.fix_missing_locations(t)
    return ast.unparse(t) + "\n"


NEUTRAL = [("reformat", _reformat), ("noop-statements", _noise)]


def _keys(ctx):
    return {v.key() for v in ctx.violations}


def run(prop, mod, base_ctx, seed):
    from .check import run_property
    res = {"mutants": 0, "killed": 0, "skipped": 0, "neutral": 0, "neutral_ok": 0,
           "survivors": [], "neutral_flagged": [], "details": []}
    base = _keys(base_ctx)
    files = sorted(base_ctx.consulted)
    repo0 = base_ctx.repo
    transforms = list(NEUTRAL) + list(getattr(mod, "EXTRA_NEUTRAL", []))
    for name, fn in transforms:
        overlay = {}
        for rel in files:
            m = repo0.by_path.get(rel)
            if m is None:
                continue
            try:
                overlay[rel] = fn(m.source)
            except Exception as ex:   # transformation itself failed: not a verdict
                res["details"].append("neutral %s could not transform %s: %s" % (name, rel, ex))
        res["neutral"] += 1
        try:
            with warnings.catch_warnings():
                warnings.simplefilter("ignore")
                ctx, _ = run_property(prop, "quick", seed, repo=Repo(overlay=overlay))
            got = _keys(ctx)
            # constructs are normalised text; layout changes must not change keys
            if got == base:
                res["neutral_ok"] += 1
            else:
                res["neutral_flagged"].append("%s: +%s -%s" % (name, sorted(got - base)[:3], sorted(base - got)[:3]))
        except AnchorError as ex:
            res["neutral_flagged"].append("%s: anchor lost: %s" % (name, ex))
    for mu in getattr(mod, "MUTANTS", []):
        rel = mu["file"]
        m = repo0.by_path.get(rel)
        if m is None or mu["find"] not in m.source:
            res["skipped"] += 1
            res["details"].append("mutant %s skipped: site text not present on this tree" % mu["name"])
            continue
        text = m.source.replace(mu["find"], mu["replace"], 1)
        try:
            ast.parse(text)
        except SyntaxError:
            res["skipped"] += 1
            res["details"].append("mutant %s skipped: does not parse" % mu["name"])
            continue
        res["mutants"] += 1
        try:
            with warnings.catch_warnings():
                warnings.simplefilter("ignore")
                ctx, _ = run_property(prop, "quick", seed, repo=Repo(overlay={rel: text}))
            new = _keys(ctx) - base
            rules = {k[1] for k in new}
            want = mu.get("expect_rule")
            if new and (want is None or any(r.startswith(want) for r in rules)):
                res["killed"] += 1
            else:
                res["survivors"].append("%s (expected %s, got %s)" % (mu["name"], want, sorted(rules)))
        except AnchorError as ex:
            # a mutant that destroys an anchor is detected as analysis-broken, which also fails a run
            res["killed"] += 1
            res["details"].append("mutant %s reported as ANALYSIS-ERROR: %s" % (mu["name"], str(ex)[:100]))
    return res
