"""sa - repository-specific static analysis for ioflo (see /verif/DESIGN.md)."""
