"""Internal-error construct detectors D1..D8 (see DESIGN.md 2.3); always run on an explicit
set of functions (a property's call-graph closure)."""
import ast
import re
import string

from .model import (BUILTINS, call_name, const_str, dotted, enclosing_class, enclosing_func, parent,
                    src, walk_no_nested)
from .callgraph import FuncT, owner_class, resolve_call, self_name, _locals_of

ScopeT = FuncT + (ast.Lambda, ast.ListComp, ast.SetComp, ast.DictComp, ast.GeneratorExp, ast.ClassDef)


class Finding:
    def __init__(self, rule, node, construct, why):
        self.rule, self.node, self.construct, self.why = rule, node, construct, why

    def __repr__(self):
        return "<%s L%s %s>" % (self.rule, getattr(self.node, "lineno", "?"), self.construct)


# --------------------------------------------------------------------------- D1
def _scope_bound(scope):
    """names bound directly in this scope"""
    cache = getattr(scope, "_bound_cache", None)
    if cache is not None:
        return cache
    b = set()
    if isinstance(scope, FuncT):
        b = set(_locals_of(scope))
    elif isinstance(scope, ast.Lambda):
        a = scope.args
        for x in a.posonlyargs + a.args + a.kwonlyargs:
            b.add(x.arg)
        if a.vararg:
            b.add(a.vararg.arg)
        if a.kwarg:
            b.add(a.kwarg.arg)
    elif isinstance(scope, (ast.ListComp, ast.SetComp, ast.DictComp, ast.GeneratorExp)):
        for g in scope.generators:
            for n in ast.walk(g.target):
                if isinstance(n, ast.Name):
                    b.add(n.id)
    elif isinstance(scope, ast.ClassDef):
        for n in walk_no_nested(scope):
            if isinstance(n, ast.Name) and isinstance(n.ctx, ast.Store):
                b.add(n.id)
            elif isinstance(n, FuncT + (ast.ClassDef,)):
                b.add(n.name)
            elif isinstance(n, (ast.Import, ast.ImportFrom)):
                for al in n.names:
                    b.add((al.asname or al.name).split(".")[0])
    # walrus inside comprehensions binds in the enclosing function: handled by ast.walk of
    # the function? no (walk_no_nested skips comps? it does not skip comprehensions) -> fine
    scope._bound_cache = b
    return b


def _evaluated_outside(scope, child):
    if isinstance(scope, FuncT):
        return child in scope.decorator_list or child is scope.args or child is scope.returns
    if isinstance(scope, ast.Lambda):
        return child is scope.args
    if isinstance(scope, ast.ClassDef):
        return child in scope.decorator_list or child in scope.bases or child in scope.keywords
    return False


def _globals_declared(scope):
    out = set()
    if isinstance(scope, FuncT):
        for n in walk_no_nested(scope):
            if isinstance(n, ast.Global):
                out.update(n.names)
    return out


def undefined_names(repo, fn):
    """D1: Name loads inside fn (incl. nested scopes) that resolve nowhere"""
    module = fn._module
    ns = module.ns
    out = []
    for n in ast.walk(fn):
        if not (isinstance(n, ast.Name) and isinstance(n.ctx, ast.Load)):
            continue
        name = n.id
        if name in BUILTINS:
            continue
        # scope chain
        found = False
        first = True
        s = parent(n)
        child = n
        while s is not None:
            if isinstance(s, ScopeT) and _evaluated_outside(s, child):
                pass  # decorators, defaults, annotations, bases: evaluated in the enclosing scope
            elif isinstance(s, ScopeT):
                if isinstance(s, ast.ClassDef) and not first:
                    pass  # class scopes are invisible to nested scopes
                else:
                    if name in _globals_declared(s):
                        break
                    if name in _scope_bound(s):
                        found = True
                        break
                first = False
            child = s
            s = parent(s)
        if found:
            continue
        if name in ns:
            continue
        # names assigned through 'global x' in any function of the module
        if name in _module_global_assigned(module):
            continue
        out.append(Finding("D1", n, name, "name %r is not defined in any enclosing scope, the "
                           "module namespace (star imports expanded) or builtins: NameError when "
                           "this expression is evaluated" % name))
    return out


def _module_global_assigned(module):
    c = getattr(module, "_glob_assigned", None)
    if c is None:
        c = set()
        for f in ast.walk(module.tree):
            if isinstance(f, ast.Global):
                c.update(f.names)
        module._glob_assigned = c
    return c


def use_before_binding(repo, fn, cfg):
    """D1b: a local (non-parameter) name loaded at a CFG node that no binding of it can
    reach (certain UnboundLocalError whenever that node executes)."""
    out = []
    params = set()
    a = fn.args
    for x in a.posonlyargs + a.args + a.kwonlyargs:
        params.add(x.arg)
    if a.vararg:
        params.add(a.vararg.arg)
    if a.kwarg:
        params.add(a.kwarg.arg)
    locs = set(_locals_of(fn)) - params
    for x in ast.walk(fn):      # comprehension targets live in the comprehension's own scope
        if isinstance(x, ast.comprehension):
            for t in ast.walk(x.target):
                if isinstance(t, ast.Name):
                    locs.discard(t.id)
    binders = {}
    for n in cfg.nodes:
        for x in cfg.walk_node(n):
            if isinstance(x, ast.Name) and isinstance(x.ctx, ast.Store) and x.id in locs:
                binders.setdefault(x.id, set()).add(n.id)
            elif isinstance(x, (ast.Import, ast.ImportFrom)):
                for al in x.names:
                    binders.setdefault((al.asname or al.name).split(".")[0], set()).add(n.id)
        if n.kind == "except" and n.ast.name:
            binders.setdefault(n.ast.name, set()).add(n.id)
        if n.kind == "def":
            binders.setdefault(n.ast.name, set()).add(n.id)
    reach_entry = cfg.reachable(cfg.entry.id)
    for name in locs:
        bs = binders.get(name, set())
        after = set()
        for b in bs:
            for s, _ in cfg.succ[b]:
                after |= cfg.reachable(s)
        # for-loop targets bind at the header and are visible in the body
        for n in cfg.nodes:
            if n.id not in reach_entry or n.id in after:
                continue
            for x in cfg.walk_node(n):
                if isinstance(x, ast.Name) and isinstance(x.ctx, ast.Load) and x.id == name:
                    if n.id in bs and n.kind in ("for",):
                        continue
                    # augmented/self-referential binding at same node still unbound
                    out.append(Finding("D1b", x, name, "local %r is read here but no assignment "
                                       "to it can execute before this point on any path: "
                                       "UnboundLocalError" % name))
                    break
    return out


# --------------------------------------------------------------------------- D3
def _foreign_stored_attrs(repo):
    c = repo.__dict__.get("_foreign_attrs")
    if c is None:
        c = set()
        for m in repo.modules.values():
            if m.is_test:
                continue
            for n in ast.walk(m.tree):
                if isinstance(n, ast.Attribute) and isinstance(n.ctx, ast.Store):
                    if not (isinstance(n.value, ast.Name) and n.value.id == "self"):
                        c.add(n.attr)
                elif isinstance(n, ast.Call) and call_name(n) == "setattr" and len(n.args) >= 2:
                    k = const_str(n.args[1])
                    if k:
                        c.add(k)
        repo.__dict__["_foreign_attrs"] = c
    return c


def _class_open(ci):
    order, opened, ext = ci.mro()
    if any(e not in ("object",) for e in ext):
        return True
    for c in order:
        if "__getattr__" in c.methods or "__getattribute__" in c.methods:
            return True
        if "*" in c.instance_attrs():
            return True
    return False


def unknown_self_attrs(repo, fn):
    """D3: self.X (load or call) where X is defined for no possible receiver class"""
    ci = owner_class(repo, fn)
    if ci is None or fn.name in ci.statics:
        return []
    sn = self_name(fn)
    if not sn:
        return []
    recvs = [ci] + ci.subclasses(strict=True)
    if any(_class_open(r) for r in recvs):
        return []
    known = set()
    for r in recvs:
        known |= r.all_attrs()
    foreign = _foreign_stored_attrs(repo)
    out = []
    for n in walk_no_nested(fn):
        if isinstance(n, ast.Attribute) and isinstance(n.ctx, ast.Load) \
                and isinstance(n.value, ast.Name) and n.value.id == sn:
            x = n.attr
            if x in known or x in foreign or x.startswith("__"):
                continue
            # hasattr(self, 'x') guard anywhere in function: dynamic
            out.append(Finding("D3", n, src(n), "attribute %r is not a method, class attribute or "
                               "instance attribute of %s or any of its subclasses: AttributeError"
                               % (x, ci.name)))
    return out


# --------------------------------------------------------------------------- D4
def _sig(fn, bound):
    a = fn.args
    pos = [x.arg for x in a.posonlyargs + a.args]
    ndef = len(a.defaults)
    if bound and pos:
        pos = pos[1:]
        # defaults apply to last positional args; unaffected
    required = pos[: len(pos) - ndef] if ndef <= len(pos) else []
    kwonly = [x.arg for x in a.kwonlyargs]
    kwreq = [x.arg for x, d in zip(a.kwonlyargs, a.kw_defaults) if d is None]
    return pos, required, kwonly, kwreq, a.vararg is not None, a.kwarg is not None


def _mismatch(call, fn, bound):
    pos, required, kwonly, kwreq, var, kw = _sig(fn, bound)
    if any(isinstance(x, ast.Starred) for x in call.args) or any(k.arg is None for k in call.keywords):
        # *args / **kw at the call: only "unknown keyword" is decidable
        for k in call.keywords:
            if k.arg is not None and not kw and k.arg not in pos and k.arg not in kwonly:
                return "unexpected keyword argument %r" % k.arg
        return None
    npos = len(call.args)
    if npos > len(pos) and not var:
        return "takes %d positional argument(s) but %d given" % (len(pos), npos)
    given = set(pos[:npos])
    for k in call.keywords:
        if k.arg in given:
            return "multiple values for argument %r" % k.arg
        if k.arg not in pos and k.arg not in kwonly and not kw:
            return "unexpected keyword argument %r" % k.arg
        given.add(k.arg)
    missing = [r for r in required if r not in given] + [r for r in kwreq if r not in given]
    if missing:
        return "missing required argument(s) %s" % ", ".join(missing)
    return None


def signature_mismatches(repo, fn):
    """D4: resolved callee given too many positionals / unknown keyword / missing required"""
    out = []
    for call in [n for n in ast.walk(fn) if isinstance(n, ast.Call)]:
        cands = resolve_call(repo, call, enclosing_func(call) or fn)
        if not cands:
            continue
        msgs = []
        for cal, recv, kind in cands:
            bound = kind in ("method", "ctor")
            if kind == "func":
                # Class.method(self, ...) unbound or staticmethod/function: nothing implicit
                p = parent(cal)
                if isinstance(p, ast.ClassDef):
                    oc = owner_class(repo, cal)
                    d = dotted(call.func) or ""
                    if oc and cal.name in oc.classmeths:
                        bound = True
            msgs.append(_mismatch(call, cal, bound))
        if msgs and all(m is not None for m in msgs):
            cal = cands[0][0]
            out.append(Finding("D4", call, src(call), "call does not match the signature of %s "
                               "(%s): TypeError" % (repo.func_qual(cal), msgs[0])))
    return out


# --------------------------------------------------------------------------- D5
_PCT = re.compile(r"%(?:\((?P<key>[^)]*)\))?[#0\- +]*(?:\*|\d+)?(?:\.(?:\*|\d+))?[hlL]?(?P<conv>[diouxXeEfFgGcrsa%])")


def bad_formats(repo, fn):
    out = []
    for n in ast.walk(fn):
        if isinstance(n, ast.Call) and isinstance(n.func, ast.Attribute) and n.func.attr == "format":
            tmpl = const_str(n.func.value)
            if tmpl is None:
                continue
            if any(isinstance(a, ast.Starred) for a in n.args) or any(k.arg is None for k in n.keywords):
                starred = True
            else:
                starred = False
            try:
                fields = list(string.Formatter().parse(tmpl))
            except ValueError as ex:
                out.append(Finding("D5", n, src(n.func.value), "malformed format template (%s): "
                                   "ValueError when formatted" % ex))
                continue
            auto = 0
            kws = {k.arg for k in n.keywords}
            for _, fld, spec, _ in fields:
                if fld is None:
                    continue
                head = re.split(r"[.\[]", fld, 1)[0]
                if head == "":
                    idx = auto
                    auto += 1
                elif head.isdigit():
                    idx = int(head)
                else:
                    if not starred and head not in kws:
                        out.append(Finding("D5", n, src(n), "format field %r has no matching "
                                           "keyword argument: KeyError" % head))
                    continue
                if not starred and idx >= len(n.args):
                    out.append(Finding("D5", n, src(n), "format field {%d} but only %d positional "
                                       "argument(s): IndexError" % (idx, len(n.args))))
        elif isinstance(n, ast.BinOp) and isinstance(n.op, ast.Mod):
            tmpl = const_str(n.left)
            if tmpl is None:
                continue
            specs = [m for m in _PCT.finditer(tmpl) if m.group("conv") != "%"]
            if any(m.group("key") is not None for m in specs):
                continue
            nspec = len(specs) + tmpl.count("*")
            r = n.right
            if isinstance(r, ast.Tuple):
                if any(isinstance(e, ast.Starred) for e in r.elts):
                    continue
                nargs = len(r.elts)
            elif isinstance(r, (ast.Name, ast.Attribute, ast.Subscript, ast.Call)):
                # a single expression: could itself be a tuple at run time; only the
                # zero-spec case is certain for non-tuples; flag when nspec == 0 or > 1
                if nspec == 0:
                    out.append(Finding("D5", n, src(n), "'%' applied to a template without any "
                                       "conversion specifier: TypeError (not all arguments converted)"))
                continue
            else:
                nargs = 1
            if nargs != nspec:
                out.append(Finding("D5", n, src(n), "'%%' template has %d conversion specifier(s) but "
                                   "%d argument(s): TypeError" % (nspec, nargs)))
    return out


# --------------------------------------------------------------------------- D6
_CONTAINER_MUTATORS = {"append", "extend", "insert", "remove", "pop", "popleft", "appendleft",
                       "clear", "update", "add", "discard", "setdefault", "get", "keys", "values",
                       "items", "index", "count", "sort", "reverse"}


def subscripted_callables(repo, fn):
    out = []
    ci = None
    p = fn
    while p is not None and ci is None:
        if isinstance(p, FuncT):
            ci = owner_class(repo, p)
        p = parent(p)
    sn = self_name(fn)
    for n in ast.walk(fn):
        if not isinstance(n, ast.Subscript):
            continue
        v = n.value
        if isinstance(v, ast.Attribute):
            if isinstance(v.value, ast.Name) and sn and v.value.id == sn and ci is not None:
                recvs = [ci] + ci.subclasses(strict=True)
                looks = [r.lookup(v.attr) for r in recvs]
                if looks and all(l is not None and isinstance(l[1], FuncT) and v.attr not in l[0].props
                                 for l in looks) and not any(v.attr in r.instance_attrs() for r in recvs):
                    out.append(Finding("D6", n, src(n), "%s is a method (%s); subscripting it "
                                       "raises TypeError" % (src(v), repo.site(looks[0][1]))))
                    continue
            if v.attr in _CONTAINER_MUTATORS and not isinstance(n.ctx, ast.Store) \
                    and isinstance(v.value, (ast.Name, ast.Attribute)):
                # x.append[...] : builtin container method subscripted
                base = dotted(v.value) or ""
                if v.attr in ("append", "extend", "insert", "remove", "popleft", "appendleft",
                              "add", "discard", "sort", "reverse", "clear"):
                    out.append(Finding("D6", n, src(n), "%s is a bound container method; "
                                       "subscripting it raises TypeError" % src(v)))
    return out


# --------------------------------------------------------------------------- D8
def errno_misclassification(repo, fn):
    """in except handlers: ex.args[0]/ex.errno compared with == to a tuple, or tested 'in' a
    tuple that contains a class object (an exception class among errno integers)"""
    out = []
    for h in ast.walk(fn):
        if not isinstance(h, ast.ExceptHandler):
            continue
        for n in ast.walk(h):
            if not isinstance(n, ast.Compare) or len(n.ops) != 1:
                continue
            left, op, right = n.left, n.ops[0], n.comparators[0]
            ls = src(left)
            if not (".args[0]" in ls or ls.endswith(".errno")):
                continue
            if isinstance(op, (ast.Eq, ast.NotEq)) and isinstance(right, (ast.Tuple, ast.List, ast.Set)):
                out.append(Finding("D8", n, src(n), "an errno value is compared with == to a tuple: "
                                   "never true, so this class of errors is never recognised"))
            if isinstance(op, (ast.In, ast.NotIn)) and isinstance(right, (ast.Tuple, ast.List, ast.Set)):
                for e in right.elts:
                    d = dotted(e) or ""
                    last = d.split(".")[-1]
                    if last and last[0].isupper() and not last.isupper() and last.endswith("Error"):
                        out.append(Finding("D8", n, d, "%s is an exception class listed among errno "
                                           "integers in %s: the membership test can never match it"
                                           % (d, src(right)[:80])))
    return out


def runtime_format_templates(repo, fn):
    """D5b: str.format applied to a template that is not a literal: `(a + b).format(..)` / `t.format(..)` with t built by
    concatenating or interpolating run-time text.  Any `{` or `}` in that text is then parsed as a replacement field and
    raises KeyError / IndexError / ValueError instead of producing the message."""
    out = []
    assigns = {}
    for x in walk_no_nested(fn):
        if isinstance(x, ast.Assign) and len(x.targets) == 1 and isinstance(x.targets[0], ast.Name):
            assigns.setdefault(x.targets[0].id, []).append(x.value)
        elif isinstance(x, ast.AugAssign) and isinstance(x.target, ast.Name):
            assigns.setdefault(x.target.id, []).append(x)

    def runtime_text(e, depth=0):
        """does expression e (a template) contain text that is not a literal of this function?"""
        if const_str(e) is not None:
            return False
        if isinstance(e, ast.BinOp) and isinstance(e.op, ast.Add):
            return runtime_text(e.left, depth) or runtime_text(e.right, depth)
        if isinstance(e, ast.BinOp) and isinstance(e.op, ast.Mod):
            return True
        if isinstance(e, ast.JoinedStr):
            return any(isinstance(v, ast.FormattedValue) for v in e.values)
        if isinstance(e, ast.AugAssign):
            return runtime_text(e.value, depth)
        if isinstance(e, ast.Name) and depth < 3:
            vs = assigns.get(e.id)
            if vs:
                return any(runtime_text(v, depth + 1) for v in vs)
            return False      # parameter / global: unknown, not reported
        if isinstance(e, ast.Call):
            return True       # str(ex), "".join(parts), x.format(..): text computed at run time
        return isinstance(e, (ast.Attribute, ast.Subscript))
    for x in walk_no_nested(fn):
        if isinstance(x, ast.Call) and isinstance(x.func, ast.Attribute) and x.func.attr == "format":
            recv = x.func.value
            if isinstance(recv, ast.BinOp) or (isinstance(recv, ast.Name) and recv.id in assigns):
                if runtime_text(recv):
                    out.append(Finding("D5b", x, src(recv)[:80] + ".format(...)",
                                       "the format template contains run-time text (not a literal): a brace in that text is "
                                       "read as a replacement field and raises KeyError/IndexError/ValueError"))
    return out


def _use_before_binding(repo, fn):
    from .cfg import CFG
    try:
        cfg = CFG(fn)
    except Exception:
        return []
    return use_before_binding(repo, fn, cfg)


ALL = {
    "D1": undefined_names,
    "D1b": _use_before_binding,
    "D3": unknown_self_attrs,
    "D4": signature_mismatches,
    "D5": bad_formats,
    "D5b": runtime_format_templates,
    "D6": subscripted_callables,
    "D8": errno_misclassification,
}


def run(repo, funcs, which=("D1", "D3", "D4", "D5", "D6", "D8")):
    """funcs: iterable of FunctionDef.  returns list of Finding"""
    out = []
    seen_nodes = set()
    for fn in funcs:
        for d in which:
            for f in ALL[d](repo, fn):
                k = (d, id(f.node))
                if k in seen_nodes:
                    continue
                seen_nodes.add(k)
                out.append(f)
    return out
