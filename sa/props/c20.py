"""C20 - 'is updated' and 'is changed' conditions report changes since the mark (placement clauses)."""
import ast

from ..model import AnchorError, call_name, const_str, dotted, src
from ..rules import FuncView, suffix_match, defect_scope
from ..ioflo_model import registry_members

EXPLANATION = (
    "Placement clauses of the marker mechanism: NeedMarker._resolve adds the transit marker with addTract (context "
    "transit) and, only when an `in frame` clause was given, inserts the enter marker at index 0 of that frame's "
    "enter actions, de-duplicated by (kind, share, marker) under an isinstance guard; the marker key is "
    "framer<marker|frame; marks are created once per key; MarkerUpdate sets mark.stamp from the store stamp and "
    "mark.used only in transit context; MarkerChange snapshots the share's items; NeedChange is true before the "
    "first snapshot and on any differing or added field; NeedUpdate's result is the documented three-way stamp "
    "formula and False before the share was ever stamped; builder names 'Marker'+kind / 'Need'+kind exist.")
NOT_DECIDED = ("the three-way stamp formula against histories of writes within a tick (runtime ordering of stamps); "
               "interaction of several markers on one share")


def check(ctx):
    from . import _framing as _fr
    _fr.tracts_only_when_taken(ctx, "T3-taken")
    ctx.rule("T3-place", "transit marker via addTract; enter marker via frame.insertEnact at index 0 only when a frame was "
             "named, after a de-duplication scan guarded by isinstance(enact.actor, Actor)")
    ctx.rule("T9-key", "marker key = '<'.join([framer.name, marker or frame.name]); Mark created only if absent")
    ctx.rule("T9-mark", "MarkerUpdate/MarkerChange/NeedUpdate/NeedChange value shapes")
    ctx.rule("T6-names", "'Marker'+kind and 'Need'+kind are registered for update and change")
    rs = ctx.fn("needing", "NeedMarker._resolve")
    V = FuncView(ctx, rs)
    at = V.need(V.call_nodes("self.addTract"), "self.addTract(markerAct)")
    ie = V.need(V.call_nodes("frame.insertEnact"), "frame.insertEnact(markerAct)")
    en = [n for n in V.cfg.nodes if isinstance(n.ast, ast.Assign) and dotted(n.ast.targets[0]) == "enacted"]
    ok = bool(en) and src(en[0].ast.value).replace(" ", "") in ("TrueifframeelseFalse", "bool(frame)")
    et = V.tests(lambda t: dotted(t) == "enacted")
    ft = V.tests(lambda t: src(t) == "not found")
    ok = ok and bool(et) and bool(ft) and V.dominated_by_edge(ie, et[0], "T") and V.dominated_by_edge(ie, ft[0], "T")
    ok = ok and V.always_then([V.cfg.entry], at) and not V.dominated_by_edge(at, et[0], "T")
    # enacted computed before frame is defaulted
    deflt = [n for n in V.cfg.nodes if isinstance(n.ast, ast.Assign) and dotted(n.ast.targets[0]) == "frame" and src(n.ast.value) == "self._act.frame"]
    ok = ok and bool(deflt) and V.dominated(deflt, en)
    ctx.check(ok, "T3-place", rs, "transit marker always; enter marker only when `in frame` was given and not already present",
              "the mark must be reset on entry to the named frame and whenever a transition guarded by it is taken")
    c = [c for n, c in V.calls("frame.insertEnact")][0]
    idx = [k.value for k in c.keywords if k.arg == "index"] + list(c.args[1:2])
    ie_def = ctx.fn("framing", "Frame.insertEnact")
    dflt = ie_def.args.defaults[-1] if ie_def.args.defaults else None
    ok = (not idx and isinstance(dflt, ast.Constant) and dflt.value == 0) or (idx and isinstance(idx[0], ast.Constant) and idx[0].value == 0)
    ins = [n for n in ast.walk(ie_def) if isinstance(n, ast.Call) and call_name(n) == "self.enacts.insert"]
    ok = ok and len(ins) == 1 and [src(a) for a in ins[0].args] == ["index", "act"]
    ctx.check(ok, "T3-place", c, "enter marker inserted at index 0 of frame.enacts", "the mark reset must precede every other enter action of that frame "
              "(an update made by an enter action in the same tick counts)")
    # dedup scan guard
    scan = [n for n in V.cfg.nodes if n.kind == "for" and dotted(n.ast.iter) == "frame.enacts"]
    okd = bool(scan)
    if okd:
        body = src(scan[0].ast)
        okd = "isinstance(enact.actor, acting.Actor)" in body and "enact.parms['share'].name == share.name" in body and \
            "enact.parms['marker'] == marker" in body and "enact.actor.name == kind" in body
    ctx.check(okd, "T3-place", scan[0].ast if scan else rs, "redundant-marker scan compares kind, share and marker under isinstance(enact.actor, Actor)",
              "enter actions of the scanned frame may still be unresolved (actor is a name string)")
    tr = ctx.fn("needing", "Need.addTract")
    t = src(tr)
    ctx.check("self._tracts.append(act)" in t and "ActionSubContextNames[TRANSIT]" in t, "T3-place", tr, "addTract appends to _tracts with context transit", "")
    # key
    mk = [n for n in V.cfg.nodes if isinstance(n.ast, ast.Assign) and dotted(n.ast.targets[0]) == "marker"]
    ok = bool(mk) and src(mk[-1].ast.value).replace('"', "'") == "'<'.join(parts)"
    parts = [n for n in V.cfg.nodes if isinstance(n.ast, ast.Assign) and dotted(n.ast.targets[0]) == "parts"]
    ok = ok and bool(parts) and src(parts[0].ast.value) == "[framer.name]"
    mt = V.tests(lambda t: dotted(t) == "marker")
    aps = V.calls("parts.append")
    ok = ok and bool(mt) and len(aps) == 2
    for n, cc in aps:
        a = src(cc.args[0])
        ok = ok and ((a == "marker" and V.dominated_by_edge([n], mt[0], "T")) or (a == "frame.name" and V.dominated_by_edge([n], mt[0], "F")))
    ctx.check(ok, "T9-key", rs, "marker key = framer.name < (marker or frame.name)", "marks of different framers/frames must not share a key unless a `by` marker says so")
    gt = V.tests(lambda t: src(t) == "not share.marks.get(marker)")
    cr = [n for n in V.cfg.nodes if any(isinstance(x, ast.Subscript) and isinstance(x.ctx, ast.Store) and src(x) == "share.marks[marker]" for x in V.cfg.walk_node(n))]
    ctx.check(bool(gt) and bool(cr) and V.dominated_by_edge(cr, gt[0], "T") and V.dominated(cr, mk), "T9-key", rs,
              "Mark created only when absent, under the final key", "an existing mark (shared marker) must not be reset at resolve time")
    # marker actions
    mu = ctx.fn("acting", "MarkerUpdate.action")
    M = FuncView(ctx, mu)
    st = [n for n in M.stores("mark.stamp")]
    us = [n for n in M.stores("mark.used")]
    ct = M.tests(lambda t: src(t) == "self._act.context == ActionSubContextNames[TRANSIT]")
    ok = len(st) == 1 and src(st[0].ast.value) == "self.store.stamp" and len(us) == 1 and src(us[0].ast.value) == "mark.stamp" and \
        bool(ct) and M.dominated_by_edge(us, ct[0], "T") and M.dominated(us, st)
    ctx.check(ok, "T9-mark", mu, "MarkerUpdate: mark.stamp = store.stamp; mark.used = mark.stamp only in transit context",
              "an update in the same tick as an entry reset counts, one in the same tick as a taken-transition reset does not")
    mc = ctx.fn("acting", "MarkerChange.action")
    st = [n for n in ast.walk(mc) if isinstance(n, ast.Assign) and dotted(n.targets[0]) == "mark.data"]
    MC = FuncView(ctx, mc)
    stn = MC.stores("mark.data")
    pmc = MC.ptests("mark")
    only_mark = bool(pmc) and bool(stn) and all(MC.core_facts(n) == {"mark"} for n in stn)
    if only_mark:
        t_, lab_ = pmc[0]
        start = [b for b, l in MC.cfg.succ[t_.id] if l == lab_]
        esc = MC.cfg.reachable(start, removed_nodes=[n.id for n in stn]) if start else {MC.cfg.exit.id}
        only_mark = MC.cfg.exit.id not in esc or all(s_ in [n.id for n in stn] for s_ in start)
    ctx.check(len(st) == 1 and src(st[0].value) == "storing.Data(share.items())" and only_mark,
              "T9-mark", mc, "MarkerChange: whenever the mark exists, mark.data = Data(share.items()) (no other condition)",
              "the snapshot behind `is changed` must be retaken at *every* marker moment; making it conditional on stamps (tick "
              "granularity) or on bookkeeping keeps a stale snapshot when the share was written twice in one tick")
    MUv = FuncView(ctx, mu)
    mtu = [t for t in MUv.cfg.nodes if t.kind == "test"]
    stamp_st = MUv.stores("mark.stamp")
    # by path conditions: the only condition on resetting the stamp is that the mark exists, in any spelling of that guard,
    # and every path on which it exists does reset it
    pm = MUv.ptests("mark")
    okm = bool(pm) and bool(stamp_st) and all(MUv.core_facts(n) == {"mark"} for n in stamp_st)
    if okm:
        t_, lab_ = pm[0]
        start = [b for b, l in MUv.cfg.succ[t_.id] if l == lab_]
        esc = MUv.cfg.reachable(start, removed_nodes=[n.id for n in stamp_st]) if start else {MUv.cfg.exit.id}
        okm = MUv.cfg.exit.id not in esc or all(s_ in [n.id for n in stamp_st] for s_ in start)
    ctx.check(okm,
              "T9-mark", mu, "MarkerUpdate: whenever the mark exists, mark.stamp is reset (no other condition)", "the mark must be set at every marker moment")
    nch = ctx.fn("needing", "NeedChange.action")
    N = FuncView(ctx, nch, exc="calls")
    def truthy_out(W, n):
        """node n makes the function's answer true: `result = True` / `return True`"""
        a_ = n.ast
        return (isinstance(a_, ast.Assign) and isinstance(a_.value, ast.Constant) and a_.value.value is True) or \
            (n.kind == "return" and isinstance(a_.value, ast.Constant) and a_.value.value is True)

    def compare_loop(W, data, shr):
        """for field, value in <shr>.items(): getattr(<data>, field) != value => true; AttributeError => true; otherwise false"""
        lp = [n for n in W.cfg.nodes if n.kind == "for" and src(n.ast.iter) == shr + ".items()"]
        cmp_ = [t for t in W.cfg.nodes if t.kind == "test" and src(t.ast.test) == "getattr(%s, field) != value" % data]
        hs = [h for h in W.cfg.nodes if h.kind == "except" and dotted(h.ast.type) == "AttributeError"]
        outs = [n for n in W.cfg.nodes if truthy_out(W, n)]
        okc = bool(lp) and bool(cmp_) and bool(hs)
        okc = okc and any(W.dominated_by_edge([n], cmp_[0], "T") for n in outs)
        okc = okc and any(n.id in W.cfg.reachable(hs[0].id) and cmp_[0].id not in W.cfg.reachable(hs[0].id, removed_nodes=[lp[0].id]) for n in outs)
        # the default answer (no difference found) is false
        falses = [n for n in W.cfg.nodes if (isinstance(n.ast, ast.Assign) and isinstance(n.ast.value, ast.Constant) and n.ast.value.value is False)
                  or (n.kind == "return" and isinstance(n.ast.value, ast.Constant) and n.ast.value.value is False)]
        return okc and bool(falses)
    t0 = N.tests(lambda t: src(t) == "mark.data is None")
    tr_ = [n for n in N.cfg.nodes if truthy_out(N, n)]
    ok = bool(t0) and any(N.dominated_by_edge([n], t0[0], "T") for n in tr_)
    ife = [x for x in ast.walk(nch) if isinstance(x, ast.IfExp) and src(x.test) == "mark.data is None"]
    if not t0 and ife:
        # conditional-expression spelling: `result = True if mark.data is None else <helper>(mark.data, share)`
        x = ife[0]
        ok = isinstance(x.body, ast.Constant) and x.body.value is True
        okh = False
        cls_ = ctx.cls("needing", "NeedChange")
        c_ = x.orelse
        if isinstance(c_, ast.Call) and isinstance(c_.func, ast.Attribute) and c_.func.attr in cls_.methods and \
                [src(a_) for a_ in c_.args] == ["mark.data", "share"]:
            h_ = cls_.methods[c_.func.attr]
            ps = [a_.arg for a_ in h_.args.args if a_.arg not in ("self", "cls")]
            okh = len(ps) == 2 and compare_loop(FuncView(ctx, h_, exc="calls"), ps[0], ps[1])
            ctx.use(h_)
        ok = ok and okh
    elif compare_loop(N, "mark.data", "share"):
        pass
    else:
        # the comparison delegated to a helper of the class, called with the snapshot and the share
        okh = False
        cls_ = ctx.cls("needing", "NeedChange")
        for n_, c_ in [(n_, c_) for n_ in N.cfg.nodes for c_ in N.cfg.walk_node(n_) if isinstance(c_, ast.Call)]:
            if isinstance(c_.func, ast.Attribute) and dotted(c_.func.value) in ("self", "NeedChange") and c_.func.attr in cls_.methods \
                    and [src(a_) for a_ in c_.args] == ["mark.data", "share"] and t0 and N.dominated_by_edge([n_], t0[0], "F"):
                h_ = cls_.methods[c_.func.attr]
                ps = [a_.arg for a_ in h_.args.args if a_.arg not in ("self", "cls")]
                if len(ps) == 2:
                    okh = compare_loop(FuncView(ctx, h_, exc="calls"), ps[0], ps[1])
                    ctx.use(h_)
        ok = ok and okh
    ctx.check(ok, "T9-mark", nch, "NeedChange: True before first snapshot, on a differing field, or on an added field; else False",
              "`is changed` must be true exactly when some field differs from or was added since the snapshot")
    nup = ctx.fn("needing", "NeedUpdate.action")
    U = FuncView(ctx, nup)
    from ..rules import truth_formula, formula_equiv, formula_of
    want = "mark.stamp is None or share.stamp > mark.stamp or (share.stamp == mark.stamp and mark.used != mark.stamp)"
    # when does NeedUpdate.action answer true?  (by value: locals that carry share.stamp / mark.stamp are read through)
    tf = truth_formula(U)
    MK = "share.marks.get(marker)"
    ok = formula_equiv(tf, ("mark and share.stamp is not None and (%s)" % want).replace("mark.", MK + ".").replace("mark and", MK + " and"))
    ctx.check(ok, "T9-mark", nup, "NeedUpdate: result = %s (only if the share was ever stamped)" % want,
              "before the mark is first set any update counts; afterwards only updates after the mark, or at the mark's own "
              "stamp when the mark was not consumed by a taken transition")
    # names
    bm = ctx.fn("building", "Builder.makeMarkerNeed")
    actor_root = ctx.cls("acting", "Actor")
    need_root = ctx.cls("needing", "Need")
    am = registry_members(ctx.repo, actor_root)
    nm = registry_members(ctx.repo, need_root)
    for kind in ("update", "change"):
        ctx.check(("Marker" + kind.capitalize()) in am and ("Need" + kind.capitalize()) in nm, "T6-names", bm,
                  "Marker%s in Actor.Registry and Need%s in Need.Registry" % (kind.capitalize(), kind.capitalize()),
                  "`is %sd` has no actor" % kind)
    t = src(bm)
    ctx.check("'Marker' + kind.capitalize()" in t and "'Need' + kind.capitalize()" in t, "T6-names", bm, "makeMarkerNeed derives Marker<Kind>/Need<Kind>", "")
    defect_scope(ctx, "D-scope", [rs, mu, mc, nch, nup, bm], max_depth=1, floor=6, label="scope: marker need builder, resolver and actions")
