"""C09 - auxiliary framers live exactly as long as their main frame."""
from . import _framing

EXPLANATION = ("Pairing and order clauses: aux claim/start in Frame.enter vs exit/release in Frame.exit and "
               "Suspender.deactivate; auxiliary transitions before main transitions in segue; aux recur right "
               "after the main frame's recur actions; enterAll restarts at the first frame; single-owner "
               "checks in resolveAuxLinks; done/`is done` forms; internal-error detectors on the done path.")
NOT_DECIDED = "per-tick liveness over generated programs (runtime)"


def check(ctx):
    done_need_resolves_in_named_framer(ctx)
    _framing.per_tick_over_actives(ctx)
    _framing.aux_lifetime(ctx)
    # an auxiliary is exited through Framer.exitAll/deactivate and re-entered through activate: the outline state rules (C05)
    # decide that a later activation starts from an intact outline
    _framing.outline_state(ctx)


def done_need_resolves_in_named_framer(ctx):
    """`if .. in frame F in framer G is done` means frame F *of framer G*: the frame name is resolved in G's frame registry"""
    import ast as _ast
    from ..model import call_name as _cn, src as _src
    ctx.rule("T6-namedframe", "NeedDoneAux._resolve resolves the frame with framing.resolveFrameOfFramer(frame, framer, ..)")
    f = ctx.cls("needing", "NeedDoneAux").own_method("_resolve")
    calls = [c for c in _ast.walk(f) if isinstance(c, _ast.Call) and (_cn(c) or "").split(".")[-1] in ("resolveFrame", "resolveFrameOfFramer")]
    ok = bool(calls) and all((_cn(c) or "").split(".")[-1] == "resolveFrameOfFramer" and len(c.args) >= 2 and _src(c.args[0]) == "frame"
                             and _src(c.args[1]) == "framer" for c in calls)
    ctx.check(ok, "T6-namedframe", calls[0] if calls else f, "NeedDoneAux._resolve: resolveFrameOfFramer(frame, framer, ..)",
              "resolving the name in the registry that happens to be current (the framer that contains the condition) inspects "
              "that framer's own frame of the same name: the any/all/named outcomes no longer follow the named frame's auxiliaries")
