"""C09 - auxiliary framers live exactly as long as their main frame."""
from . import _framing

EXPLANATION = ("Pairing and order clauses: aux claim/start in Frame.enter vs exit/release in Frame.exit and "
               "Suspender.deactivate; auxiliary transitions before main transitions in segue; aux recur right "
               "after the main frame's recur actions; enterAll restarts at the first frame; single-owner "
               "checks in resolveAuxLinks; done/`is done` forms; internal-error detectors on the done path.")
NOT_DECIDED = "per-tick liveness over generated programs (runtime)"


def check(ctx):
    _framing.per_tick_over_actives(ctx)
    _framing.aux_lifetime(ctx)
    # an auxiliary is exited through Framer.exitAll/deactivate and re-entered through activate: the outline state rules (C05)
    # decide that a later activation starts from an intact outline
    _framing.outline_state(ctx)
