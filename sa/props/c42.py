"""C42 - timers report elapsed, remaining and expiry consistently with their clock."""
import ast

from ..model import AnchorError, call_name, const_str, dotted, src
from ..rules import FuncView, suffix_match

EXPLANATION = (
    "Sibling agreement (T7) across Timer, MonoTimer and StoreTimer with the clock expression abstracted "
    "(time.time() / self.latest after update() / self.store.stamp): elapsed = max(0.0, CLOCK - self.start), "
    "remaining = max(0.0, self.stop - CLOCK), expired iff CLOCK >= self.stop, restart takes abs() of its arguments "
    "and sets stop = start + duration, repeat = restart(start=self.stop), extend keeps start; reviewed "
    "differences frozen: MonoTimer calls update() first, StoreTimer.getExpired guards stamp is not None; "
    "MonoTimer.update: on a backward jump raise TimerRetroError iff not retro, else shift both start and stop by "
    "the same delta; latest += delta always.")
NOT_DECIDED = "numeric behaviour on clock traces; float rounding of stop = start + duration"

CLOCKS = {"Timer": "time.time()", "MonoTimer": "self.latest", "StoreTimer": "self.store.stamp"}


def _ret(V, f):
    rets = [n for n in V.cfg.nodes if n.kind == "return" and n.ast.value is not None]
    return [(r, src(V.sym(r.ast.value, r))) for r in rets]


def check(ctx):
    ctx.rule("T7-clock", "elapsed/remaining/expired of the three timers equal the reference shape on their own clock")
    ctx.rule("T9-restart", "restart/repeat/extend shapes")
    ctx.rule("T1-retro", "MonoTimer.update retrograde handling")
    for cn, clock in CLOCKS.items():
        C = ctx.cls("aid.timing", cn)
        ge = C.own_method("getElapsed")
        V = FuncView(ctx, ge)
        r = _ret(V, ge)
        ok = len(r) == 1 and r[0][1].replace(" ", "") == ("max(0.0,%s-self.start)" % clock).replace(" ", "")
        ctx.check(ok, "T7-clock", ge, "%s.elapsed = max(0.0, %s - self.start)" % (cn, clock), "elapsed must be the clock minus the start, never negative")
        gr = C.own_method("getRemaining")
        V = FuncView(ctx, gr)
        r = _ret(V, gr)
        ok = len(r) == 1 and r[0][1].replace(" ", "") == ("max(0.0,self.stop-%s)" % clock).replace(" ", "")
        ctx.check(ok, "T7-clock", gr, "%s.remaining = max(0.0, self.stop - %s): %s" % (cn, clock, r[0][1] if r else "?"),
                  "remaining must be the stop minus the *clock* (never negative); deriving it from the clamped elapsed or the "
                  "duration gives a wrong value whenever the clock is before the timer's start (early repeat, future start, "
                  "backward clock)")
        gx = C.own_method("getExpired")
        V = FuncView(ctx, gx)
        want = ("%s >= self.stop" % clock).replace("(", "").replace(")", "")
        t = V.tests(lambda t: want in src(t).replace("(", "").replace(")", ""))
        rets = [n for n in V.cfg.nodes if n.kind == "return"]
        ok = bool(t) and len(rets) == 2
        if ok:
            test_src = src(t[0].ast.test).replace("(", "").replace(")", "")
            extra = test_src.replace(want, "").replace(" and ", "").strip()
            allowed_extra = "self.store.stamp is not None" if cn == "StoreTimer" else ""
            ok = extra in ("", allowed_extra)
            for r_ in rets:
                v = isinstance(r_.ast.value, ast.Constant) and r_.ast.value.value
                ok = ok and (V.dominated_by_edge([r_], t[0], "T") == (v is True))
        ctx.check(ok, "T7-clock", gx, "%s.expired iff %s" % (cn, want), "expired exactly when the clock has reached the stop")
        if cn == "MonoTimer":
            for m in (ge, gr, gx):
                W = FuncView(ctx, m)
                up = W.call_nodes("self.update")
                first = [n for n in W.cfg.nodes if n.kind in ("return", "test")]
                ctx.check(bool(up) and W.dominated(first, up), "T7-clock", m, "MonoTimer.%s calls update() first" % m.name,
                          "a monotonic timer must observe (and compensate) the clock before reporting")
        rs = C.own_method("restart")
        R = FuncView(ctx, rs)
        asg = [(src(n.ast.targets[0]), src(n.ast.value), n) for n in R.cfg.nodes if isinstance(n.ast, ast.Assign)]
        d = {}
        for k, v, n in asg:
            d.setdefault(k, []).append(v)
        clock = CLOCKS[cn]
        ok = ("abs(start)" in d.get("self.start", []) or
              any(v.replace(" ", "") == ("%s if start is None else abs(start)" % clock).replace(" ", "") for v in d.get("self.start", []))) and \
            ("abs(duration)" in d.get("self.duration", []) or
             any(v == "self.duration if duration is None else abs(duration)" for v in d.get("self.duration", []))) and \
            d.get("self.stop") == ["self.start + self.duration"]
        stopn = [n for k, v, n in asg if k == "self.stop"]
        others = [n for k, v, n in asg if k in ("self.start", "self.duration")]
        ok = ok and bool(stopn) and all(stopn[0].id in R.cfg.reachable(o.id) for o in others)
        ctx.check(ok, "T9-restart", rs, "%s.restart: start = abs(start)|clock, duration = abs(duration), stop = start + duration (last)" % cn,
                  "stop must always be start + duration")
        rp = C.own_method("repeat")
        t_ = [n for n in ast.walk(rp) if isinstance(n, ast.Return)]
        ctx.check(len(t_) == 1 and src(t_[0].value) == "self.restart(start=self.stop)", "T9-restart", rp, "%s.repeat = restart(start=self.stop)" % cn,
                  "repeat restarts exactly at the previous stop")
        ex = C.own_method("extend")
        t_ = [n for n in ast.walk(ex) if isinstance(n, ast.Return)]
        ctx.check(len(t_) == 1 and src(t_[0].value) == "self.restart(start=self.start, duration=duration)" and
                  "duration = self.duration + extension" in src(ex), "T9-restart", ex, "%s.extend keeps start, adds to duration" % cn, "extend keeps the start")
    up = ctx.cls("aid.timing", "MonoTimer").own_method("update")
    U = FuncView(ctx, up)
    t = U.tests(lambda t: src(t) == "delta < 0")
    rt = U.tests(lambda t: src(t) == "not self.retro")
    raises = [n for n in U.cfg.nodes if n.kind == "raise"]
    sh = {src(n.ast.targets[0]): src(n.ast.value) for n in U.cfg.nodes if isinstance(n.ast, ast.Assign)}
    aug = [n for n in U.cfg.nodes if isinstance(n.ast, ast.AugAssign) and src(n.ast.target) == "self.latest" and src(n.ast.value) == "delta"]
    ok = bool(t) and bool(rt) and any(U.dominated_by_edge([r], rt[0], "T") and U.dominated_by_edge([r], t[0], "T") for r in raises)
    ok = ok and sh.get("self.start") == "self.start + delta" and sh.get("self.stop") == "self.stop + delta" and \
        sh.get("delta", "").replace(" ", "") == "time.time()-self.latest"
    shifts = [n for n in U.cfg.nodes if isinstance(n.ast, ast.Assign) and src(n.ast.targets[0]) in ("self.start", "self.stop")]
    ok = ok and all(U.dominated_by_edge([s], t[0], "T") for s in shifts) and bool(aug) and U.always_then([U.cfg.entry], aug, skip_exc=True)
    # the compensation is unconditional once the clock went backwards on a retro timer: no further condition on the shifts
    allowed = {"delta < 0", "0 > delta", "self.retro"}
    ok = ok and all(U.facts(s) <= allowed for s in shifts)
    ctx.check(ok, "T1-retro", up, "update: delta < 0 => raise iff not retro, else shift start and stop by delta; latest += delta",
              "a backward clock jump must shift both ends of the timer (so elapsed never decreases) or raise without compensation")
