"""C42 - timers report elapsed, remaining and expiry consistently with their clock."""
import ast

from ..model import AnchorError, call_name, const_str, dotted, src
from ..rules import FuncView, suffix_match, truth_formula, formula_equiv, path_condition, peval

EXPLANATION = (
    "Sibling agreement (T7) across Timer, MonoTimer and StoreTimer with the clock expression abstracted "
    "(time.time() / self.latest after update() / self.store.stamp): elapsed = max(0.0, CLOCK - self.start), "
    "remaining = max(0.0, self.stop - CLOCK), expired iff CLOCK >= self.stop, restart takes abs() of its arguments "
    "and sets stop = start + duration, repeat = restart(start=self.stop), extend keeps start; reviewed "
    "differences frozen: MonoTimer calls update() first, StoreTimer.getExpired guards stamp is not None; "
    "MonoTimer.update: on a backward jump raise TimerRetroError iff not retro, else shift both start and stop by "
    "the same delta; latest += delta always.")
NOT_DECIDED = "numeric behaviour on clock traces; float rounding of stop = start + duration"

CLOCKS = {"Timer": "time.time()", "MonoTimer": "self.latest", "StoreTimer": "self.store.stamp"}


def _ret(V, f):
    rets = [n for n in V.cfg.nodes if n.kind == "return" and n.ast.value is not None]
    return [(r, src(V.sym(r.ast.value, r))) for r in rets]


def check(ctx):
    ctx.rule("T7-clock", "elapsed/remaining/expired of the three timers equal the reference shape on their own clock")
    ctx.rule("T9-restart", "restart/repeat/extend shapes")
    ctx.rule("T1-retro", "MonoTimer.update retrograde handling")
    for cn, clock in CLOCKS.items():
        C = ctx.cls("aid.timing", cn)
        ge = C.own_method("getElapsed")
        V = FuncView(ctx, ge)
        r = _ret(V, ge)
        ok = len(r) == 1 and r[0][1].replace(" ", "") == ("max(0.0,%s-self.start)" % clock).replace(" ", "")
        ctx.check(ok, "T7-clock", ge, "%s.elapsed = max(0.0, %s - self.start)" % (cn, clock), "elapsed must be the clock minus the start, never negative")
        gr = C.own_method("getRemaining")
        V = FuncView(ctx, gr)
        r = _ret(V, gr)
        ok = len(r) == 1 and r[0][1].replace(" ", "") == ("max(0.0,self.stop-%s)" % clock).replace(" ", "")
        ctx.check(ok, "T7-clock", gr, "%s.remaining = max(0.0, self.stop - %s): %s" % (cn, clock, r[0][1] if r else "?"),
                  "remaining must be the stop minus the *clock* (never negative); deriving it from the clamped elapsed or the "
                  "duration gives a wrong value whenever the clock is before the timer's start (early repeat, future start, "
                  "backward clock)")
        gx = C.own_method("getExpired")
        V = FuncView(ctx, gx)
        want = "%s >= self.stop" % clock
        tf = truth_formula(V)
        ok = formula_equiv(tf, want) or (cn == "StoreTimer" and formula_equiv(tf, "self.store.stamp is not None and " + want))
        ctx.check(ok, "T7-clock", gx, "%s.expired iff %s" % (cn, want), "expired exactly when the clock has reached the stop")
        if cn == "MonoTimer":
            # every public method that reads the compensated state (.start/.stop/.latest) looks at the clock first
            for mname in ("restart", "repeat", "extend"):
                look = C.lookup(mname)
                if look is None:
                    raise AnchorError("MonoTimer.%s not found" % mname)
                mm = look[1]
                if look[0] is not C:
                    ctx.bad("T7-clock", C.node, "MonoTimer takes %s from %s" % (mname, look[0].name),
                            "the inherited method reads .start/.stop without looking at the clock first: after a backward clock "
                            "jump it passes the uncompensated values to restart(), which overwrites the compensation update() makes")
                    continue
                W = FuncView(ctx, mm)
                up = W.call_nodes("self.update")
                reads = [n for n in W.cfg.nodes if any(isinstance(x, ast.Attribute) and isinstance(x.ctx, ast.Load) and
                                                       src(x) in ("self.start", "self.stop", "self.latest") for x in W.cfg.walk_node(n))]
                ctx.check(bool(up) and all(W.dominated([r_], up) for r_ in reads), "T7-clock", mm,
                          "MonoTimer.%s calls update() before it reads start/stop/latest" % mname,
                          "a value of .start/.stop read before update() is the one from before a backward clock jump: passing it "
                          "to restart() overwrites the compensation - elapsed goes backwards, the repeated period starts late")
            for m in (ge, gr, gx):
                W = FuncView(ctx, m)
                up = W.call_nodes("self.update")
                first = [n for n in W.cfg.nodes if n.kind in ("return", "test")]
                ctx.check(bool(up) and W.dominated(first, up), "T7-clock", m, "MonoTimer.%s calls update() first" % m.name,
                          "a monotonic timer must observe (and compensate) the clock before reporting")
        rs = C.own_method("restart")
        R = FuncView(ctx, rs)
        clock = CLOCKS[cn]
        ok, seen = True, []
        for sv_, dv_ in ((None, None), (5.0, None), (None, 2.0), (5.0, 2.0)):
            outs = peval(R, {"start": sv_, "duration": dv_}, effects=True)
            ok = ok and bool(outs)
            for k_, e_, h_, eff in outs:
                if k_ == "raise":
                    continue
                st = [x.split(" = ", 1) for x in eff if " = " in x and x.startswith(("self.start ", "self.stop ", "self.duration "))]
                seen.append(st)
                d = {}
                for k2, v2 in st:
                    d.setdefault(k2, []).append(v2.replace(" ", ""))
                w_start = clock.replace(" ", "") if sv_ is None else "abs(5.0)"
                w_dur = None if dv_ is None else "abs(2.0)"
                ok = ok and d.get("self.start") == [w_start]
                ok = ok and (d.get("self.duration") in (None, ["self.duration"]) if w_dur is None else d.get("self.duration") == [w_dur])
                lhs = {"self.start", w_start}
                rhs = {"self.duration"} | ({w_dur} if w_dur else set())
                ok = ok and len(d.get("self.stop", [])) == 1 and d["self.stop"][0] in {a_ + "+" + b_ for a_ in lhs for b_ in rhs}
                ok = ok and bool(st) and st[-1][0] == "self.stop"
        ctx.check(ok, "T9-restart", rs, "%s.restart: start = abs(start)|clock, duration = abs(duration), stop = start + duration (last)" % cn,
                  "stop must always be start + duration")
        rp = C.own_method("repeat")
        t_ = [n for n in ast.walk(rp) if isinstance(n, ast.Return)]
        ctx.check(len(t_) == 1 and src(t_[0].value) == "self.restart(start=self.stop)", "T9-restart", rp, "%s.repeat = restart(start=self.stop)" % cn,
                  "repeat restarts exactly at the previous stop")
        ex = C.own_method("extend")
        t_ = [n for n in ast.walk(ex) if isinstance(n, ast.Return)]
        ctx.check(len(t_) == 1 and src(t_[0].value) == "self.restart(start=self.start, duration=duration)" and
                  "duration = self.duration + extension" in src(ex), "T9-restart", ex, "%s.extend keeps start, adds to duration" % cn, "extend keeps the start")
    up = ctx.cls("aid.timing", "MonoTimer").own_method("update")
    U = FuncView(ctx, up)
    D = "time.time() - self.latest"
    entry = [U.cfg.entry.id]
    raises = [n for n in U.cfg.nodes if n.kind == "raise"]

    def shift_of(n, attr):
        a_ = n.ast
        if isinstance(a_, ast.AugAssign) and isinstance(a_.op, ast.Add) and src(a_.target) == attr:
            return src(U.sym(a_.value, n))
        if isinstance(a_, ast.Assign) and src(a_.targets[0]) == attr and isinstance(a_.value, ast.BinOp) and isinstance(a_.value.op, ast.Add):
            l, r = src(U.sym(a_.value.left, n)), src(U.sym(a_.value.right, n))
            return r if l == attr else l if r == attr else None
        return None
    ok = bool(raises) and formula_equiv(("or", [path_condition(U, r, start=entry) for r in raises]), "%s < 0 and not self.retro" % D)
    for attr in ("self.start", "self.stop"):
        sh = [n for n in U.cfg.nodes if isinstance(n.ast, (ast.Assign, ast.AugAssign)) and
              src(n.ast.target if isinstance(n.ast, ast.AugAssign) else n.ast.targets[0]) == attr]
        ok = ok and len(sh) == 1 and shift_of(sh[0], attr) == D and \
            formula_equiv(path_condition(U, sh[0], start=entry), "%s < 0 and self.retro" % D)
    lat = [n for n in U.cfg.nodes if isinstance(n.ast, (ast.Assign, ast.AugAssign)) and
           src(n.ast.target if isinstance(n.ast, ast.AugAssign) else n.ast.targets[0]) == "self.latest"]
    ok = ok and len(lat) == 1 and (shift_of(lat[0], "self.latest") == D or
                                   (isinstance(lat[0].ast, ast.Assign) and src(U.sym(lat[0].ast.value, lat[0])) == "time.time()"))
    ok = ok and formula_equiv(path_condition(U, lat[0], start=entry), "not (%s < 0 and not self.retro)" % D)
    ctx.check(ok, "T1-retro", up, "update: delta < 0 => raise iff not retro, else shift start and stop by delta; latest += delta",
              "a backward clock jump must shift both ends of the timer (so elapsed never decreases) or raise without compensation")
