"""C29 - HTTP messages parse the same however their bytes arrive (incremental-parsing discipline)."""
import ast

from ..model import AnchorError, call_name, const_str, dotted, src
from ..rules import FuncView
from . import _http

EXPLANATION = (
    "Incremental parsing discipline on the CFGs of parseLine/parseLeader/parseChunk/parseBom and of "
    "Requestant/Respondent.parseBody: bytes are deleted from the buffer only after a complete unit was found "
    "(del raw[:index] dominated by the found test, del raw[:size] by len(raw) >= size) and every `need more` state "
    "is a `yield None` with the buffer untouched; a fixed-length body takes exactly msg[:length] and deletes the "
    "same slice (later bytes stay for the next message); header lines are split at the first colon with optional "
    "whitespace (no fixed-arity unpack of split(': ')); the end of line chosen is the earliest one in the buffer.")
NOT_DECIDED = "equality of the parse results over all splits of all messages (runtime bytes)"


def check(ctx):
    ctx.rule("T1-consume", "buffer bytes deleted only after a complete unit; yield None leaves the buffer untouched")
    ctx.rule("D-unpack", "no fixed-arity unpack of str.split in the parse call graph unless guarded by `sep in text`")
    ctx.rule("T9-colon", "parseLeader splits header lines at the first ':' and strips optional whitespace")
    ctx.rule("T9-eol", "earliest end of line wins")
    scope = _http.parse_scope(ctx)
    ctx.floor("scope", len(scope), 15)
    _http.delete_discipline(ctx, "T1-consume")
    ctx.rule("T4-consumers", "bytes are removed from the receive buffers only by the parser primitives")
    ctx.floor("T4-consumers:sites", _http.buffer_consumers(ctx, "T4-consumers"), 7)
    ctx.rule("T1-scan", "delimiter searches cover the whole unconsumed buffer (resume offsets reset on consumption and back up over a straddling delimiter)")
    ctx.rule("T1-wait", "a buffer prefix is read only after the parser established that many bytes are present")
    _http.scan_offsets(ctx, "T1-scan")
    _http.wait_before_read(ctx, "T1-wait")
    ctx.rule("T-gen", "a closed line/leader/chunk generator is never resumed (interim 100 Continue, chunk loops)")
    ctx.rule("D-bakey", "bytearray slices of the receive buffer are not used as mapping keys (chunk extensions, trailers)")
    ctx.floor("T-gen:sites", _http.generator_typestate(ctx, "T-gen", scope), 8)
    ctx.rule("T-resume", "after a wait (yield None) the parser generator that is resumed is the one that waited, never a fresh one")
    ctx.floor("T-resume:sites", _http.generator_resume(ctx, "T-resume", scope), 8)
    ctx.floor("D-bakey:keys", _http.bytearray_keys(ctx, "D-bakey", scope), 2)
    _http.fixed_arity_unpacks(ctx, "D-unpack", scope)
    pl = ctx.fn("aio.http.httping", "parseLeader")
    t = src(pl)
    import re as _re
    ok = (bool(_re.search(r"\b\w+\.partition\(':'\)", t)) and ".strip()" in t) or \
        (bool(_re.search(r"\.split\(':', 1\)", t)) and ".strip()" in t and bool(_re.search(r"':' in \w+", t)))
    ctx.check(ok, "T9-colon", pl, "parseLeader: key, sep, value = line.partition(':'); strip both", "header lines with or without whitespace after the colon must parse")
    for fname in ("parseLine", "parseLeader"):
        f, h, ok, why = _http.eol_selection(ctx, fname)
        ctx.check(ok, "T9-eol", h.ast, "%s selects the earliest end of line" % fname,
                  "%s: a line ending that occurs earlier in the buffer but is tried later in the eols tuple is skipped, so the "
                  "same bytes parse differently depending on which line endings are present" % why)
