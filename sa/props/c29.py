"""C29 - HTTP messages parse the same however their bytes arrive (incremental-parsing discipline)."""
import ast

from ..model import AnchorError, call_name, const_str, dotted, src
from ..rules import FuncView
from . import _http

EXPLANATION = (
    "Incremental parsing discipline on the CFGs of parseLine/parseLeader/parseChunk/parseBom and of "
    "Requestant/Respondent.parseBody: bytes are deleted from the buffer only after a complete unit was found "
    "(del raw[:index] dominated by the found test, del raw[:size] by len(raw) >= size) and every `need more` state "
    "is a `yield None` with the buffer untouched; a fixed-length body takes exactly msg[:length] and deletes the "
    "same slice (later bytes stay for the next message); header lines are split at the first colon with optional "
    "whitespace (no fixed-arity unpack of split(': ')); the end of line chosen is the earliest one in the buffer.")
NOT_DECIDED = "equality of the parse results over all splits of all messages (runtime bytes)"


def check(ctx):
    _http.last_chunk_consumes_terminator(ctx, "T1-lastchunk")
    _http.driver_resumes_every_call(ctx, "T2-driver")
    ctx.rule("T1-consume", "buffer bytes deleted only after a complete unit; yield None leaves the buffer untouched")
    ctx.rule("D-unpack", "no fixed-arity unpack of str.split in the parse call graph unless guarded by `sep in text`")
    ctx.rule("T9-colon", "parseLeader splits header lines at the first ':' and strips optional whitespace")
    ctx.rule("T9-eol", "earliest end of line wins")
    scope = _http.parse_scope(ctx)
    ctx.floor("scope", len(scope), 15)
    _http.delete_discipline(ctx, "T1-consume")
    ctx.rule("T4-consumers", "bytes are removed from the receive buffers only by the parser primitives")
    ctx.floor("T4-consumers:sites", _http.buffer_consumers(ctx, "T4-consumers"), 7)
    ctx.rule("T1-scan", "delimiter searches cover the whole unconsumed buffer (resume offsets reset on consumption and back up over a straddling delimiter)")
    ctx.rule("T1-wait", "a buffer prefix is read only after the parser established that many bytes are present")
    _http.scan_offsets(ctx, "T1-scan")
    _http.wait_before_read(ctx, "T1-wait")
    ctx.rule("T-gen", "a closed line/leader/chunk generator is never resumed (interim 100 Continue, chunk loops)")
    ctx.rule("D-bakey", "bytearray slices of the receive buffer are not used as mapping keys (chunk extensions, trailers)")
    ctx.floor("T-gen:sites", _http.generator_typestate(ctx, "T-gen", scope), 8)
    ctx.rule("T-resume", "after a wait (yield None) the parser generator that is resumed is the one that waited, never a fresh one")
    ctx.floor("T-resume:sites", _http.generator_resume(ctx, "T-resume", scope), 8)
    ctx.floor("D-bakey:keys", _http.bytearray_keys(ctx, "D-bakey", scope), 2)
    _http.fixed_arity_unpacks(ctx, "D-unpack", scope)
    pl = ctx.fn("aio.http.httping", "parseLeader")
    t = src(pl)
    import re as _re
    ok = (bool(_re.search(r"\b\w+\.partition\(':'\)", t)) and ".strip()" in t) or \
        (bool(_re.search(r"\.split\(':', 1\)", t)) and ".strip()" in t and bool(_re.search(r"':' in \w+", t)))
    ctx.check(ok, "T9-colon", pl, "parseLeader: key, sep, value = line.partition(':'); strip both", "header lines with or without whitespace after the colon must parse")
    for fname in ("parseLine", "parseLeader"):
        if fname != "parseLine" and _http.delegates_to_parseLine(ctx, fname):
            continue
        f, h, ok, why = _http.eol_selection(ctx, fname)
        ctx.check(ok, "T9-eol", h.ast, "%s selects the earliest end of line" % fname,
                  "%s: a line ending that occurs earlier in the buffer but is tried later in the eols tuple is skipped, so the "
                  "same bytes parse differently depending on which line endings are present" % why)
    http_line_endings(ctx)


def http_line_endings(ctx):
    """HTTP lines end in CRLF (LF tolerated); a bare CR is not an end of line.  Only the event-stream parser reads with CR as a
    third delimiter - and pays for it with look-ahead state (C33 T9-crlf).  A request/status/header/chunk line read with CR
    allowed ends at the CR of a CRLF whose LF has not arrived yet, and the LF then reads as the empty line that ends the head."""
    ctx.rule("T6-eols", "every parseLine/parseLeader call of the HTTP message parsers reads with eols = (CRLF, LF)")
    n = 0
    defaults = {}
    hm = ctx.repo.mod("aio.http.httping")
    for fn in [x for x in hm.tree.body if isinstance(x, ast.FunctionDef) and x.name in ("parseLine", "parseLeader")]:
        names = [a.arg for a in fn.args.args]
        dv = dict(zip(names[len(names) - len(fn.args.defaults):], fn.args.defaults))
        defaults[fn.name] = src(dv["eols"]).replace(" ", "") if "eols" in dv else None
    for modn in ("aio.http.serving", "aio.http.clienting", "aio.http.httping"):
        m = ctx.repo.mod(modn)
        ctx.consulted.add(m.relpath)
        for holder in [m.tree] + [c for c in m.tree.body if isinstance(c, ast.ClassDef)]:
            for fn in [x for x in holder.body if isinstance(x, ast.FunctionDef)]:
                if isinstance(holder, ast.ClassDef) and holder.name == "EventSource":
                    continue
                for c in [x for x in ast.walk(fn) if isinstance(x, ast.Call)]:
                    cn = (call_name(c) or "").split(".")[-1]
                    if cn not in ("parseLine", "parseLeader"):
                        continue
                    n += 1
                    kw = [k.value for k in c.keywords if k.arg == "eols"]
                    eff = src(kw[0]).replace(" ", "") if kw else (src(c.args[1]).replace(" ", "") if len(c.args) > 1 else defaults.get(cn))
                    ctx.check(eff in ("(CRLF,LF)", "(CRLF,)", "eols"), "T6-eols", c, "%s: %s(.., eols=%s)" % (fn.name, cn, eff),
                              "with a bare CR accepted as end of line, a receive boundary between the CR and the LF of a CRLF makes the "
                              "LF an empty line: the head ends early, headers and body are left as the next message")
    ctx.floor("T6-eols:calls", n, 8)
