"""C45 - arbiters select outputs by their documented rules (must-assign, comparison and accumulation clauses)."""
import ast

from ..model import AnchorError, call_name, const_str, dotted, src
from ..rules import FuncView, suffix_match, defect_scope, path_condition, formula_equiv, peval, simplify
from . import _framing

EXPLANATION = (
    "For the four update methods: on every normal path output.value, output.truth and output.stamp are each "
    "assigned exactly once, from a selected input or from self.default (fallback on every non-selecting path, "
    "including both except arms of the weighted arbiter); comparisons against the default truth are strict `>`; "
    "the switch arbiter returns at the first selected input; priority selects by `imp > impmax` under selection "
    "and sufficiency; the trusted arbiter's tie arm compares importance with the running maximum; the weighted "
    "arbiter accumulates Sum(imp), Sum(imp*truth) and Sum(imp*truth*value) for *every* selected input (no path "
    "skips an accumulation) and divides value by Sum(imp*truth) and truth by Sum(imp); FixTruth maps None/True to "
    "1.0, False to 0.0 and clamps numbers; internal-error detectors (`never raising`).")
NOT_DECIDED = "the selected values for particular value combinations (numeric); float ties"


def _count_rule(ctx, V, f, name):
    cfg = V.cfg
    for attr in ("self.output.value", "self.output.truth", "self.output.stamp"):
        def pred(n, attr=attr):
            return isinstance(n.ast, ast.Assign) and any(dotted(t) == attr for t in n.ast.targets)
        paths = cfg.paths(cfg.entry.id, [cfg.exit.id], max_visits=2)
        ctx.paths += len(paths)
        counts = {}
        for p in paths:
            k = sum(1 for i in p if pred(cfg.nodes[i]))
            counts.setdefault(k, p)
        ok = set(counts) == {1}
        ctx.check(ok, "T2-assign", f, "%s.update assigns %s exactly once on each of %d paths (counts %s)" % (name, attr.split(".")[-1], len(paths), sorted(counts)),
                  "some path through update leaves output.%s unassigned (stale output) or assigns it twice" % attr.split(".")[-1])


def check(ctx):
    fetch_returns_what_is_stored(ctx)
    ctx.rule("T2-assign", "output.value/truth/stamp assigned exactly once on every normal path of each update")
    ctx.rule("T9-compare", "strict > against default truth; selection/importance comparison shapes")
    ctx.rule("T2-accumulate", "weighted arbiter: every selected input contributes to all three sums")
    ctx.rule("T9-fixtruth", "FixTruth mapping")
    A = {}
    for cn in ("ArbiterSwitch", "ArbiterPriority", "ArbiterTrusted", "ArbiterWeighted"):
        f = ctx.cls("arbiting", cn).own_method("update")
        V = FuncView(ctx, f, exc="calls" if cn == "ArbiterWeighted" else "raise")
        A[cn] = (f, V)
        _count_rule(ctx, V, f, cn)
        vals = [n for n in V.cfg.nodes if isinstance(n.ast, ast.Assign) and dotted(n.ast.targets[0]) == "self.output.value"]
        ok = all(src(n.ast.value) in ("input.value", "inputmax.value", "self.default.value", "wgtval") for n in vals)
        ctx.check(ok and any(src(n.ast.value) == "self.default.value" for n in vals), "T2-assign", f, "%s: value comes from an input or the default" % cn, "")
        for c in [x for x in ast.walk(f) if isinstance(x, ast.Compare) and any("self.default.truth" in src(y) for y in [x.left] + x.comparators)]:
            ctx.check(len(c.ops) == 1 and isinstance(c.ops[0], ast.Gt) and src(c.comparators[0]) == "self.default.truth", "T9-compare", c,
                      "%s: %s" % (cn, src(c)), "an input is sufficient only if its truth strictly exceeds the default truth")
    f, V = A["ArbiterSwitch"]
    t = V.tests(lambda t: src(t) == "self.insels.fetch(tag)")
    rets = [n for n in V.cfg.nodes if n.kind == "return"]
    ctx.check(bool(t) and any(V.dominated_by_edge([r], t[0], "T") for r in rets), "T9-compare", f, "switch: first selected input wins (return inside the loop)", "")
    # selection condition of the priority and trusted arbiters as a propositional function of the tests on the way
    SEL, TR, IMP = "self.insels.fetch(tag)", "self.FixTruth(input.truth)", "self.inimps.fetch(tag)"
    EXPECT = {"ArbiterPriority": "%s and %s > self.default.truth and %s > impmax" % (SEL, TR, IMP),
              "ArbiterTrusted": "%s and %s > self.default.truth and (%s > truthmax or (%s == truthmax and %s > impmax))" % (SEL, TR, TR, TR, IMP)}
    WHAT = {"ArbiterPriority": "priority: selected and truth > default and imp > impmax => new maximum",
            "ArbiterTrusted": "trusted: selected and truth > default and (truth > truthmax, or equal truth and imp > impmax) => new maximum"}
    for cn, names in (("ArbiterPriority", ("inputmax", "impmax")), ("ArbiterTrusted", ("inputmax", "impmax", "truthmax"))):
        f, V = A[cn]
        for nm in names:
            st = [n for n in V.stores(nm) if isinstance(n.ast, ast.Assign) and not isinstance(n.ast.value, ast.Constant)]
            V.need(st, "assignment of the running %s in %s.update" % (nm, cn))
            pc = ("or", [path_condition(V, n) for n in st])
            ctx.check(formula_equiv(pc, EXPECT[cn]), "T9-compare", st[0].ast, "%s (%s)" % (WHAT[cn], nm),
                      "the running maximum is replaced under a different condition than the documented one: the wrong input wins")
    f, V = A["ArbiterWeighted"]
    cfg = V.cfg
    hdr = [n for n in cfg.nodes if n.kind == "for"]
    sel = V.tests(lambda t: src(t) == "self.insels.fetch(tag)")
    acc = {}
    for n in cfg.nodes:
        if isinstance(n.ast, ast.AugAssign) and isinstance(n.ast.op, ast.Add) and dotted(n.ast.target) in ("wgtimp", "wgtcnf", "wgtval"):
            acc[dotted(n.ast.target)] = n
    ok = bool(hdr) and bool(sel) and len(acc) == 3
    if ok:
        tsucc = [b for b, lab in cfg.succ[sel[0].id] if lab == "T"]
        for name, n in acc.items():
            # every path from the selected branch back to the loop header passes this accumulation
            r = cfg.reachable(tsucc[0], removed_nodes=[n.id], labels_block=("exc",)) if tsucc[0] != n.id else set()
            ok = ok and hdr[0].id not in r
        shapes = {k: src(V.sym(n.ast.value, n, depth=2)).replace(" ", "") for k, n in acc.items()}
        fix = "self.FixTruth(input.truth)"
        impx = "self.inimps.fetch(tag)"
        ok = ok and shapes["wgtimp"] == impx and shapes["wgtcnf"] in (impx + "*" + fix, fix + "*" + impx) and \
            shapes["wgtval"] in (impx + "*" + fix + "*input.value",)
    ctx.check(ok, "T2-accumulate", f, "weighted: each selected input adds imp, imp*truth and imp*truth*value on every path",
              "a selected input can skip one of the three sums: its importance no longer counts in the Sum(imp) denominator (or its "
              "value in the numerator), so the weighted truth/value differ from the documented averages")
    asg = {dotted(n.ast.targets[0]): src(n.ast.value).replace(" ", "") for n in cfg.nodes if isinstance(n.ast, ast.Assign) and
           dotted(n.ast.targets[0]) in ("wgtval", "wgtcnf") and not isinstance(n.ast.value, ast.Constant)}
    ctx.check(asg.get("wgtval") == "wgtval/float(wgtcnf)" and asg.get("wgtcnf") == "wgtcnf/float(wgtimp)", "T2-accumulate", f,
              "weighted: value = Sum(imp*cnf*val)/Sum(imp*cnf); truth = Sum(imp*cnf)/Sum(imp)", "normalisation of the weighted average")
    hs = {dotted(h.type) for h in ast.walk(f) if isinstance(h, ast.ExceptHandler) and h.type is not None}
    ctx.check({"TypeError", "ZeroDivisionError"} <= hs, "T2-assign", f, "weighted: TypeError and ZeroDivisionError fall back to the default", "never raising")
    ft = ctx.cls("arbiting", "Arbiter").own_method("FixTruth")
    FT = FuncView(ctx, ft)
    outs = {}
    for label, env in (("None", {"truth": None}), ("True", {"truth": True}), ("False", {"truth": False}), ("other", {})):
        outs[label] = {src(simplify(e)).replace(" ", "") if e is not None else "None" for k, e, *_ in peval(FT, env) if k == "return"}
    clamp = {"float(min(1.0,max(0.0,truth)))", "float(max(0.0,min(1.0,truth)))"}
    ok = outs["None"] == {"1.0"} and outs["True"] == {"1.0"} and outs["False"] == {"0.0"} and \
        bool(outs["other"] & clamp) and outs["other"] <= clamp | {"1.0", "0.0"}
    ctx.check(ok, "T9-fixtruth", ft, "FixTruth: None/True -> 1.0, False -> 0.0, else clamp to [0, 1] (%s)" % {k: sorted(v) for k, v in outs.items()}, "")
    defect_scope(ctx, "D-scope", [A[k][0] for k in A] + [ft, ctx.cls("arbiting", "Arbiter").own_method("GoodTruth")], max_depth=1, floor=6,
                 label="scope: arbiter update methods")
    # sufficiency: an input can become the selection only if it is selected AND its truth is strictly above the default truth
    for cn in ("ArbiterPriority", "ArbiterTrusted"):
        up = ctx.cls("arbiting", cn).own_method("update")
        U = FuncView(ctx, up)
        picks = [n for n in U.stores("inputmax") if isinstance(n.ast, ast.Assign) and not (isinstance(n.ast.value, ast.Constant) and n.ast.value.value is None)]
        U.need(picks, "assignments of the selected input in %s.update" % cn)
        ok = all({"self.insels.fetch(tag)", "self.FixTruth(input.truth) > self.default.truth"} <= U.symfacts(p) for p in picks)
        ctx.check(ok, "T9-compare", up, "%s: every selection is guarded by `sel` and `truth > self.default.truth` (strict)" % cn,
                  "an input whose truth merely equals the default truth (or that is not selected) can displace the default output")


def fetch_returns_what_is_stored(ctx):
    """the arbiters read selection, importance and truth of their inputs with Share.fetch(field): it returns the stored value as
    it is - 0, 0.0 and False are values, not `missing`"""
    ctx.rule("T9-fetch", "Share.fetch(field, default) returns self.get(field, default): the default stands in for an absent field only")
    f = ctx.cls("storing", "Share").own_method("fetch")
    V = FuncView(ctx, f)
    rets = [n for n in V.cfg.nodes if n.kind == "return"]
    ok = len(rets) == 1
    if ok:
        v = V.sym(rets[0].ast.value, rets[0])
        ps = [a.arg for a in f.args.args[1:3]]
        ok = isinstance(v, ast.Call) and src(v).replace(" ", "") in ("self.get(%s,%s)" % tuple(ps), "getattr(self._data,%s,%s)" % tuple(ps),
                                                                      "self._data.get(%s,%s)" % tuple(ps))
    ctx.check(ok, "T9-fetch", f, "Share.fetch returns self.get(field, default)",
              "`self.get(field) or default` turns a stored importance of 0 (or a truth of 0.0) into None: the priority and trusted "
              "arbiters then raise TypeError comparing it, the weighted arbiter silently outputs its default")
