"""C34 - HTTP redirects are followed safely to the final response."""
import ast

from ..model import AnchorError, call_name, const_str, dotted, src
from ..rules import FuncView, defect_scope

EXPLANATION = (
    "Nullable-part rule (D7): in Patron.redirect the parts of urlsplit(location) that are None/empty for a "
    "relative Location (hostname, port, scheme) are defaulted from the current request before they reach "
    "normalizeHostPort / .lower() (sibling Patron.__init__ does `splits.hostname or hostname`); the connector swap "
    "(connector.close() ... reopen()) is dominated by the downgrade guard `requester.scheme == 'https' and scheme != "
    "'https' => raise`; bookkeeping in serviceResponse: a redirect response is appended to self.redirects before "
    "redirect() is called, the final response gets response['redirects'] = copy of the chain, and the chain is "
    "reset afterwards; redirect() re-issues with transmit() and marks the respondent not ended.")
NOT_DECIDED = "redirect chains against live servers; loop limits"


def check(ctx):
    reinit_applies_given_values(ctx)
    ctx.rule("D7-relative", "hostname/port/scheme from urlsplit(location) are defaulted from self.requester when the Location is relative")
    ctx.rule("T1-downgrade", "connector swap dominated by the https->http downgrade guard")
    ctx.rule("T3-chain", "redirects chain bookkeeping in serviceResponse")
    P = ctx.cls("aio.http.clienting", "Patron")
    rd = P.own_method("redirect")
    V = FuncView(ctx, rd)
    nh = V.need(V.call_nodes("httping.normalizeHostPort"), "normalizeHostPort(...) in redirect")
    hs = [n for n in V.cfg.nodes if isinstance(n.ast, ast.Assign) and dotted(n.ast.targets[0]) == "hostname"]
    # a defaulting assignment from the requester must lie on every path where splits.hostname is falsy
    sv = lambda e, n: src(V.sym(e, n))
    dflt = [n for n in hs if "self.requester.hostname" in sv(n.ast.value, n)]
    inline = [n for n in hs if isinstance(n.ast.value, ast.BoolOp) and isinstance(n.ast.value.op, ast.Or) and "self.requester.hostname" in sv(n.ast.value, n)]
    guard = V.tests(lambda t: src(t) in ("not hostname", "hostname is None", "not splits.hostname", "splits.hostname is None"))
    ok = bool(inline) or (bool(dflt) and bool(guard) and all(V.dominated_by_edge([d], guard[0], "T") for d in dflt) and
                          V.cfg.always_reaches([guard[0].id], [d.id for d in dflt] + [b for b, lab in V.cfg.succ[guard[0].id] if lab == "F"], ends=[nh[0].id])
                          and V.dominated(nh, guard))
    ctx.check(ok, "D7-relative", nh[0].ast, "redirect: hostname defaulted from the current request before normalizeHostPort(hostname, ..)",
              "urlsplit(location).hostname is None for a relative Location; it flows into normalizeHostPort, which dereferences it: "
              "AttributeError instead of following the redirect on the same host")
    sch = [n for n in V.cfg.nodes if isinstance(n.ast, ast.Assign) and dotted(n.ast.targets[0]) == "scheme"]
    ok = any("self.requester.scheme" in sv(n.ast.value, n) for n in sch)
    ctx.check(ok, "D7-relative", rd, "redirect: empty scheme of a relative Location defaults to the current request's scheme",
              "an empty scheme maps to http: an https request redirected to a relative Location would be treated as a downgrade (or "
              "silently downgraded)")
    prt = [n for n in V.cfg.nodes if isinstance(n.ast, ast.Assign) and dotted(n.ast.targets[0]) == "port"]
    ctx.check(any("self.requester.port" in sv(n.ast.value, n) for n in prt), "D7-relative", rd, "redirect: port defaults to the current request's port for a relative Location", "")
    # the current connection's port stands in only for a Location without a host; an absolute Location without an explicit
    # port means the default port of its scheme
    ctx.rule("T8-absolute", "self.requester.port is used only under the `Location has no hostname` condition")
    for n in prt:
        uses = [x for x in ast.walk(n.ast.value) if isinstance(x, ast.Attribute) and sv(x, n) == "self.requester.port"]
        if not uses:
            continue
        okp = bool(guard) and V.dominated_by_edge([n], guard[0], "T")
        if not okp and isinstance(n.ast.value, ast.IfExp):
            tst = src(n.ast.value.test)
            if tst in ("not hostname", "not splits.hostname", "hostname is None", "splits.hostname is None"):
                okp = not any(x in ast.walk(n.ast.value.orelse) for x in uses)
            elif tst in ("hostname", "splits.hostname", "hostname is not None", "splits.hostname is not None"):
                okp = not any(x in ast.walk(n.ast.value.body) for x in uses)
        ctx.check(okp, "T8-absolute", n.ast, "redirect: %s only when the Location has no hostname" % src(n.ast),
                  "an absolute Location without an explicit port (http://host/path) must resolve to the default port of its scheme; "
                  "inheriting the current connection's port sends the redirected request to the wrong server")
    NOT_HTTPS = {"scheme != 'https'", "not secured", "scheme.lower() != 'https'", "not scheme.lower() == 'https'", "not scheme == 'https'"}
    raises = [n for n in V.cfg.nodes if n.kind == "raise"]
    dgr = [r for r in raises if "self.requester.scheme == 'https'" in V.symfacts(r) and (V.symfacts(r) & NOT_HTTPS)]
    dg = [t for t in V.cfg.nodes if t.kind == "test" and "requester.scheme == 'https'" in src(t.ast.test) and
          any(V.dominated_by_edge([r], t, "T") for r in dgr)]
    cl = V.call_nodes("self.connector.close")
    ro = V.call_nodes("self.connector.reopen")
    ok = bool(dg) and bool(cl) and bool(ro) and V.dominated_by_edge(cl + ro, dg[0], "F")
    ctx.check(ok, "T1-downgrade", rd, "connector swap only after `requester.scheme == 'https' and scheme != 'https'` raised or passed",
              "an https request must never be re-issued over plain http")
    tr = V.call_nodes("self.transmit")
    en = [n for n in V.cfg.nodes if isinstance(n.ast, ast.Assign) and src(n.ast.targets[0]) == "self.respondent.ended" and
          isinstance(n.ast.value, ast.Constant) and n.ast.value.value is False]
    ctx.check(bool(tr) and bool(en), "T3-chain", rd, "redirect re-issues the request (transmit) and marks the response not ended", "one final response per request")
    sr = P.own_method("serviceResponse")
    S = FuncView(ctx, sr)
    ap = S.call_nodes("self.redirects.append")
    rc = S.call_nodes("self.redirect")
    rt = S.tests(lambda t: src(t) == "self.respondent.redirectable and self.respondent.redirectant")
    ok = bool(ap) and bool(rc) and bool(rt) and S.dominated(rc, ap) and S.dominated_by_edge(ap + rc, rt[0], "T")
    fin = [n for n in S.cfg.nodes if any(isinstance(x, ast.Subscript) and isinstance(x.ctx, ast.Store) and src(x) == "response['redirects']" for x in S.cfg.walk_node(n))]
    reset = [n for n in S.cfg.nodes if isinstance(n.ast, ast.Assign) and dotted(n.ast.targets[0]) == "self.redirects" and isinstance(n.ast.value, ast.List)]
    ok = ok and bool(fin) and bool(reset) and all(S.dominated_by_edge([n], rt[0], "F") for n in fin + reset) and \
        all("copy.copy(self.redirects)" in src(n.ast) for n in fin) and all(r.id in S.cfg.reachable(fin[0].id) or True for r in reset)
    ctx.check(ok, "T3-chain", sr, "redirect response appended before redirect(); final response carries a copy of the chain; chain reset",
              "the final response must carry the chain of redirect responses in order")
    ini = P.own_method("__init__")
    ctx.check("splits.hostname or hostname" in src(ini), "D7-relative", ini, "Patron.__init__ defaults splits.hostname (sibling idiom)", "")
    path_decoded_once(ctx)
    defect_scope(ctx, "D-scope", [rd], max_depth=1, floor=1, label="scope: Patron.redirect")
    # every decision taken from the redirect's scheme/host/port (secured, default port, downgrade guard, connector) reads them
    # only after the relative-Location defaulting has been decided
    ctx.rule("T3-defaulted", "in Patron.redirect scheme/hostname/port are read only after the `Location has no hostname` defaulting")
    dt = V.ptests("not hostname")
    if not dt:
        # the defaulting is not written as an `if` (e.g. `x = splits.x or self.requester.x`): the D7-relative and T8-absolute
        # rules above judge that form; there is no decision point to order the reads against
        ctx.ok("T3-defaulted", rd, "no `if not hostname` decision point: defaulting judged by D7-relative/T8-absolute")
        from .c30 import plus_decoders
        plus_decoders(ctx, "T3-chain")
        return
    tnode = dt[0][0]
    inside = {id(x) for x in ast.walk(tnode.ast)}       # the defaulting `if` itself (test + arms)
    late = True
    offenders = []
    for n in V.cfg.nodes:
        if n.id == tnode.id or id(n.ast) in inside:
            continue
        reads = {x.id for x in V.cfg.walk_node(n) if isinstance(x, ast.Name) and isinstance(x.ctx, ast.Load) and x.id in ("scheme", "hostname", "port")}
        # plain initialisation from urlsplit (scheme = splits.scheme) reads none of them
        if reads and not V.dominated([n], [tnode]):
            late = False
            offenders.append(src(n.ast)[:60] if hasattr(n.ast, "lineno") else str(n))
    ctx.check(late, "T3-defaulted", rd, "redirect: scheme/hostname/port are consumed only after the relative-Location defaulting %s" % (offenders[:2] or ""),
              "a value derived from the Location's own (empty) scheme before it inherits the request's scheme treats an https request "
              "redirected to a relative Location as plain http: the downgrade guard raises and the redirect is never followed")
    from .c30 import plus_decoders
    plus_decoders(ctx, "T3-chain")


def path_decoded_once(ctx):
    """Requester.build percent-encodes the path it is given (quote(self.path)); Patron.redirect must therefore hand it the
    *decoded* path of the Location - decoded exactly once - or `%20` goes out as `%2520`"""
    ctx.rule("T7-quote", "Patron.redirect passes a percent-decoded path (through unquote) to transmit(); Requester.build quotes it again")
    P = ctx.cls("aio.http.clienting", "Patron")
    V = FuncView(ctx, P.own_method("redirect"))
    tr = V.need(V.calls("self.transmit"), "self.transmit(...) in Patron.redirect")
    n, c = tr[0]
    pa = [k.value for k in c.keywords if k.arg == "path"]
    val = src(V.sym(pa[0], n, depth=8)) if pa else "?"
    ctx.check(bool(pa) and val.count("unquote(") >= 1, "T7-quote", c, "redirect: transmit(path=%s)" % val[:70],
              "the Location's path is handed on still percent-encoded and Requester.build encodes it again: `/annual%20report` is "
              "requested as `/annual%2520report`")
    rb = ctx.cls("aio.http.clienting", "Requester").own_method("build")
    ctx.check(any(isinstance(x, ast.Call) and (call_name(x) or "").split(".")[-1] == "quote" and x.args and src(x.args[0]) in ("self.path", "path")
                  for x in ast.walk(rb)), "T7-quote", rb, "Requester.build quotes the path", "the request target must be percent-encoded exactly once")


def reinit_applies_given_values(ctx):
    """Requester.reinit replaces a field whenever a value is given - an empty one included (`qargs={}` is how a redirect to a
    Location without a query clears the previous hop's query); only None means `keep`"""
    from ..rules import path_condition, formula_equiv, formula_of
    ctx.rule("T6-reinit", "Requester.reinit: self.<p> = .. <p> .. for a parameter p is executed exactly when `p is not None`")
    f = ctx.cls("http.clienting", "Requester").own_method("reinit")
    V = FuncView(ctx, f)
    params = [a.arg for a in f.args.args[1:]]
    k = 0
    for p_ in params:
        st = [n for n in V.stores("self." + p_) if isinstance(n.ast, ast.Assign) and
              any(isinstance(x, ast.Name) and x.id == p_ for x in ast.walk(n.ast.value))]
        if not st:
            continue
        k += 1
        def project(fm):
            # keep the tests that talk about this parameter (the guards of the other fields hold on some path or other)
            if fm[0] in ("and", "or"):
                parts = [project(g) for g in fm[1]]
                parts = [g for g in parts if g is not None]
                if fm[0] == "and":
                    return ("and", parts)
                return ("or", parts) if parts else None
            if fm[0] == "not":
                g = project(fm[1])
                return None if g is None else ("not", g)
            if fm[0] == "atom":
                import re as _re
                return fm if _re.search(r"\b%s\b" % _re.escape(p_), fm[1]) else None
            return fm
        alts = []
        for n in st:
            c = project(path_condition(V, n)) or ("and", [])
            v = n.ast.value
            if isinstance(v, ast.IfExp):
                # `self.p = p if p is not None else <default>`: the parameter is what is stored on one arm only
                tf = formula_of(src(v.test))
                in_body = any(isinstance(x, ast.Name) and x.id == p_ for x in ast.walk(v.body))
                in_else = any(isinstance(x, ast.Name) and x.id == p_ for x in ast.walk(v.orelse))
                if in_body != in_else:
                    c = ("and", [c, tf if in_body else ("not", tf)])
            alts.append(c)
        pc = ("or", alts)
        ctx.check(formula_equiv(pc, "%s is not None" % p_), "T6-reinit", st[0].ast, "reinit: %s applied iff `%s is not None`" % (p_, p_),
                  "a truthiness test treats an empty value as `not given`: reinit(qargs={}) for a redirect target without a query keeps "
                  "the previous request's query arguments, and the redirected request goes to the wrong resource")
    ctx.floor("T6-reinit:params", k, 8)
