"""C47 - named entities have unique names within their namespace."""
import ast

from ..model import AnchorError, call_name, dotted, src
from ..rules import FuncView, suffix_match, module_assign
from . import _registry

EXPLANATION = (
    "Registrar.__init__: the registration Names[name] = self is dominated, on the explicit-name path, by the "
    "`name in Names => raise` test and on the automatic path by the exit of the `while name in Names` loop; "
    "namespace roots (Store, Tasker, Frame, Log, House) declare their own Counter and Names; "
    "housing.Registries and assignRegistries rebind Names and Counter of each; assignFrameRegistry rebinds "
    "Frame.Names/Counter; the builder pre-checks names before constructing; registry-binding rule for "
    "run-time accesses (instances created while another house's namespace is current).")
NOT_DECIDED = "registry histories over arbitrary operation sequences (runtime)"


def check(ctx):
    ctx.rule("T1-unique", "Registrar.__init__ registers only after uniqueness was established on every path")
    ctx.rule("T6-roots", "each namespace root class defines its own Counter and Names; Registries/assignRegistries "
             "cover store, tasker, log; assignFrameRegistry covers Frame")
    ctx.rule("T1-precheck", "builder checks `name in <Class>.Names` before constructing framer/frame/log/logger")
    ri = ctx.fn("registering", "Registrar.__init__")
    V = FuncView(ctx, ri)
    cfg = V.cfg
    NAMES = "self.__class__.Names"
    reg = [n for n in cfg.nodes if any(isinstance(x, ast.Subscript) and isinstance(x.ctx, ast.Store) and
                                      src(V.sym(x.value, n)) == NAMES for x in cfg.walk_node(n))]
    V.need(reg, "self.__class__.Names[self.name] = self")
    # membership tests on the candidate name, whatever statement carries them (while / if / elif) and however Names is reached
    mt = [n for n in cfg.nodes if n.kind == "test" and src(V.sym(n.ast.test, n)) == "name in " + NAMES]
    V.need(mt, "`name in Names` test")
    dup = [n for n in mt if isinstance(n.ast, ast.If)]
    empt = V.need(V.ptests("not name"), "`if not name` test")
    raises = [n for n in cfg.nodes if n.kind == "raise"]
    ok = any(V.dominated_by_edge([r], d, "T") and V.under([d], empt[0], holds=False) for r in raises for d in dup)
    # the name registered is one that a membership test has just found free: from the function entry and from every
    # (re)definition of `name`, the registration is reachable only through the false outcome of such a test
    free = [e for m in mt for e in cfg.edges_from(m.id, "F")]
    starts = [cfg.entry.id] + [b_ for d in V._def_nodes("name") for b_, _ in cfg.succ[d]]
    regids = {x.id for x in reg}
    for s0 in starts:
        if s0 in regids:
            ok = False
        elif regids & cfg.reachable(s0, removed_edges=free):
            # a definition inside the checking loop re-enters the test: only count reaching the registration *without* a test
            ok = False
    ctx.check(ok, "T1-unique", ri, "registration only after `name in Names` was found false for the final name; explicit duplicates raise",
              "an instance must never be registered under a name that is already taken: explicit duplicates are "
              "rejected, generated names are extended until free (a name changed after its last check is unchecked)")
    # the stored name is the checked one
    st = V.stores("self.name")
    ctx.check(bool(st) and all(isinstance(s.ast, ast.Assign) and dotted(s.ast.value) == "name" for s in st) and V.dominated(reg, st),
              "T1-unique", ri, "self.name = name before registration", "the registered key is the checked name")
    regk = [(n, x) for n in reg for x in cfg.walk_node(n) if isinstance(x, ast.Subscript) and isinstance(x.ctx, ast.Store)]
    ctx.check(all(src(x.slice) in ("self.name", "name") for n, x in regk), "T1-unique", ri, "Names[self.name] = self", "keyed by the instance name")
    # between check and registration no other registration/creation can interleave: names are re-read from the class at each test
    # roots
    for modn, cn in (("storing", "Store"), ("tasking", "Tasker"), ("framing", "Frame"), ("logging", "Log"), ("housing", "House"),
                     ("registering", "Registrar")):
        c = ctx.cls(modn, cn)
        ctx.check("Counter" in c.class_attrs and "Names" in c.class_attrs, "T6-roots", c.node,
                  "%s defines its own Counter and Names" % cn,
                  "a namespace root without its own Names shares the base class registry: names of different kinds collide")
    fr = ctx.cls("framing", "Framer")
    ctx.check("Names" not in fr.class_attrs and ctx.cls("tasking", "Tasker") in fr.mro()[0], "T6-roots", fr.node,
              "Framer shares Tasker's registry", "framers and other taskers of a house share one namespace")
    hm = ctx.repo.mod("housing")
    regs = module_assign(hm, "Registries")
    got = {k.arg: dotted(k.value) for k in regs.keywords} if isinstance(regs, ast.Call) else {}
    ctx.check(got == {"store": "storing.Store", "tasker": "tasking.Tasker", "log": "logging.Log"}, "T6-roots", regs,
              "Registries = %s" % got, "the per-house registries must be exactly store, tasker and log")
    ar = ctx.fn("housing", "House.assignRegistries")
    A = FuncView(ctx, ar)
    lp = [n for n in A.cfg.nodes if n.kind == "for" and src(A.sym(n.ast.iter, n)) in ("Registries.items()", "Registries", "Registries.keys()")]
    st_n, st_c = [], []
    for h in lp:
        tg = h.ast.target
        if isinstance(tg, ast.Tuple) and len(tg.elts) == 2:
            key, objs = tg.elts[0].id, {tg.elts[1].id}
        elif isinstance(tg, ast.Name):
            key, objs = tg.id, set()
        else:
            continue
        objs.add("Registries[%s]" % key)
        for n in A.cfg.nodes:
            if isinstance(n.ast, ast.Assign) and isinstance(n.ast.targets[0], ast.Attribute) and id(n.ast) in {id(x) for x in ast.walk(h.ast)}:
                t0 = n.ast.targets[0]
                if src(A.sym(t0.value, n)) in objs or src(t0.value) in objs:
                    if t0.attr == "Names" and src(A.sym(n.ast.value, n)) == "self.names[%s]" % key:
                        st_n.append(n)
                    if t0.attr == "Counter" and src(A.sym(n.ast.value, n)) == "self.counters[%s]" % key:
                        st_c.append(n)
    ctx.check(bool(lp) and bool(st_n) and bool(st_c), "T6-roots", ar, "assignRegistries rebinds Names and Counter of every registry",
              "both the name table and the counter must be switched to the house's own")
    tests_ar = [t for t in A.cfg.nodes if t.kind == "test"]
    rets_ar = [n for n in A.cfg.nodes if n.kind == "return"]
    ctx.check(bool(lp) and A.always_then([A.cfg.entry], lp) and not tests_ar and not rets_ar, "T6-roots", ar,
              "assignRegistries rebinds unconditionally (no test, no early return)",
              "the class-level registries can be re-pointed behind the house's back (Registrar.Clear / ClearRegistries rebind "
              "Names to fresh dicts, another house assigns its own): a cached `already assigned` fast path leaves instances "
              "registering in an orphan or foreign namespace")
    hi = ctx.fn("housing", "House.__init__")
    H = FuncView(ctx, hi)
    ok = any(isinstance(n.ast, ast.Assign) and src(n.ast.targets[0]) == "self.names[key]" and call_name(n.ast.value) in ("odict", "dict")
             for n in H.cfg.nodes)
    ctx.check(ok, "T6-roots", hi, "each house gets a fresh names dict per registry", "houses must not share name tables")
    af = ctx.fn("framing", "Framer.assignFrameRegistry")
    text = {src(n) for n in ast.walk(af) if isinstance(n, ast.Assign)}
    ctx.check({"Frame.Names = self.frameNames", "Frame.Counter = self.frameCounter"} <= text, "T6-roots", af,
              "assignFrameRegistry: Frame.Names = self.frameNames; Frame.Counter = self.frameCounter",
              "each framer has its own frame namespace")
    for fname in ("presolve", "resolve", "clone", "traceOutlines"):
        f = ctx.fn("framing", "Framer." + fname)
        W = FuncView(ctx, f)
        b = W.call_nodes("assignFrameRegistry")
        uses = [n for n in W.cfg.nodes if any(isinstance(x, ast.Attribute) and src(x) == "Frame.Names" for x in W.cfg.walk_node(n))] + \
            W.call_nodes(("frame.clone", "resolveFrame"))
        ctx.check(bool(b) and (not uses or W.dominated(uses, b)), "T6-roots", f, "Framer.%s binds the frame registry before using it" % fname,
                  "frames would be looked up or created in another framer's namespace")
    # builder prechecks
    B = ctx.cls("building", "Builder")
    for bname, reg_expr, ctor in (("buildFramer", "framing.Framer.Names", "framing.Framer"), ("buildFrame", "framing.Frame.Names", "framing.Frame"),
                                  ("buildLog", "logging.Log.Names", "logging.Log"), ("buildLogger", "logging.Logger.Names", "logging.Logger")):
        f = B.own_method(bname)
        W = FuncView(ctx, f)
        t = W.tests(lambda t, reg_expr=reg_expr: isinstance(t, ast.Compare) and isinstance(t.ops[0], ast.In) and src(t.comparators[0]) == reg_expr)
        cons = W.call_nodes(ctor)
        W.need(cons, "%s(...) in %s" % (ctor, bname))
        raises = [n for n in W.cfg.nodes if n.kind == "raise"]
        ok = bool(t) and W.dominated_by_edge(cons, t[0], "F") and any(W.dominated_by_edge([r], t[0], "T") for r in raises)
        ctx.check(ok, "T1-precheck", f, "%s: `name in %s` => ParseError before %s(...)" % (bname, reg_expr, ctor),
                  "a duplicate name in a script must be reported as a parse error, not surface from the constructor")
    if "assignFrameRegistry" not in src(B.own_method("buildFramer")):
        ctx.bad("T1-precheck", B.own_method("buildFramer"), "buildFramer binds frame registry", "frames of a new framer would register in the previous framer's namespace")
    else:
        ctx.ok("T1-precheck", B.own_method("buildFramer"), "buildFramer calls assignFrameRegistry for the new framer")
    _registry.registry_binding(ctx)
    # Clear() starts a fresh namespace by REBINDING Names: the object it replaces may be a house's own registry (the class
    # attribute is re-pointed per house by assignRegistries), which must keep its entries
    ctx.rule("T4-clear", "Registrar.Clear rebinds cls.Names / cls.Counter to fresh objects and never empties the current one in place")
    cl = ctx.fn("registering", "Registrar.Clear")
    C = FuncView(ctx, cl)
    rebinding = [n for n in C.cfg.nodes if isinstance(n.ast, ast.Assign) and dotted(n.ast.targets[0]) == "cls.Names" and
                 (isinstance(n.ast.value, ast.Dict) or (isinstance(n.ast.value, ast.Call) and call_name(n.ast.value) in ("dict", "odict")))]
    inplace = [c for n, c in C.calls(("cls.Names.clear", "cls.Names.pop", "cls.Names.popitem", "cls.Names.update"))] + \
        [n for n in C.cfg.nodes if isinstance(n.ast, ast.Delete) and "cls.Names" in src(n.ast)]
    ctx.check(bool(rebinding) and not inplace, "T4-clear", cl, "Registrar.Clear: cls.Names = {} (rebinding), no in-place clear",
              "clearing in place while a house's namespace is current wipes that house's registry: its live instances are "
              "forgotten, later duplicates are accepted and automatic names collide")
    clear_only_on_roots(ctx)
    # run-time creation paths bind the house's registries themselves (shared with C12)
    ctx.rule("T6-runtime", "Framer.clone (also reached at run time through `rear`) calls assignRegistries() before it tests or registers a name")
    frc = ctx.fn("framing", "Framer.clone")
    R2 = FuncView(ctx, frc)
    ar = R2.call_nodes("assignRegistries")
    cons = R2.call_nodes("Framer")
    ctx.check(bool(ar) and bool(cons) and R2.dominated(cons, ar), "T6-runtime", frc,
              "Framer.clone: assignRegistries() precedes Framer(...)",
              "a clone reared while another house's namespace is current is checked against, and registered in, that other "
              "house's names: missing from its own registry, a foreign instance (or a spurious `already exists`) in the other")


def clear_only_on_roots(ctx):
    """Registrar.Clear binds Names/Counter on the class it is called on.  Called on a class that shares its root's registry (Framer,
    Logger, Server .. share Tasker's) it gives that class a registry of its own, which shadows the root's for good and which
    House.assignRegistries never switches: names are then unique per process, not per house, and not across the kinds that share"""
    ctx.rule("T4-clearroot", "every <Class>.Clear() in the package is called on a class that declares its own Names and Counter")
    reg = ctx.cls("registering", "Registrar")
    k = 0
    for m in ctx.repo.modules.values():
        if m.is_test:
            continue
        for x in ast.walk(m.tree):
            if isinstance(x, ast.Call) and isinstance(x.func, ast.Attribute) and x.func.attr == "Clear" and not x.args:
                c = ctx.repo.resolve_class_expr(m, x.func.value)
                if c is None or reg not in c.mro()[0]:
                    continue
                k += 1
                ctx.use(m.tree)
                ctx.check("Names" in c.class_attrs and "Counter" in c.class_attrs, "T4-clearroot", x, "%s is a namespace root" % src(x),
                          "%s has no Names/Counter of its own: Clear() creates them on it, cutting it off from the registry it shares "
                          "with %s - a Framer and a Tasker of the same name are then both accepted in one house" %
                          (c.name, next((b.name for b in c.mro()[0][1:] if "Names" in b.class_attrs), "its root")))
    ctx.floor("T4-clearroot:calls", k, 1)
