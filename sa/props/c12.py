"""C12 - cloned framers run like their originals and never share relative state."""
import ast

from ..model import AnchorError, call_name, const_str, dotted, src
from ..rules import FuncView, suffix_match
from . import _framing, _registry

EXPLANATION = (
    "Exhaustiveness over the act lists Frame.__init__ declares: each is cloned through its add method, "
    "resolved in Frame.resolve and reachable from addByContext; links (auxes, over, next_, unders, inode) are "
    "carried over; Framer.clone copies first/moots(deep)/inode and clones every frame after rebinding the "
    "registries; Act.clone refuses resolved links then deep-copies; clone names are surname_tag with tags unique "
    "in framer.auxes/moots and an existing name is refused; Razer only collects insular razeable auxes of the "
    "named frame; prune frees the name after force-exit; registry-binding rule for run-time registry access.")
NOT_DECIDED = ("trace equality of a clone with its original; distinctness of resolved store paths (string "
               "semantics of resolvePath, see C13)")


def check(ctx):
    state_shares_named_after_framer(ctx, "T9-statepath")
    from .c11 import implicit_need_relative
    ctx.rule("T6-relative", "implicit framer needs (timeout/repeat) use the framer-relative path framer.me.state.<name>")
    implicit_need_relative(ctx, "T6-relative")
    ctx.rule("T6-lists", "every *acts list of Frame.__init__ is cloned via its add method, resolved, and dispatched")
    ctx.rule("T3-clone", "Frame.clone/Framer.clone/Act.clone carry links and refuse resolved links")
    ctx.rule("T9-names", "clone name = '_'.join((surname, tag)); tag loops exit only on a free tag; duplicate name refused")
    ctx.rule("T1-raze", "Razer.action appends only under aux.insular and aux.razeable; prune frees the name")
    clone_lists(ctx, "T6-lists")
    fc = ctx.fn("framing", "Frame.clone")
    C = FuncView(ctx, fc)
    _rest(ctx, fc, C)


def clone_lists(ctx, rule, only=None):
    """every *acts list of Frame.__init__ is cloned via its add method, resolved, and dispatched (shared with C08 for the
    before-enter conditions: a cloned frame must keep its entry guards)"""
    fi = ctx.fn("framing", "Frame.__init__")
    lists = sorted({n.targets[0].attr for n in ast.walk(fi) if isinstance(n, ast.Assign) and isinstance(n.targets[0], ast.Attribute)
                    and dotted(n.targets[0].value) == "self" and n.targets[0].attr.endswith("acts") and isinstance(n.value, ast.List)})
    ctx.floor(rule + ":lists", len(lists), 7)
    fc = ctx.fn("framing", "Frame.clone")
    C = FuncView(ctx, fc)
    fr = ctx.fn("framing", "Frame.resolve")
    rtext = src(fr)
    ab = src(ctx.fn("framing", "Frame.addByContext"))
    F = ctx.cls("framing", "Frame")
    for L in lists:
        if only is not None and L not in only:
            continue
        adder = "add" + L[0].upper() + L[1:-1]   # beacts -> addBeact
        loops = _framing.loops_over(C, "self." + L)
        calls = _framing.call_in_loop(C, "self." + L, "clone." + adder)
        ok = bool(loops) and bool(calls)
        if ok:
            c = [c for n, c in C.calls("clone." + adder)][0]
            ok = len(c.args) == 1 and src(c.args[0]) == "act.clone()"
        ctx.check(ok, rule, fc, "Frame.clone: for act in self.%s: clone.%s(act.clone())" % (L, adder),
                  "the %s of a cloned frame would be missing or shared with the original" % L)
        ctx.check(adder in F.methods and ("self." + adder) in ab, rule, fc, "%s exists and is used by addByContext" % adder,
                  "actions of that context could not be added to a frame")
        ctx.check(("self." + L) in rtext, rule, fr, "Frame.resolve resolves self.%s" % L,
                  "acts in %s of a (cloned) frame would stay unresolved" % L)
        am = F.methods.get(adder)
        if am is not None:
            t = src(am)
            ctx.check(("self." + L + ".append(act)") in t and "act.frame" in t and "act.context" in t, rule, am,
                      "%s appends to self.%s and sets act.frame/act.context" % (adder, L), "the cloned act must be re-homed to the clone's frame")


def _rest(ctx, fc, C):
    for what, pat in (("auxes", "clone.addAux"), ("over", "clone.over"), ("next_", "clone.next_"), ("unders", "clone.unders.append")):
        n = C.call_nodes(pat) or C.stores(pat)
        ctx.check(bool(n), "T3-clone", fc, "Frame.clone carries %s" % what, "a cloned frame would lose its %s link" % what)
    cons = [c for n, c in C.calls("Frame")]
    ok = bool(cons) and {k.arg: src(k.value) for k in cons[0].keywords} == {"name": "self.name", "store": "self.store", "framer": "framer.name", "inode": "self.inode"}
    ctx.check(ok, "T3-clone", fc, "Frame(name=self.name, store=self.store, framer=framer.name, inode=self.inode)",
              "a cloned frame keeps its name and inode within the clone framer's own namespace")
    raises = [n for n in C.cfg.nodes if n.kind == "raise"]
    ctx.check(len(raises) >= 3, "T3-clone", fc, "Frame.clone refuses resolved over/next/under links (%d guards)" % len(raises),
              "cloning resolved links would share frames between original and clone")
    frc = ctx.fn("framing", "Framer.clone")
    R = FuncView(ctx, frc)
    ar = R.call_nodes("assignRegistries")
    ctx.check(bool(ar), "T9-names", frc, "Framer.clone binds its house's registries (assignRegistries()) before it looks names up",
              "clone() also runs at run time (Rearer) while another house's registries may be current: the duplicate-name test and "
              "the registration of the clone then use that other house's Framer.Names - the clone lands in the wrong house and "
              "nested clones are resolved against foreign moots")
    if not ar:
        return
    cons = R.need(R.call_nodes("Framer"), "Framer(...) in clone")
    dupt = R.tests(lambda t: src(t) == "name in Framer.Names")
    raises = [n for n in R.cfg.nodes if n.kind == "raise"]
    ok = R.dominated(cons + dupt, ar) and bool(dupt) and any(R.dominated_by_edge([r], dupt[0], "T") for r in raises) and R.dominated_by_edge(cons, dupt[0], "F")
    ctx.check(ok, "T9-names", frc, "Framer.clone: assignRegistries(); `name in Framer.Names` => CloneError; then Framer(...)",
              "a clone must not take an existing framer's name")
    asg = {src(n.targets[0]): src(n.value) for n in ast.walk(frc) if isinstance(n, ast.Assign)}
    ctx.check(asg.get("clone.first") == "self.first" and asg.get("clone.moots") == "copy.deepcopy(self.moots)" and asg.get("clone.inode") == "self.inode",
              "T3-clone", frc, "Framer.clone copies first, deep-copies moots, copies inode", "clones would share moot data with the original")
    afr = R.need(R.call_nodes("clone.assignFrameRegistry"), "clone.assignFrameRegistry()")
    fcl = R.need(_framing.call_in_loop(R, "self.frameNames.values", "frame.clone"), "frame.clone(framer=clone) for every frame")
    ctx.check(R.dominated(fcl, afr), "T3-clone", frc, "frames are cloned into the clone's own frame registry", "cloned frames would register in the original's namespace")
    ac = ctx.fn("acting", "Act.clone")
    A = FuncView(ctx, ac)
    raises = [n for n in A.cfg.nodes if n.kind == "raise"]
    dc = [n for n, c in A.calls(("copy.deepcopy", "deepcopy")) if c.args and dotted(c.args[0]) == "self"]
    ctx.check(bool(dc), "T3-clone", ac, "Act.clone deep-copies the act (copy.deepcopy(self))",
              "a shallow copy shares the nested acts in parms (the needs of a transition) between the original and every clone: the "
              "first clone to resolve binds them to its own relative shares and every later clone tests the first clone's state")
    if not dc:
        dc = A.call_nodes(("copy.copy", "copy.deepcopy")) or [n for n in A.cfg.nodes if n.kind == "return"]
    tests = A.tests(lambda t: True)
    ctx.check(len(raises) == 3 and all(any(A.dominated_by_edge(dc, t, "F") for t in tests if A.dominated_by_edge([r], t, "T")) for r in raises),
              "T3-clone", ac, "Act.clone: three resolved-link guards precede the deep copy", "a resolved act would be deep-copied together with the objects it links")
    _framing.act_clone_preserves_class(ctx, "T3-clone")
    rm = ctx.fn("framing", "Framer.resolveMoots")
    M = FuncView(ctx, rm)
    nm = [n for n in M.cfg.nodes if isinstance(n.ast, ast.Assign) and dotted(n.ast.targets[0]) == "name" and "join" in src(n.ast.value)]
    ctx.check(bool(nm) and src(nm[0].ast.value).replace(" ", "") == "'_'.join((self.surname,tag))", "T9-names", rm,
              "clone name = '_'.join((self.surname, tag))", "clone names are namespaced by the cloning framer's surname")
    tt = M.tests(lambda t: src(t) == "tag in self.auxes")
    raises = [n for n in M.cfg.nodes if n.kind == "raise"]
    cl = M.call_nodes("original.clone")
    ctx.check(bool(tt) and any(M.dominated_by_edge([r], tt[0], "T") for r in raises) and M.dominated_by_edge(cl, tt[0], "F"), "T9-names", rm,
              "`tag in self.auxes` => ResolveError before cloning", "clone tags are unique within a framer")
    for fname, table in (("newMootTag", "self.moots"), ("newAuxTag", "self.auxes")):
        f = ctx.fn("framing", "Framer." + fname)
        W = FuncView(ctx, f)
        wl = [n for n in W.cfg.nodes if n.kind == "test" and isinstance(n.ast, ast.While) and src(n.ast.test) == "tag in " + table]
        rets = [n for n in W.cfg.nodes if n.kind == "return"]
        ok = bool(wl) and bool(rets) and all(W.dominated_by_edge([r], wl[0], "F") and dotted(r.ast.value) == "tag" for r in rets)
        inc = [n for n in W.cfg.nodes if isinstance(n.ast, ast.AugAssign) and dotted(n.ast.target) == "count" and id(n.ast) in {id(x) for x in ast.walk(wl[0].ast)}] if wl else []
        ctx.check(ok and bool(inc), "T9-names", f, "%s returns a tag only when it is not in %s" % (fname, table), "generated tags never collide")
    ra = ctx.fn("acting", "Razer.action")
    Z = FuncView(ctx, ra)
    F_ = ctx.cls("framing", "Frame")

    def aux_filters(fn, depth=0):
        """conditions that select auxiliaries out of a frame's .auxes in fn (and in Frame helper methods it calls)"""
        out = []
        for n in ast.walk(fn):
            if isinstance(n, (ast.ListComp, ast.GeneratorExp)):
                for g in n.generators:
                    if "auxes" in src(g.iter):
                        out.append(" and ".join(sorted(src(i) for i in g.ifs)) if g.ifs else "<all>")
            elif isinstance(n, ast.For) and "auxes" in src(n.iter):
                conds = [src(t.test) for t in ast.walk(n) if isinstance(t, ast.If) and any(w in src(t.test) for w in ("insular", "razeable", "original"))]
                out.extend(" and ".join(sorted(c.split(" and "))) for c in conds)
            elif depth < 1 and isinstance(n, ast.Call) and isinstance(n.func, ast.Attribute) and n.func.attr in F_.methods \
                    and dotted(n.func.value) in ("frame", "self"):
                out.extend(aux_filters(F_.methods[n.func.attr], depth + 1))
        return out
    rf = aux_filters(ra)
    ctx.check(bool(rf) and all(f == "aux.insular and aux.razeable" for f in rf), "T1-raze", ra,
              "Razer selects auxes by `aux.insular and aux.razeable` (%d selection site(s): %s)" % (len(rf), sorted(set(rf))),
              "razing must remove only razeable insular clones of the named frame")
    ctx.check(any("frame.auxes" in src(n) or "frame." in src(n) for n in ast.walk(ra) if isinstance(n, (ast.For, ast.Call))), "T1-raze", ra,
              "candidates come from the named frame", "only clones of the named frame")
    pr = Z.need(_framing.call_in_loop(Z, "razeables", "aux.prune"), "aux.prune() for each razeable")
    rmv = Z.call_nodes("frame.auxes.remove")
    ctx.check(bool(rmv), "T1-raze", ra, "razed aux removed from frame.auxes (never runs again)", "a razed clone must not run again")
    pf = ctx.fn("framing", "Framer.prune")
    P = FuncView(ctx, pf)
    dl = [n for n in P.cfg.nodes if isinstance(n.ast, ast.Delete) and src(n.ast.targets[0]) == "Framer.Names[self.name]"]
    ex = P.call_nodes("self.exitAll")
    ctx.check(bool(dl) and bool(ex) and all(d.id in P.reach(ex[0]) for d in dl), "T1-raze", pf, "prune: force exit then del Framer.Names[self.name]",
              "the razed clone's name must become free")
    # which auxes of a frame are pruned: the selection condition, wherever it is written (comprehension filter, guard, continue)
    from ..rules import path_condition, formula_equiv, _atom
    pcalls = [(n, c) for n, c in P.attr_calls(("prune",)) if isinstance(c.func.value, ast.Name)]
    okp = bool(pcalls)
    seen_f = []
    for n, c in pcalls:
        var = c.func.value.id
        loops = [h for h in P.cfg.nodes if h.kind == "for" and id(n.ast) in {id(x) for x in ast.walk(h.ast)} and dotted(h.ast.target) == var]
        if not loops:
            okp = False
            continue
        h = max(loops, key=lambda x: getattr(x.ast, "lineno", 0))
        it = P.sym(h.ast.iter, h)
        if isinstance(it, ast.Call) and call_name(it) in ("list", "tuple") and it.args:
            it = it.args[0]
        conj = [path_condition(P, n, start=[b_ for b_, lab in P.cfg.succ[h.id] if lab == "iter"], by_value=False)]
        if isinstance(it, (ast.ListComp, ast.GeneratorExp)) and len(it.generators) == 1 and isinstance(it.generators[0].target, ast.Name):
            g = it.generators[0]
            base = src(g.iter)
            for cond in g.ifs:
                txt = src(cond)
                if g.target.id != var:
                    import re as _re
                    txt = _re.sub(r"\b%s\b" % g.target.id, var, txt)
                conj.append(_atom(ast.parse(txt, mode="eval").body))
        else:
            base = src(it)
        f_ = ("and", conj)
        seen_f.append(base)
        okp = okp and base == "frame.auxes" and formula_equiv(f_, "not %s.original" % var)
    ctx.check(okp, "T1-raze", pf,
              "prune recursively prunes every clone aux (insular or named) of every frame (over %s)" % sorted(set(seen_f)),
              "a razed clone must take all its own clones with it - `as mine` clones and named clones alike: each belongs to one "
              "frame of this framer and is registered as <this framer>_<tag>; one that survives keeps that name taken and the next "
              "rear of the same moot raises CloneError (statically declared `as mine` clones are insular but not razeable)")
    ctx.check(bool(_framing.call_in_loop(P, "prunables", "aux.prune")) or "aux.prune()" in src(pf), "T1-raze", pf, "prune recurses into nested clones", "")
    _registry.registry_binding(ctx)


def state_shares_named_after_framer(ctx, rule):
    """acts address a framer's clock/state shares as framer.me.state.<field>, and `me` resolves to the framer's *name*
    (clones: <surname>_<tag>): the shares the framer itself updates must be created under that same name"""
    ctx.rule(rule, "Framer.__init__ creates elapsed/recurred/active/human shares at 'framer.' + self.name + '.state.<field>' (by value)")
    f = ctx.cls("framing", "Framer").own_method("__init__")
    V = FuncView(ctx, f)
    k = 0
    for attr, field in (("self.elapsedShr", "elapsed"), ("self.recurredShr", "recurred"), ("self.activeShr", "active"), ("self.humanShr", "human")):
        st = [n for n in V.stores(attr)]
        ok = bool(st)
        for n in st:
            v = V.sym(n.ast.value, n)
            txt = src(v)
            k += 1
            reads = {src(x) for x in ast.walk(v) if isinstance(x, ast.Attribute) and isinstance(x.value, ast.Name) and x.value.id == "self"
                     and x.attr not in ("store",)}
            ok = ok and "create" in txt and field in txt and "self.name" in reads and not (reads - {"self.name", "self.store.create"} - {r for r in reads if r.startswith("self.store")})
        ctx.check(ok, rule, st[0].ast if st else f, "%s = store.create('framer.' + self.name + '.state.%s')" % (attr, field),
                  "a share created under the clone *tag* (or any other attribute) is not the one `framer.me.state.%s` resolves to: a clone "
                  "updates one share and tests another - its timeout never fires, and two clones with the same tag share their clocks" % field)
    ctx.floor(rule + ":shares", k, 4)
