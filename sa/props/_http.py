"""Shared rules for the HTTP parsing properties C29, C32, C33."""
import ast

from ..model import AnchorError, call_name, const_str, dotted, src, parent
from ..rules import FuncView, suffix_match
from ..callgraph import closure, FuncT

PARSE_FUNCS = ["parseLine", "parseLeader", "parseChunk", "parseBom", "parseStatusLine", "parseRequestLine"]


def parse_scope(ctx):
    """functions executed while parsing a message on either side"""
    repo = ctx.repo
    hm = repo.mod("aio.http.httping")
    hm.ns
    fns = [hm.funcs[n] for n in PARSE_FUNCS]
    P = repo.cls("aio.http.httping", "Parsent")
    R = repo.cls("aio.http.serving", "Requestant")
    S = repo.cls("aio.http.clienting", "Respondent")
    for c in (P, R, S):
        for m in ("parseHead", "parseBody", "parseMessage", "checkPersisted", "parse"):
            if m in c.methods:
                fns.append(c.methods[m])
    E = repo.cls("aio.http.httping", "EventSource")
    for m in ("parseEvents", "parseEventStream", "parse", "makeParser"):
        if m in E.methods:
            fns.append(E.methods[m])
    scope = closure(repo, fns, max_depth=2)
    for f in scope.values():
        ctx.functions.add(repo.func_qual(f))
        ctx.consulted.add(f._module.relpath)
    return scope


def exc_is_http(repo, module, name_expr):
    """is the raised class a subclass of httping.HTTPException"""
    b = repo.resolve_expr(module, name_expr)
    if b is not None and b.kind == "class":
        base = repo.cls("aio.http.httping", "HTTPException")
        return base in b.target.mro()[0]
    return False


def eol_selection(ctx, fname):
    """T9: the chosen end-of-line index is the minimum over all candidate delimiters"""
    f = ctx.fn("aio.http.httping", fname)
    V = FuncView(ctx, f)
    loops = [n for n in V.cfg.nodes if n.kind == "for" and dotted(n.ast.iter) == "eols"]
    V.need(loops, "loop over eols in %s" % fname)
    h = loops[0]
    body = h.ast
    finds = [n for n in ast.walk(body) if isinstance(n, ast.Call) and isinstance(n.func, ast.Attribute) and n.func.attr == "find"
             and dotted(n.func.value) == "raw"]
    breaks = [n for n in ast.walk(body) if isinstance(n, ast.Break)]
    # position-minimal selection: the stored index is updated only when the found position is smaller (strictly) than the best so far
    cmp_min = [n for n in ast.walk(body) if isinstance(n, ast.Compare) and any(isinstance(o, ast.Lt) for o in n.ops)]
    ok = bool(finds) and not breaks and bool(cmp_min)
    return f, h, ok, ("first delimiter kind found wins (break)" if breaks else "no minimum comparison")


def delete_discipline(ctx, rule):
    """T1: bytes are deleted from the buffer only after a complete unit was found"""
    for fname in ("parseLine", "parseLeader"):
        if fname != "parseLine" and delegates_to_parseLine(ctx, fname):
            ctx.ok(rule, ctx.fn("aio.http.httping", fname), "%s reads its lines through parseLine(raw, eols): parseLine's discipline applies" % fname)
            continue
        f = ctx.fn("aio.http.httping", fname)
        V = FuncView(ctx, f)
        dels = [n for n in V.cfg.nodes if isinstance(n.ast, ast.Delete) and src(n.ast.targets[0]).startswith("raw[")]
        V.need(dels, "del raw[:index] in %s" % fname)
        # the position variable is whatever the deletion is written with (`index`, `end`, ..)
        up0 = dels[0].ast.targets[0].slice.upper if isinstance(dels[0].ast.targets[0].slice, ast.Slice) else None
        pos = next((x.id for x in ast.walk(up0) if isinstance(x, ast.Name) and x.id not in ("len", "eol")), "index") if up0 is not None else "index"
        nf = V.tests(lambda t, pos=pos: src(t) == pos + " < 0")
        yn = [n for n in V.cfg.nodes if any(isinstance(x, ast.Yield) and (x.value is None or (isinstance(x.value, ast.Constant) and x.value.value is None))
                                            for x in V.cfg.walk_node(n))]
        ok = bool(nf) and all(V.dominated_by_edge([d], nf[0], "F") for d in dels) and bool(yn)
        if ok:
            # on the not-found branch nothing is deleted before the yield None
            tsucc = [b for b, lab in V.cfg.succ[nf[0].id] if lab == "T"]
            r = V.cfg.reachable(tsucc[0], removed_nodes=[y.id for y in yn])
            ok = not (r & {d.id for d in dels})
        for d in dels:
            # what is deleted is the line and its terminator: raw[:index] after `index += len(eol)`, or raw[:index + len(eol)]
            tgt = src(d.ast.targets[0]).replace(" ", "")
            bumped = [n for n in V.cfg.nodes if isinstance(n.ast, ast.AugAssign) and dotted(n.ast.target) == pos and V.dominated([d], [n])]
            ok = ok and ((tgt == "raw[:%s]" % pos and bool(bumped)) or tgt in ("raw[:%s+len(eol)]" % pos, "raw[:len(eol)+%s]" % pos))
        ctx.check(ok, rule, f, "%s: del raw[:index] only after an end of line was found; `yield None` leaves the buffer untouched" % fname,
                  "an incomplete line must stay in the buffer until the rest arrives, otherwise a message split at that point parses "
                  "differently from the whole message")
    f = ctx.fn("aio.http.httping", "parseChunk")
    V = FuncView(ctx, f)
    # (other prefixes deleted in parseChunk are covered by the wait-before-read rule)
    dels = [n for n in V.cfg.nodes if isinstance(n.ast, ast.Delete) and src(n.ast.targets[0]) == "raw[:size]"]
    w = [n for n in V.cfg.nodes if n.kind == "test" and isinstance(n.ast, ast.While) and src(n.ast.test) == "len(raw) < size"]
    ok = bool(dels) and bool(w) and all(V.dominated_by_edge([d], w[0], "F") for d in dels)
    st = [n for n in V.cfg.nodes if isinstance(n.ast, ast.Assign) and dotted(n.ast.targets[0]) == "chunk" and src(n.ast.value) == "raw[:size]"]
    ok = ok and bool(st) and V.dominated(dels, st)
    ctx.check(ok, rule, f, "parseChunk: chunk = raw[:size]; del raw[:size] only once len(raw) >= size", "a partially received chunk must not be consumed")
    f = ctx.fn("aio.http.httping", "parseBom")
    V = FuncView(ctx, f)
    dels = [n for n in V.cfg.nodes if isinstance(n.ast, ast.Delete)]
    t1 = V.tests(lambda t: src(t) == "len(raw) >= size")
    t2 = V.tests(lambda t: src(t) == "raw[:size] == bom")
    ctx.check(bool(dels) and bool(t1) and bool(t2) and all(V.dominated_by_edge([d], t1[0], "T") and V.dominated_by_edge([d], t2[0], "T") for d in dels),
              rule, f, "parseBom deletes only a complete, matching BOM", "")
    for modn, cn in (("aio.http.serving", "Requestant"), ("aio.http.clienting", "Respondent")):
        f = ctx.cls(modn, cn).own_method("parseBody")
        V = FuncView(ctx, f)
        w = [n for n in V.cfg.nodes if n.kind == "test" and isinstance(n.ast, ast.While) and src(n.ast.test) == "len(self.msg) < self.length"]
        st = [n for n in V.cfg.nodes if isinstance(n.ast, ast.Assign) and dotted(n.ast.targets[0]) == "self.body" and src(n.ast.value) == "self.msg[:self.length]"]
        dl = [n for n in V.cfg.nodes if isinstance(n.ast, ast.Delete) and src(n.ast.targets[0]) == "self.msg[:self.length]"]
        ok = bool(w) and len(st) == 1 and len(dl) == 1 and V.dominated_by_edge(st + dl, w[0], "F") and V.dominated(dl, st)
        ctx.check(ok, rule, f, "%s.parseBody (fixed length): body = msg[:length]; del msg[:length] once len(msg) >= length" % cn,
                  "a fixed-length body must consume exactly content-length bytes so that bytes after the message stay for the next one")


BUFFERS = ("raw", "self.msg", "self.raw")


def scan_offsets(ctx, rule):
    """T1-scan: a delimiter search over the receive buffer covers the whole unconsumed buffer.
    `raw.find(eol)` searches from the front.  A resume offset `raw.find(eol, s)` is accepted only if
    (a) every assignment to s is the constant 0 or `max(0, len(raw) - K)` with K >= longest delimiter - 1
        (a delimiter straddling two receives is still seen), and
    (b) after every `del raw[...]` no find is reachable without passing an `s = 0` (offsets do not survive consumption)."""
    hm = ctx.repo.mod("aio.http.httping")
    consts = {}
    for n in hm.tree.body:
        if isinstance(n, ast.Assign) and isinstance(n.value, ast.Constant) and isinstance(n.value.value, bytes):
            for t in n.targets:
                if isinstance(t, ast.Name):
                    consts[t.id] = n.value.value
    n_find = 0
    for fname in PARSE_FUNCS:
        f = ctx.fn("aio.http.httping", fname)
        V = FuncView(ctx, f)
        finds = []
        for nd in V.cfg.nodes:
            for x in V.cfg.walk_node(nd):
                if isinstance(x, ast.Call) and isinstance(x.func, ast.Attribute) and x.func.attr in ("find", "index", "rfind", "partition", "split") \
                        and src(x.func.value) in BUFFERS:
                    finds.append((nd, x))
        for nd, call in finds:
            n_find += 1
            extra = call.args[1:] + [k.value for k in call.keywords]
            if call.func.attr not in ("find", "index", "rfind") or not extra:
                ctx.ok(rule, call, "%s: %s searches the whole buffer" % (fname, src(call)))
                continue
            if len(extra) > 1 or not isinstance(extra[0], ast.Name):
                ctx.bad(rule, call, "%s: %s" % (fname, src(call)), "delimiter search restricted to part of the receive buffer by a non-trivial range")
                continue
            s = extra[0].id
            buf = src(call.func.value)
            # longest delimiter the function may be asked to find: default of the eols parameter / literal argument
            longest = 1
            for a, dflt in zip(reversed(f.args.args), reversed(f.args.defaults)):
                if isinstance(dflt, ast.Tuple):
                    for e in dflt.elts:
                        v = consts.get(e.id) if isinstance(e, ast.Name) else (e.value if isinstance(e, ast.Constant) else None)
                        if isinstance(v, bytes):
                            longest = max(longest, len(v))
            if isinstance(call.args[0], ast.Constant) and isinstance(call.args[0].value, bytes):
                longest = max(longest, len(call.args[0].value))
            why = []
            asg = [n for n in V.cfg.nodes if isinstance(n.ast, (ast.Assign, ast.AugAssign)) and
                   any(dotted(t) == s for t in (n.ast.targets if isinstance(n.ast, ast.Assign) else [n.ast.target]))]
            zero = []
            for a in asg:
                v = a.ast.value if isinstance(a.ast, ast.Assign) else None
                if isinstance(v, ast.Constant) and v.value == 0:
                    zero.append(a)
                    continue
                k = None
                if isinstance(v, ast.Call) and call_name(v) == "max" and len(v.args) == 2:
                    parts = sorted(v.args, key=lambda e: isinstance(e, ast.Constant), reverse=True)
                    if isinstance(parts[0], ast.Constant) and parts[0].value == 0 and isinstance(parts[1], ast.BinOp) and \
                            isinstance(parts[1].op, ast.Sub) and src(parts[1].left) == "len(%s)" % buf and isinstance(parts[1].right, ast.Constant):
                        k = parts[1].right.value
                if k is None or k < longest - 1:
                    why.append("`%s` resumes the search %s; a delimiter of %d bytes that straddles two receives is never matched"
                               % (src(a.ast), "at an offset that is not backed up by (longest delimiter - 1)", longest))
            dels = [n for n in V.cfg.nodes if isinstance(n.ast, ast.Delete) and any(src(t).startswith(buf + "[") for t in n.ast.targets)]
            for d in dels:
                r = V.cfg.reachable(d.id, removed_nodes=[z.id for z in zero])
                if nd.id in (r - {d.id}) or (nd.id == d.id):
                    why.append("after `%s` the search offset `%s` is not reset to 0 before the next find: end-of-lines that moved to the "
                               "front of the buffer are skipped" % (src(d.ast), s))
                    break
            ctx.check(not why, rule, call, "%s: %s resume offset is reset on consumption and backs up over a straddling delimiter" % (fname, src(call)),
                      "; ".join(why))
    ctx.floor(rule + ":searches", n_find, 1 if delegates_to_parseLine(ctx, "parseLeader") else 2)


def wait_before_read(ctx, rule):
    """T1-wait: a prefix of the receive buffer is read (sliced, compared, deleted) only after the parser established that the
    buffer holds that many bytes: while len(buf) < K: yield None / if len(buf) >= K / K is a found delimiter index (>= 0)."""
    sites = 0
    targets = [("aio.http.httping", None, n) for n in PARSE_FUNCS]
    targets += [("aio.http.serving", "Requestant", "parseBody"), ("aio.http.clienting", "Respondent", "parseBody")]
    for modn, cn, fname in targets:
        f = ctx.fn(modn, fname) if cn is None else ctx.cls(modn, cn).own_method(fname)
        V = FuncView(ctx, f)
        for nd in V.cfg.nodes:
            for x in V.cfg.walk_node(nd):
                if not (isinstance(x, ast.Subscript) and src(x.value) in BUFFERS):
                    continue
                sl = x.slice
                if isinstance(sl, ast.Slice):
                    if sl.upper is None:
                        continue                      # whole remaining buffer (read-until-close)
                    if isinstance(sl.upper, ast.Constant) and sl.upper.value == 0:
                        continue                      # empty slice
                    k = src(sl.upper)
                else:
                    k = src(sl)
                buf = src(x.value)
                sites += 1
                fs = V.facts(nd)
                ok = ("len(%s) >= %s" % (buf, k)) in fs
                if not ok and ("%s >= 0" % k) in fs:
                    # K is a delimiter position found in the buffer
                    ok = any(isinstance(a.ast, ast.Assign) and any(isinstance(t_, ast.Name) and t_.id == k
                                                                   for tg in a.ast.targets for t_ in ast.walk(tg)) for a in V.cfg.nodes)
                if not ok:
                    up = sl.upper if isinstance(sl, ast.Slice) else sl
                    if isinstance(up, ast.BinOp) and isinstance(up.op, ast.Add) and isinstance(up.left, ast.Name) and \
                            isinstance(up.right, ast.Call) and call_name(up.right) == "len":
                        # delimiter position + delimiter length: the delimiter was found in the buffer at that position
                        ok = ("%s >= 0" % up.left.id) in fs
                ctx.check(ok, rule, x, "%s: %s read only after the buffer is known to hold %s bytes" % (fname, src(x), k),
                          "a short buffer silently yields a short slice: when the receive boundary falls inside these bytes the parser acts on a "
                          "partial unit instead of yielding None for more")
    ctx.floor(rule + ":reads", sites, 9)


REVIEWED_DECODE = {
    ("EventSource.parseEventStream", "bom.decode('UTF-8')"): "bom is what parseBom yields: codecs.BOM_UTF8 itself or an empty slice, both valid UTF-8",
    ("Parsent.dictify", "self.body.decode('utf-8')"): "inside try/except ValueError (UnicodeDecodeError is a ValueError)",
}


def generator_typestate(ctx, rule, scope):
    """T-gen: a generator that was closed is not resumed.  After `g.close()` no `next(g)` is reachable without a new
    assignment to g (next() on a closed generator raises StopIteration, which becomes RuntimeError inside a generator)."""
    n = 0
    for q, f in sorted(scope.items()):
        if "/aio/http/" not in q:
            continue
        closes = [c for c in ast.walk(f) if isinstance(c, ast.Call) and isinstance(c.func, ast.Attribute) and c.func.attr == "close"
                  and isinstance(c.func.value, ast.Name) and not c.args]
        if not closes:
            continue
        V = FuncView(ctx, f)
        for c in closes:
            g = c.func.value.id
            nexts = [nd for nd in V.cfg.nodes if any(isinstance(x, ast.Call) and call_name(x) == "next" and x.args and dotted(x.args[0]) == g
                                                     for x in V.cfg.walk_node(nd))]
            if not nexts:
                continue
            n += 1
            cn = [nd for nd in V.cfg.nodes if any(x is c for x in V.cfg.walk_node(nd))]
            asg = [nd.id for nd in V.cfg.nodes if isinstance(nd.ast, ast.Assign) and any(dotted(t) == g for t in nd.ast.targets)]
            bad = None
            for k in cn:
                r = set()
                for b, _ in V.cfg.succ[k.id]:
                    r |= V.cfg.reachable(b, removed_nodes=asg) if b not in asg else set()
                hit = [x for x in nexts if x.id in r]
                if hit:
                    bad = hit[0]
            ctx.check(bad is None, rule, c, "%s: %s.close() is never followed by next(%s) without a new generator" % (q.split(":")[1], g, g),
                      "next(%s) at line %s is reachable after %s.close(): StopIteration from a closed generator (RuntimeError inside the "
                      "enclosing generator) instead of parsing the following line" % (g, getattr(bad.ast, "lineno", "?") if bad else "?", g))
    return n


def generator_resume(ctx, rule, scope):
    """T-resume: a resumable parser generator that reported "more to receive" (yield None) is the one resumed after the
    wait.  For every next(g) where g holds a fresh call of a generator function: no wait (yield) reachable from that next()
    may be forced through the creation of a new generator before the next next() - a fresh generator starts from scratch
    and everything the old one had already consumed from the buffer (header lines, chunk state) is lost."""
    gens = set()
    for m in ctx.repo.modules.values():
        if m.is_test or "/aio/http/" not in m.relpath:
            continue
        for fn in ast.walk(m.tree):
            if isinstance(fn, ast.FunctionDef) and any(isinstance(y, (ast.Yield, ast.YieldFrom)) for y in ast.walk(fn)):
                gens.add(fn.name)
    n = 0
    for q, f in sorted(scope.items()):
        if "/aio/http/" not in q or not any(isinstance(c, ast.Call) and call_name(c) == "next" for c in ast.walk(f)):
            continue
        V = FuncView(ctx, f)
        cfg = V.cfg
        ys = [nd for nd in cfg.nodes if any(isinstance(x, ast.Yield) for x in cfg.walk_node(nd))]
        for nd in cfg.nodes:
            for c in cfg.walk_node(nd):
                if not (isinstance(c, ast.Call) and call_name(c) == "next" and c.args):
                    continue
                a = c.args[0]
                if isinstance(a, ast.Call):
                    made, creators = a, {nd.id}
                elif isinstance(a, ast.Name):
                    defs, _ = V.reaching_defs(nd, a.id)
                    dn = [cfg.nodes[d] for d in defs]
                    vals = [d.ast.value for d in dn if isinstance(d.ast, ast.Assign) and isinstance(d.ast.value, ast.Call)]
                    if len(vals) != len(dn) or not vals:
                        continue
                    made, creators = vals[0], set(defs)
                else:
                    continue
                name = (call_name(made) or "").split(".")[-1]
                if name not in gens:
                    continue
                n += 1
                # waits of *this* generator: reached from its next() without driving another parser or closing it first
                others = [x.id for x in cfg.nodes if x.id != nd.id and any(
                    isinstance(z, ast.Call) and (call_name(z) == "next" or (isinstance(z.func, ast.Attribute) and z.func.attr == "close"
                                                                            and isinstance(a, ast.Name) and dotted(z.func.value) == a.id))
                    for z in cfg.walk_node(x))]
                after = cfg.reachable(nd.id, removed_nodes=others)
                bad = None
                for y in ys:
                    if y.id not in after or nd.id not in cfg.reachable(y.id):
                        continue
                    if nd.id in creators or nd.id not in cfg.reachable(y.id, removed_nodes=list(creators - {y.id})):
                        bad = y
                        break
                ctx.check(bad is None, rule, c, "%s: %s resumes the generator that waited, not a new %s()" % (q.split(":")[1], src(c)[:50], name),
                          "after `yield None` (more bytes needed) every way back to this next() creates a new %s generator: the lines, "
                          "header fields or chunk state the previous one had already taken from the buffer are lost when the unit "
                          "arrives in more than one receive" % name)
    return n


_BA_KEEP = {"strip", "lstrip", "rstrip", "partition", "rpartition", "split", "rsplit", "splitlines", "lower", "upper", "replace",
            "title", "capitalize", "swapcase", "expandtabs", "center", "ljust", "rjust", "zfill", "copy", "translate"}


def bytearray_keys(ctx, rule, scope):
    """D-bakey: slices of the receive buffer are bytearrays (unhashable).  Values derived from them by bytearray-preserving
    methods (strip/partition/split/...) must not be used as mapping keys or set members unless converted (bytes(..)/.decode(..))."""
    hm = ctx.repo.mod("aio.http.httping")
    hm.ns
    # generator functions that yield a buffer slice
    yielders = set()
    views = {}

    def view(f):
        if id(f) not in views:
            views[id(f)] = FuncView(ctx, f)
        return views[id(f)]

    def tainted(V, e, at, depth=0, gens=None):
        """is expression e (evaluated at cfg node `at`) a bytearray derived from the buffer"""
        if depth > 24:
            return False
        if isinstance(e, ast.Subscript):
            if src(e.value) in BUFFERS and isinstance(e.slice, ast.Slice):
                return True
            return tainted(V, e.value, at, depth + 1)        # element/slice of a tainted sequence (tuple from partition, list from split)
        if isinstance(e, ast.Call):
            if isinstance(e.func, ast.Attribute) and e.func.attr in _BA_KEEP:
                return tainted(V, e.func.value, at, depth + 1)
            if call_name(e) == "next" and e.args and isinstance(e.args[0], ast.Name):
                g = e.args[0].id
                defs, _ = V.reaching_defs(at, g)
                for d in defs:
                    a = V.cfg.nodes[d].ast
                    if isinstance(a, ast.Assign) and isinstance(a.value, ast.Call) and (call_name(a.value) or "").split(".")[-1] in yielders:
                        return True
            return False
        if isinstance(e, ast.Name):
            defs, _ = V.reaching_defs(at, e.id)
            for d in defs:
                nd = V.cfg.nodes[d]
                a = nd.ast
                if isinstance(a, ast.Assign):
                    for t in a.targets:
                        if isinstance(t, ast.Name) and t.id == e.id and tainted(V, a.value, nd, depth + 1):
                            return True
                        if isinstance(t, ast.Tuple) and any(isinstance(x, ast.Name) and x.id == e.id for x in t.elts) and \
                                tainted(V, a.value, nd, depth + 1):
                            return True
                elif nd.kind == "for" and isinstance(a, ast.For):
                    if any(isinstance(x, ast.Name) and x.id == e.id for x in ast.walk(a.target)) and tainted(V, a.iter, nd, depth + 1):
                        return True
            return False
        if isinstance(e, (ast.BoolOp,)):
            return any(tainted(V, v, at, depth + 1) for v in e.values)
        if isinstance(e, ast.IfExp):
            return tainted(V, e.body, at, depth + 1) or tainted(V, e.orelse, at, depth + 1)
        return False

    for name in PARSE_FUNCS:
        f = hm.funcs[name]
        V = view(f)
        for nd in V.cfg.nodes:
            for x in V.cfg.walk_node(nd):
                if isinstance(x, ast.Yield) and x.value is not None and tainted(V, x.value, nd):
                    yielders.add(name)
    if "parseLine" not in yielders:
        raise AnchorError("parseLine no longer yields a slice of the receive buffer; the bytearray-key rule needs re-reading")
    n = 0
    for q, f in sorted(scope.items()):
        if "/aio/http/" not in q:
            continue
        V = view(f)
        for nd in V.cfg.nodes:
            for x in V.cfg.walk_node(nd):
                key = None
                if isinstance(x, ast.Subscript) and isinstance(x.ctx, ast.Store) and not isinstance(x.slice, ast.Slice) and src(x.value) not in BUFFERS:
                    key = x.slice
                elif isinstance(x, ast.Call) and isinstance(x.func, ast.Attribute) and x.func.attr in ("add", "setdefault", "get", "pop") and x.args \
                        and x.func.attr != "pop":
                    key = x.args[0]
                elif isinstance(x, ast.Compare) and len(x.ops) == 1 and isinstance(x.ops[0], (ast.In, ast.NotIn)) and \
                        isinstance(x.comparators[0], (ast.Name, ast.Attribute)) and src(x.comparators[0]).split(".")[-1] in ("headers", "parms", "trails"):
                    key = x.left
                if key is None or isinstance(key, ast.Constant):
                    continue
                n += 1
                t = tainted(V, key, nd)
                ctx.check(not t, rule, x, "%s: key %s of %s is hashable" % (q.split(":")[1], src(key), src(x)[:60]),
                          "%s is a bytearray derived from the receive buffer (slice/strip/partition keep the type); bytearray is "
                          "unhashable, so this raises TypeError for well-formed input that takes this path" % src(key))
    return n


def value_errors(ctx, rule, scope):
    """D-valueerr: stdlib calls that raise ValueError on malformed text (int, float, urlsplit and the .port of its result)
    are applied to received text only inside a try that handles ValueError."""
    n = 0

    def handled(c, f):
        p, child = parent(c), c
        while p is not None and p is not f:
            if isinstance(p, ast.Try) and any(child is s2 for s2 in p.body):
                for h in p.handlers:
                    names = [] if h.type is None else [dotted(e) for e in (h.type.elts if isinstance(h.type, ast.Tuple) else [h.type])]
                    if h.type is None or set(names) & {"ValueError", "Exception"}:
                        return True
            child, p = p, parent(p)
        return False
    for q, f in sorted(scope.items()):
        if "/aio/http/" not in q:
            continue
        split_names = set()
        for c in ast.walk(f):
            if isinstance(c, ast.Call) and call_name(c) in ("urlsplit", "urlparse") and c.args and not isinstance(c.args[0], ast.Constant):
                n += 1
                a = parent(c)
                if isinstance(a, ast.Assign):
                    split_names |= {t.id for t in a.targets if isinstance(t, ast.Name)}
                ctx.check(handled(c, f), rule, c, "%s: %s" % (q.split(":")[1], src(c)),
                          "urlsplit raises ValueError for a malformed bracketed host in received text; it is not an HTTPException, so it escapes "
                          "Parsent.parseMessage and the service loop")
        for c in ast.walk(f):
            if isinstance(c, ast.Attribute) and c.attr == "port" and isinstance(c.value, ast.Name) and c.value.id in split_names:
                n += 1
                ctx.check(handled(c, f), rule, c, "%s: %s" % (q.split(":")[1], src(c)),
                          "SplitResult.port raises ValueError for a non-numeric or out-of-range port in received text")
    return n


def decode_discipline(ctx, rule, scope):
    """D-decode: received bytes are decoded with a total codec (iso-8859-1 / latin-1 decode every byte string) or inside a
    try that handles the decode error (UnicodeDecodeError is a ValueError)."""
    total = {"iso-8859-1", "latin-1", "latin1", "iso8859-1"}
    n = 0
    for q, f in sorted(scope.items()):
        if "/aio/http/" not in q:
            continue
        for c in ast.walk(f):
            if not (isinstance(c, ast.Call) and isinstance(c.func, ast.Attribute) and c.func.attr == "decode"):
                continue
            n += 1
            codec = const_str(c.args[0]) if c.args else (const_str(c.keywords[0].value) if c.keywords else "utf-8")
            if codec is not None and codec.lower() in total:
                ctx.ok(rule, c, "%s: %s (total codec)" % (q.split(":")[1], src(c)))
                continue
            errs = const_str(c.args[1]) if len(c.args) > 1 else next((const_str(k.value) for k in c.keywords if k.arg == "errors"), None)
            if errs in ("replace", "ignore", "backslashreplace", "surrogateescape"):
                ctx.ok(rule, c, "%s: %s (error handler %s never raises)" % (q.split(":")[1], src(c), errs))
                continue
            rk = (q.split(":")[1], src(c))
            if rk in REVIEWED_DECODE:
                ctx.ok(rule, c, "reviewed: %s %s - %s" % (rk[0], rk[1], REVIEWED_DECODE[rk]))
                continue
            handled = False
            p, child = parent(c), c
            while p is not None and p is not f:
                if isinstance(p, ast.Try) and any(child is s or child in ast.walk(s) for s in p.body):
                    for h in p.handlers:
                        names = [] if h.type is None else [dotted(e) for e in (h.type.elts if isinstance(h.type, ast.Tuple) else [h.type])]
                        if h.type is None or set(names) & {"ValueError", "UnicodeDecodeError", "UnicodeError", "Exception"}:
                            handled = True
                child, p = p, parent(p)
            ctx.check(handled, rule, c, "%s: %s" % (q.split(":")[1], src(c)),
                      "decoding received bytes as %s raises UnicodeDecodeError for bytes outside that encoding; it is not an HTTPException, "
                      "so it escapes the per-connection handlers" % codec)
    return n


def fixed_arity_unpacks(ctx, rule, scope):
    """a tuple-unpack of str.split(sep, n) is a ValueError when the separator is absent, unless guarded by `sep in x`"""
    n = 0
    for q, f in scope.items():
        for a in ast.walk(f):
            if isinstance(a, ast.Assign) and isinstance(a.targets[0], ast.Tuple) and isinstance(a.value, ast.Call) and \
                    isinstance(a.value.func, ast.Attribute) and a.value.func.attr in ("split", "rsplit") and a.value.args:
                n += 1
                sep = a.value.args[0]
                recv = src(a.value.func.value)
                guarded = False
                p = parent(a)
                while p is not None and p is not f:
                    if isinstance(p, ast.If) and isinstance(p.test, ast.Compare) and isinstance(p.test.ops[0], ast.In) and \
                            src(p.test.left) == src(sep) and src(p.test.comparators[0]) == recv and a in list(ast.walk(p))[1:] and \
                            any(a in list(ast.walk(s)) for s in p.body):
                        guarded = True
                    p = parent(p)
                ctx.check(guarded, rule, a, "%s: %s" % (q.split(":")[1], src(a)),
                          "unpacking %s.split(%s, ..) into a fixed number of names raises ValueError when the separator is absent from "
                          "the received text" % (recv, src(sep)))
    return n


CONSUMERS = {   # the only functions that take bytes off a receive buffer, each judged by its own T1-consume/T1-wait instance
    "parseLine": "del raw[:index] after an end of line was found",
    "parseLeader": "del raw[:index] after an end of line was found",
    "parseChunk": "del raw[:size] once the chunk is complete",
    "parseBom": "del raw[:size] for a complete, matching BOM",
    "Respondent.parseBody": "fixed-length body / read-until-close body",
    "Requestant.parseBody": "fixed-length body",
    "EventSource.parseEvents": "drops the LF of a CRLF that was split across two receives (judged by C33 T9-crlf)",
}


def buffer_consumers(ctx, rule):
    """T4: who may remove bytes from the receive buffers (raw / self.raw / self.msg): only the parser primitives, whose
    deletions are tied to a completed unit.  A deletion anywhere else (an event loop dropping a byte it believes to be the
    second half of a CRLF, a service routine trimming the buffer) is decided on state the primitives do not see."""
    k = 0
    for modn in ("aio.http.httping", "aio.http.clienting", "aio.http.serving"):
        m = ctx.repo.mod(modn)
        ctx.consulted.add(m.relpath)
        for holder, prefix in [(m.tree, "")] + [(c, c.name + ".") for c in m.tree.body if isinstance(c, ast.ClassDef)]:
            for fn in [x for x in holder.body if isinstance(x, ast.FunctionDef)]:
                sites = []
                for x in ast.walk(fn):
                    if isinstance(x, ast.Delete):
                        sites += [t for t in x.targets if isinstance(t, ast.Subscript) and src(t.value) in BUFFERS]
                    elif isinstance(x, ast.Call) and isinstance(x.func, ast.Attribute) and x.func.attr in ("pop", "clear", "remove") and \
                            src(x.func.value) in BUFFERS:
                        sites.append(x)
                    elif isinstance(x, ast.Subscript) and isinstance(x.ctx, ast.Store) and isinstance(x.slice, ast.Slice) and src(x.value) in BUFFERS:
                        sites.append(x)
                for sx in sites:
                    k += 1
                    q = prefix + fn.name
                    if q == "EventSource.parseEvents":
                        # one reviewed site only: the LF of a CRLF split across two receives (C33 T9-crlf judges its condition)
                        txt = src(sx).replace(" ", "")
                        ctx.check(txt in ("self.raw[:1]", "self.raw[0]", "self.raw[0:1]"), rule, sx,
                                  "EventSource.parseEvents removes %s" % src(sx)[:40],
                                  "the event parser may drop exactly one byte, the LF of a split CRLF; anything else it deletes (a partial "
                                  "comment line while waiting, ..) changes what the line parser sees when the rest arrives")
                        continue
                    ctx.check(q in CONSUMERS, rule, sx, "%s removes bytes from %s: %s" % (q, src(sx.value if isinstance(sx, ast.Subscript) else sx.func.value), src(sx)[:40]),
                              "bytes leave the receive buffer outside the parser primitives: whether they belong to the next unit "
                              "depends on how the stream was cut into receives (a byte dropped as `the LF of a split CRLF` long after "
                              "that CR, a trimmed prefix), so the same stream parses differently for different splits")
    return k


def driver_resumes_every_call(ctx, rule):
    """Parsent.parse / EventSource.parse are called once per service pass: whenever a parser exists it is resumed - the generator
    itself decides whether the buffer holds enough to go on.  A driver that second-guesses it (same size as last time, no new
    receive flagged) skips the resume in which the buffered bytes would have been consumed."""
    from ..rules import path_condition, formula_equiv
    ctx.rule(rule, "Parsent.parse / EventSource.parse: next(self.parser) runs exactly when self.parser is set")
    for cn in ("Parsent", "EventSource"):
        f = ctx.cls("http.httping", cn).own_method("parse")
        V = FuncView(ctx, f)
        nx = [n for n, c in V.calls("next") if c.args and src(V.sym(c.args[0], n)) == "self.parser"]
        ok = len(nx) == 1 and formula_equiv(path_condition(V, nx[0]), "self.parser")
        ctx.check(ok, rule, f, "%s.parse: if self.parser: next(self.parser)" % cn,
                  "the amount of buffered data is no measure of progress: a pass that consumed c bytes followed by a receive of "
                  "exactly c bytes looks unchanged; skipping the resume then leaves a complete message unparsed for good")


def last_chunk_consumes_terminator(ctx, rule):
    """the chunked body ends `0 CRLF *(trailer CRLF) CRLF`: after the last-chunk line the trailer section - down to and including
    the empty line - is always read (parseLeader consumes it), trailers or not"""
    ctx.rule(rule, "parseChunk: on size == 0 every path to the result passes next(<parseLeader generator>)")
    f = ctx.fn("aio.http.httping", "parseChunk")
    V = FuncView(ctx, f)
    cfg = V.cfg
    zt = [(t, lab) for t, lab in V.ptests(lambda t: isinstance(t, ast.Compare) and len(t.ops) == 1 and isinstance(t.ops[0], ast.Eq) and
                                          {src(t.left), src(t.comparators[0])} == {"size", "0"})]
    if not zt:
        zt = [(t, lab) for t, lab in V.ptests(lambda t: src(t) == "size")]
        zt = [(t, "F" if lab == "T" else "T") for t, lab in zt]
    V.need(zt, "`size == 0` test in parseChunk")
    t, lab = zt[0]
    start = [b for b, l in cfg.succ[t.id] if l == lab]
    nexts = []
    for n, c in V.calls("next"):
        if c.args and src(V.sym(c.args[0], n)).startswith("parseLeader("):
            nexts.append(n)
    results = [n for n in cfg.nodes if any(isinstance(x, ast.Yield) and isinstance(x.value, ast.Tuple) for x in cfg.walk_node(n))]
    V.need(results, "yield (size, parms, trails, chunk)")
    ok = bool(nexts) and bool(start) and cfg.must_pass(V.ids(results), V.ids(nexts), start=start[0])
    ctx.check(ok, rule, f, "parseChunk: the last chunk always runs the trailer parser (which consumes the closing empty line)",
              "if the trailer section is only parsed when a trailer line follows, the empty line that ends the chunked body stays in "
              "the buffer: on a keep-alive connection it is read as the start of the next message, which is then rejected or shifted")


def delegates_to_parseLine(ctx, fname):
    """does `fname` read its lines through a parseLine(raw=<its raw>, eols=<its eols>) generator and never touch the buffer
    itself?  Then line selection and consumption are parseLine's (checked there) and the rules on fname's own search loop and
    deletion have nothing to look at."""
    f = ctx.fn("aio.http.httping", fname)
    calls = [c for c in ast.walk(f) if isinstance(c, ast.Call) and (call_name(c) or "").split(".")[-1] == "parseLine"]
    if not calls:
        return False
    params = [a.arg for a in f.args.args]
    for c in calls:
        kw = {k.arg: src(k.value) for k in c.keywords}
        pos = [src(a) for a in c.args]
        raw = kw.get("raw", pos[0] if pos else None)
        eols = kw.get("eols", pos[1] if len(pos) > 1 else None)
        if raw != "raw" or eols != "eols" or "raw" not in params or "eols" not in params:
            return False
    touches = [x for x in ast.walk(f) if isinstance(x, ast.Name) and x.id == "raw" and not any(x in ast.walk(c) for c in calls)]
    return not touches
