"""Shared rules for the HTTP parsing properties C29, C32, C33."""
import ast

from ..model import AnchorError, call_name, const_str, dotted, src, parent
from ..rules import FuncView, suffix_match
from ..callgraph import closure, FuncT

PARSE_FUNCS = ["parseLine", "parseLeader", "parseChunk", "parseBom", "parseStatusLine", "parseRequestLine"]


def parse_scope(ctx):
    """functions executed while parsing a message on either side"""
    repo = ctx.repo
    hm = repo.mod("aio.http.httping")
    hm.ns
    fns = [hm.funcs[n] for n in PARSE_FUNCS]
    P = repo.cls("aio.http.httping", "Parsent")
    R = repo.cls("aio.http.serving", "Requestant")
    S = repo.cls("aio.http.clienting", "Respondent")
    for c in (P, R, S):
        for m in ("parseHead", "parseBody", "parseMessage", "checkPersisted", "parse"):
            if m in c.methods:
                fns.append(c.methods[m])
    E = repo.cls("aio.http.httping", "EventSource")
    for m in ("parseEvents", "parseEventStream", "parse", "makeParser"):
        if m in E.methods:
            fns.append(E.methods[m])
    scope = closure(repo, fns, max_depth=2)
    for f in scope.values():
        ctx.functions.add(repo.func_qual(f))
        ctx.consulted.add(f._module.relpath)
    return scope


def exc_is_http(repo, module, name_expr):
    """is the raised class a subclass of httping.HTTPException"""
    b = repo.resolve_expr(module, name_expr)
    if b is not None and b.kind == "class":
        base = repo.cls("aio.http.httping", "HTTPException")
        return base in b.target.mro()[0]
    return False


def eol_selection(ctx, fname):
    """T9: the chosen end-of-line index is the minimum over all candidate delimiters"""
    f = ctx.fn("aio.http.httping", fname)
    V = FuncView(ctx, f)
    loops = [n for n in V.cfg.nodes if n.kind == "for" and dotted(n.ast.iter) == "eols"]
    V.need(loops, "loop over eols in %s" % fname)
    h = loops[0]
    body = h.ast
    finds = [n for n in ast.walk(body) if isinstance(n, ast.Call) and isinstance(n.func, ast.Attribute) and n.func.attr == "find"
             and dotted(n.func.value) == "raw"]
    breaks = [n for n in ast.walk(body) if isinstance(n, ast.Break)]
    # position-minimal selection: the stored index is updated only when the found position is smaller (strictly) than the best so far
    cmp_min = [n for n in ast.walk(body) if isinstance(n, ast.Compare) and any(isinstance(o, ast.Lt) for o in n.ops)]
    ok = bool(finds) and not breaks and bool(cmp_min)
    return f, h, ok, ("first delimiter kind found wins (break)" if breaks else "no minimum comparison")


def delete_discipline(ctx, rule):
    """T1: bytes are deleted from the buffer only after a complete unit was found"""
    for fname in ("parseLine", "parseLeader"):
        f = ctx.fn("aio.http.httping", fname)
        V = FuncView(ctx, f)
        dels = [n for n in V.cfg.nodes if isinstance(n.ast, ast.Delete) and src(n.ast.targets[0]).startswith("raw[")]
        V.need(dels, "del raw[:index] in %s" % fname)
        nf = V.tests(lambda t: src(t) == "index < 0")
        yn = [n for n in V.cfg.nodes if any(isinstance(x, ast.Yield) and (x.value is None or (isinstance(x.value, ast.Constant) and x.value.value is None))
                                            for x in V.cfg.walk_node(n))]
        ok = bool(nf) and all(V.dominated_by_edge([d], nf[0], "F") for d in dels) and bool(yn)
        if ok:
            # on the not-found branch nothing is deleted before the yield None
            tsucc = [b for b, lab in V.cfg.succ[nf[0].id] if lab == "T"]
            r = V.cfg.reachable(tsucc[0], removed_nodes=[y.id for y in yn])
            ok = not (r & {d.id for d in dels})
        for d in dels:
            ok = ok and src(d.ast.targets[0]) == "raw[:index]"
        ctx.check(ok, rule, f, "%s: del raw[:index] only after an end of line was found; `yield None` leaves the buffer untouched" % fname,
                  "an incomplete line must stay in the buffer until the rest arrives, otherwise a message split at that point parses "
                  "differently from the whole message")
    f = ctx.fn("aio.http.httping", "parseChunk")
    V = FuncView(ctx, f)
    dels = [n for n in V.cfg.nodes if isinstance(n.ast, ast.Delete) and src(n.ast.targets[0]).startswith("raw[")]
    w = [n for n in V.cfg.nodes if n.kind == "test" and isinstance(n.ast, ast.While) and src(n.ast.test) == "len(raw) < size"]
    ok = bool(dels) and bool(w) and all(V.dominated_by_edge([d], w[0], "F") and src(d.ast.targets[0]) == "raw[:size]" for d in dels)
    st = [n for n in V.cfg.nodes if isinstance(n.ast, ast.Assign) and dotted(n.ast.targets[0]) == "chunk" and src(n.ast.value) == "raw[:size]"]
    ok = ok and bool(st) and V.dominated(dels, st)
    ctx.check(ok, rule, f, "parseChunk: chunk = raw[:size]; del raw[:size] only once len(raw) >= size", "a partially received chunk must not be consumed")
    f = ctx.fn("aio.http.httping", "parseBom")
    V = FuncView(ctx, f)
    dels = [n for n in V.cfg.nodes if isinstance(n.ast, ast.Delete)]
    t1 = V.tests(lambda t: src(t) == "len(raw) >= size")
    t2 = V.tests(lambda t: src(t) == "raw[:size] == bom")
    ctx.check(bool(dels) and bool(t1) and bool(t2) and all(V.dominated_by_edge([d], t1[0], "T") and V.dominated_by_edge([d], t2[0], "T") for d in dels),
              rule, f, "parseBom deletes only a complete, matching BOM", "")
    for modn, cn in (("aio.http.serving", "Requestant"), ("aio.http.clienting", "Respondent")):
        f = ctx.cls(modn, cn).own_method("parseBody")
        V = FuncView(ctx, f)
        w = [n for n in V.cfg.nodes if n.kind == "test" and isinstance(n.ast, ast.While) and src(n.ast.test) == "len(self.msg) < self.length"]
        st = [n for n in V.cfg.nodes if isinstance(n.ast, ast.Assign) and dotted(n.ast.targets[0]) == "self.body" and src(n.ast.value) == "self.msg[:self.length]"]
        dl = [n for n in V.cfg.nodes if isinstance(n.ast, ast.Delete) and src(n.ast.targets[0]) == "self.msg[:self.length]"]
        ok = bool(w) and len(st) == 1 and len(dl) == 1 and V.dominated_by_edge(st + dl, w[0], "F") and V.dominated(dl, st)
        ctx.check(ok, rule, f, "%s.parseBody (fixed length): body = msg[:length]; del msg[:length] once len(msg) >= length" % cn,
                  "a fixed-length body must consume exactly content-length bytes so that bytes after the message stay for the next one")


def fixed_arity_unpacks(ctx, rule, scope):
    """a tuple-unpack of str.split(sep, n) is a ValueError when the separator is absent, unless guarded by `sep in x`"""
    n = 0
    for q, f in scope.items():
        for a in ast.walk(f):
            if isinstance(a, ast.Assign) and isinstance(a.targets[0], ast.Tuple) and isinstance(a.value, ast.Call) and \
                    isinstance(a.value.func, ast.Attribute) and a.value.func.attr in ("split", "rsplit") and a.value.args:
                n += 1
                sep = a.value.args[0]
                recv = src(a.value.func.value)
                guarded = False
                p = parent(a)
                while p is not None and p is not f:
                    if isinstance(p, ast.If) and isinstance(p.test, ast.Compare) and isinstance(p.test.ops[0], ast.In) and \
                            src(p.test.left) == src(sep) and src(p.test.comparators[0]) == recv and a in list(ast.walk(p))[1:] and \
                            any(a in list(ast.walk(s)) for s in p.body):
                        guarded = True
                    p = parent(p)
                ctx.check(guarded, rule, a, "%s: %s" % (q.split(":")[1], src(a)),
                          "unpacking %s.split(%s, ..) into a fixed number of names raises ValueError when the separator is absent from "
                          "the received text" % (recv, src(sep)))
    return n
