"""C36 - stream stacks deliver every queued packet to the peer intact."""
import ast

from ..model import AnchorError, call_name, const_str, dotted, src
from ..rules import FuncView, suffix_match, defect_scope, path_condition, formula_implies, formula_equiv, formula_implied_by
from ..callgraph import closure
from .. import defects

EXPLANATION = (
    "Resolved call signatures (D4) and defined names/attributes (D1/D3) over the call-graph closure of "
    "TcpServerStack.serviceAll and TcpClientStack.serviceAll, following the typed handler field (createHandler "
    "returns serving.Server / clienting.Client); transmit buffer rule of the client stream stack: a new packet is "
    "loaded only `if not self.txbs`, a partial send deletes exactly the sent prefix (del txbs[:count]) and reports "
    "blocked, a full send clears the buffer; the server stack hands each popped packet's bytes and its connection "
    "address to handler.transmitIx(data, ca); receive: bytes are removed from the receive buffer only when a "
    "packet parsed, exactly packet.size of them, and packets are appended in order.")
NOT_DECIDED = "byte-for-byte delivery at run time; packet framing inside packeting.Packet.parse"


_MUTATORS = {"extend", "append", "clear", "pop", "insert", "remove", "reverse", "sort", "__setitem__", "__delitem__", "__iadd__"}


def tx_no_mutation(ctx, rule):
    """T4-txcopy: the tcp transmit path never mutates, in place, bytes it was handed by its caller.  The stacks hand the
    live `pkt.packed` bytearray (and the same Packet may be queued more than once); a partial send must re-queue a *copy* of
    the unsent tail (data[count:]), not trim the caller's object."""
    n = 0
    for modn, cn in (("aio.tcp.clienting", "Client"), ("aio.tcp.serving", "Incomer"), ("aio.tcp.clienting", "ClientTls"), ("aio.tcp.serving", "IncomerTls")):
        C = ctx.cls(modn, cn)
        for mn in ("tx", "serviceTxes", "send"):
            f = C.methods.get(mn)
            if f is None:
                continue
            ctx.use(f)
            handed = {a.arg for a in f.args.args[1:]}
            for a in ast.walk(f):
                if isinstance(a, ast.Assign) and isinstance(a.value, ast.Call) and (call_name(a.value) or "").endswith("txes.popleft"):
                    handed |= {t.id for t in a.targets if isinstance(t, ast.Name)}
            if not handed:
                continue
            n += 1
            bad = []
            for x in ast.walk(f):
                if isinstance(x, ast.Delete):
                    bad += [t for t in x.targets if isinstance(t, ast.Subscript) and isinstance(t.value, ast.Name) and t.value.id in handed]
                elif isinstance(x, ast.Subscript) and isinstance(x.ctx, ast.Store) and isinstance(x.value, ast.Name) and x.value.id in handed:
                    bad.append(x)
                elif isinstance(x, ast.AugAssign) and isinstance(x.target, ast.Name) and x.target.id in handed:
                    bad.append(x)       # += on a bytearray extends the caller's object
                elif isinstance(x, ast.Call) and isinstance(x.func, ast.Attribute) and x.func.attr in _MUTATORS and \
                        isinstance(x.func.value, ast.Name) and x.func.value.id in handed:
                    bad.append(x)
            for b in bad:
                ctx.bad(rule, b, "%s.%s mutates handed-over bytes in place: %s" % (cn, mn, src(b)),
                        "the stacks pass pkt.packed by reference and may queue the same packet twice (broadcast, resend): trimming or "
                        "extending it here corrupts the bytes of every other queue entry that aliases it")
            if not bad:
                ctx.ok(rule, f, "%s.%s only reads/slices the bytes it was handed (%s)" % (cn, mn, ", ".join(sorted(handed))))
    ctx.floor(rule + ":functions", n, 6)


def check(ctx):
    from .c24 import queues_unbounded
    queues_unbounded(ctx, "T4-unbounded", ("ioflo.aio.proto.stacking",))
    from .c35 import txqueue_rearranged_only_by_service
    txqueue_rearranged_only_by_service(ctx, ("Stack", "RemoteStack", "TcpServerStack", "ClientStreamStack", "TcpClientStack"), "T4-txqueue")
    ctx.rule("T4-txcopy", "tcp tx/serviceTxes/send never mutate handed-over bytes in place; a partial send re-queues a copy of the tail")
    tx_no_mutation(ctx, "T4-txcopy")
    ctx.rule("D-scope", "D1/D3/D4/D5/D6 over scope(TcpServerStack.serviceAll, TcpClientStack.serviceAll)")
    ctx.rule("T9-txbs", "client stream stack transmit buffer discipline")
    ctx.rule("T9-rx", "receive: del rxbs[:packet.size] only for a parsed packet; append in order")
    ctx.rule("T9-serverTx", "server stack: popleft (pkt, ca) -> handler.transmitIx(pkt.packed, ca)")
    repo = ctx.repo
    TS = ctx.cls("stacking", "TcpServerStack")
    TC = ctx.cls("stacking", "TcpClientStack")
    entries = []
    for c in (TS, TC):
        for m in ("serviceAll", "serviceAllRx", "serviceAllTx", "serviceConnects", "serviceConnect", "serviceReceives", "serviceTxPkts",
                  "_serviceOneTxPkt", "_serviceOneReceived", "serviceRxPkts", "serviceTxMsgs", "parserize", "closeConnection"):
            f = c.method(m)
            if f is not None:
                entries.append(f)
    scope = closure(repo, entries, max_depth=2)
    from ..callgraph import owner_class
    mros = set()
    for c in (TS, TC):
        mros |= {x.qual for x in c.mro()[0]}

    def in_receiver_scope(f):
        oc = owner_class(repo, f)
        if oc is None:
            return True
        if "/aio/proto/stacking.py" in f._module.relpath:
            return oc.qual in mros      # self-calls dispatch within the two stacks' own MROs, not to sibling stacks
        return True
    fns = [f for q, f in scope.items() if ("/aio/proto/" in q or "/aio/tcp/" in q) and in_receiver_scope(f)]
    for f in fns:
        ctx.functions.add(repo.func_qual(f))
        ctx.consulted.add(f._module.relpath)
    ctx.floor("D-scope:functions", len(fns), 20)
    found = defects.run(repo, fns, ("D1", "D1b", "D3", "D4", "D5", "D6"))
    # D4 through the typed handler field is exercised: require that the transmitIx call resolved
    bad = set()
    for fd in found:
        # Stack base-class abstract methods that every concrete stack overrides are not in these entry points' way
        ctx.bad(fd.rule, fd.node, fd.construct, fd.why)
    ctx.ok("D-scope", "ioflo/aio/proto + ioflo/aio/tcp", "%d functions in scope without internal-error constructs" % (len(fns) - len({id(f.node) for f in found})))
    so = TS.own_method("_serviceOneTxPkt")
    V = FuncView(ctx, so)
    pop = V.calls("self.txPkts.popleft")
    tx = V.calls("self.handler.transmitIx")
    ok = len(pop) == 1 and len(tx) == 1
    if ok:
        st = pop[0][0].ast
        names = [e.id for e in st.targets[0].elts] if isinstance(st, ast.Assign) and isinstance(st.targets[0], ast.Tuple) else []
        ok = len(names) == 2 and [src(V.sym(a, tx[0][0])) for a in tx[0][1].args] == [names[0] + ".packed", names[1]]
    if ok:   # every popped packet is handed over in the same call: the order on txPkts is the order on the connection
        ok = formula_equiv(path_condition(V, tx[0][0], start=[V.cfg.entry.id]), "True")
    from ..callgraph import resolve_call
    res = resolve_call(repo, tx[0][1], so) if tx else []
    ctx.check(ok and bool(res), "T9-serverTx", so, "TcpServerStack: pkt, ca = txPkts.popleft(); handler.transmitIx(pkt.packed, ca) (callee resolved: %s)" % bool(res),
              "each queued packet's bytes must be handed to the connection of its own peer")
    for cn in ("ClientStreamStack", "TcpClientStack"):
        C = ctx.cls("stacking", cn)
        f = C.methods.get("_serviceOneTxPkt")
        if f is None:
            if cn == "ClientStreamStack":
                raise AnchorError("ClientStreamStack._serviceOneTxPkt not found")
            continue        # inherits the stream stack's discipline
        W = FuncView(ctx, f, exc="raise")
        sv = lambda e, n: src(W.sym(e, n))
        entry = [W.cfg.entry.id]
        pl = W.call_nodes("self.txPkts.popleft")
        ex = W.call_nodes("self.txbs.extend")
        ok = bool(pl) and bool(ex) and all(formula_implies(path_condition(W, n, start=entry), "not self.txbs") for n in pl + ex)
        ctx.check(ok, "T9-txbs", f, "%s: next packet loaded only if txbs is empty" % cn, "a new packet must not be mixed into a partially sent one")
        sd = W.calls("self.handler.send")
        ok = len(sd) == 1 and sv(sd[0][1].args[0], sd[0][0]) == "self.txbs"
        sent = src(W.sym(sd[0][1], sd[0][0])) if sd else "?"
        dl = [n for n in W.cfg.nodes if isinstance(n.ast, ast.Delete)]
        cl = W.call_nodes("self.clearTxbs")
        ok = ok and len(dl) == 1 and bool(cl)
        if ok:
            tg = dl[0].ast.targets[0]
            ok = isinstance(tg, ast.Subscript) and isinstance(tg.slice, ast.Slice) and tg.slice.lower is None and tg.slice.step is None and \
                tg.slice.upper is not None and sv(tg.value, dl[0]) == "self.txbs" and sv(tg.slice.upper, dl[0]) == sent
            partial = "%s < len(self.txbs)" % sent
            ok = ok and formula_implies(path_condition(W, dl[0], start=entry), partial) and \
                all(formula_implies(path_condition(W, c, start=entry), "not (%s)" % partial) for c in cl)
            after = [n for n in W.cfg.nodes if n.kind == "return" and n.id in W.cfg.reachable(dl[0].id)]
            ok = ok and bool(after) and all(isinstance(r.ast.value, ast.Constant) and r.ast.value.value is False for r in after)
        ctx.check(ok, "T9-txbs", f, "%s: count = send(txbs); partial => del txbs[:count], return False; full => clearTxbs()" % cn,
                  "after a partial send exactly the sent prefix must be dropped so the rest goes out next, once")
    for cn, meth, buf in (("TcpServerStack", "_serviceOneReceived", "ix.rxbs"), ("ClientStreamStack", "_serviceOneReceived", "self.rxbs")):
        f = ctx.cls("stacking", cn).own_method(meth)
        W = FuncView(ctx, f)
        sv = lambda e, n: src(W.sym(e, n))
        parsed = "self.parserize(%s[:])" % buf
        dl = [n for n in W.cfg.nodes if isinstance(n.ast, ast.Delete) and isinstance(n.ast.targets[0], ast.Subscript) and
              sv(n.ast.targets[0].value, n) == buf and isinstance(n.ast.targets[0].slice, ast.Slice) and n.ast.targets[0].slice.lower is None
              and n.ast.targets[0].slice.upper is not None and sv(n.ast.targets[0].slice.upper, n) == parsed + ".size"]
        alld = [n for n in W.cfg.nodes if isinstance(n.ast, ast.Delete)]
        ap = W.call_nodes("self.rxPkts.append")
        ok = len(dl) == 1 and len(alld) == 1 and bool(ap)
        if ok:
            ok = all(formula_implies(path_condition(W, n, start=[W.cfg.entry.id]), "not (%s is None)" % parsed) for n in dl + ap) and W.dominated(ap, dl)
        ctx.check(ok, "T9-rx", f, "%s.%s: del %s[:packet.size] and rxPkts.append only for a parsed packet" % (cn, meth, buf),
                  "every received byte must end up in exactly one received packet")
    # bytes read from a connection are parsed before that connection can be reaped: in serviceAll no serviceConnects()
    # (which closes cut-off connections and discards their Incomer with its rxbs) between the receive pass and the parse pass
    ctx.rule("T3-rxorder", "TcpServerStack.serviceAll: serviceReceivesAllIx() is followed by serviceAllRx() before any serviceConnects()")
    sa_ = TS.method("serviceAll")
    if sa_ is None:
        raise AnchorError("TcpServerStack.serviceAll not found")
    A = FuncView(ctx, sa_)
    rcv = A.need(A.call_nodes(("self.handler.serviceReceivesAllIx", "self.serviceReceives")), "receive pass in TcpServerStack.serviceAll")
    prs = A.need(A.call_nodes(("self.serviceAllRx", "self.serviceRxPkts")), "parse pass in TcpServerStack.serviceAll")
    con = A.call_nodes("self.serviceConnects")
    bad = False
    for r in rcv:
        reach = A.cfg.reachable([b for b, _ in A.cfg.succ[r.id]], removed_nodes=[p.id for p in prs])
        bad = bad or any(c.id in reach for c in con)
    ctx.check(not bad, "T3-rxorder", sa_, "serviceAll: receive pass -> parse pass with no serviceConnects() in between",
              "when a peer sends its last packets and closes, data and end-of-stream are read in the same pass; reaping the "
              "connection before the parse pass throws the received bytes away")

    # a partly sent packet is finished even when nothing else is queued behind it
    ctx.rule("T2-drain", "TcpClientStack.serviceTxPkts[Once]: _serviceOneTxPkt() is tried whenever txbs still holds unsent bytes "
             "(and only when there is something to send)")
    for mn in ("serviceTxPkts", "serviceTxPktsOnce"):
        f = TC.own_method(mn)
        D = FuncView(ctx, f)
        one = D.need(D.call_nodes("self._serviceOneTxPkt"), "_serviceOneTxPkt() in TcpClientStack.%s" % mn)
        pc = ("or", [path_condition(D, n, start=[D.cfg.entry.id], loops=True) for n in one])
        ok = formula_implied_by(pc, "self.txbs and self.handler.connected and not self.handler.cutoff")
        ctx.check(ok, "T2-drain", f, "TcpClientStack.%s sends while txbs is not empty" % mn,
                  "a packet the socket accepted only partly stays in .txbs; if the loop runs only while .txPkts is non-empty, the "
                  "tail of the last queued packet is never sent (until some later packet happens to be queued)")
        ctx.check(formula_implies(pc, "self.txPkts or self.txbs"), "T2-drain", f, "TcpClientStack.%s sends only when there is a packet or a pending tail" % mn,
                  "_serviceOneTxPkt() pops from an empty deque")
