"""C44 - point-in-polygon tests agree with exact geometry (sibling/structure clauses)."""
import ast

from ..model import AnchorError, call_name, const_str, dotted, src
from ..rules import FuncView, suffix_match
from . import _framing

EXPLANATION = (
    "Sibling agreement (T7): the edge loops of wind and inside are identical after normalisation except for the "
    "on-vertex/on-edge early results (0 vs side); in wind, inside and sideOnly the vertex test `p in vs` "
    "precedes the loop and the on-edge test tween2(p, vs[i], vs[j]) is evaluated on every iteration before any "
    "crossing logic (no path skips it); the crossing rule is the half-open upward/downward rule (y <= py and v > "
    "py with a right turn counts +1, y > py and v <= py with a left turn counts -1); insideOnly = inside(side="
    "False), outside(side) = not inside(not side), outsideOnly = outside(side=False).")
NOT_DECIDED = "agreement with exact rational geometry for all polygons/points (numeric; needs evaluation)"


class _Norm(ast.NodeTransformer):
    def visit_Return(self, node):
        if isinstance(node.value, ast.Constant) and node.value.value == 0:
            return ast.Return(value=ast.Name(id="BOUNDARY", ctx=ast.Load()))
        if isinstance(node.value, ast.Name) and node.value.id == "side":
            return ast.Return(value=ast.Name(id="BOUNDARY", ctx=ast.Load()))
        return node


def _loop(fn):
    loops = [n for n in fn.body if isinstance(n, ast.For)]
    if not loops:
        raise AnchorError("%s: edge loop not found" % fn.name)
    return loops[0]


def check(ctx):
    ctx.rule("T7-siblings", "wind and inside edge loops identical up to the boundary result")
    ctx.rule("T1-boundary", "vertex test before the loop; tween2 on-edge test on every iteration, first")
    ctx.rule("T9-crossing", "half-open crossing rule with turn test")
    ctx.rule("T9-derived", "insideOnly/outside/outsideOnly derived from inside")
    w = ctx.fn("aid.vectoring", "wind")
    i = ctx.fn("aid.vectoring", "inside")
    s = ctx.fn("aid.vectoring", "sideOnly")
    lw, li = _loop(w), _loop(i)
    nw = ast.dump(_Norm().visit(ast.parse(src(lw))))
    ni = ast.dump(_Norm().visit(ast.parse(src(li))))
    ctx.check(nw == ni, "T7-siblings", li, "edge loops of wind() and inside() agree",
              "wind and inside no longer apply the same crossing/boundary rule: the winding number and the inside predicate "
              "can disagree for the same point")
    for f in (w, i, s):
        V = FuncView(ctx, f)
        vt = V.tests(lambda t: src(t) == "p in vs")
        hdr = [n for n in V.cfg.nodes if n.kind == "for"]
        tw = [t for t in V.cfg.nodes if t.kind == "test" and isinstance(t.ast.test, ast.Call) and call_name(t.ast.test) == "tween2"
              and len(t.ast.test.args) == 3 and [src(a) for a in t.ast.test.args[:2]] == ["p", "vs[i]"]
              and src(V.sym(t.ast.test.args[2], t)).replace("len(vs)", "l") == "vs[(i + 1) % l]"]
        ok = bool(vt) and bool(hdr) and bool(tw) and V.dominated(hdr, vt)
        ok = ok and _framing.every_iteration_passes(V, hdr[0], tw)
        # nothing but the j computation between the header and the on-edge test
        if ok:
            between = V.cfg.reachable([b for b, lab in V.cfg.succ[hdr[0].id] if lab == "iter"][0], removed_nodes=[tw[0].id])
            tests_before = [n for n in between if V.cfg.nodes[n].kind == "test" and tw[0].id in V.cfg.reachable(n)]
            ok = not tests_before
        rets = [n for n in V.cfg.nodes if n.kind == "return" and tw and V.dominated_by_edge([n], tw[0], "T")]
        ok = ok and bool(rets)
        ctx.check(ok, "T1-boundary", f, "%s: `p in vs` before the loop; tween2(p, vs[i], vs[j]) first in every iteration" % f.name,
                  "a point on an edge can be classified by the crossing count instead of by the boundary rule when some path "
                  "through the edge loop skips or precedes the on-edge test")
    V = FuncView(ctx, i)
    inc = [n for n in V.cfg.nodes if isinstance(n.ast, ast.AugAssign) and isinstance(n.ast.op, ast.Add) and dotted(n.ast.target) == "w"]
    dec = [n for n in V.cfg.nodes if isinstance(n.ast, ast.AugAssign) and isinstance(n.ast.op, ast.Sub) and dotted(n.ast.target) == "w"]
    args = "sub(p, vs[i]), sub(vs[j], vs[i])"
    ok = bool(inc) and bool(dec)
    for n in inc:      # upward crossing: y <= py < v and p right of the directed edge
        fs = V.facts(n)
        ok = ok and {"y <= py", "v > py", "right(%s)" % args} <= fs
    for n in dec:      # downward crossing: v <= py < y and p left of the directed edge
        fs = V.facts(n)
        ok = ok and ("y > py" in fs or "not y <= py" in fs) and {"v <= py", "left(%s)" % args} <= fs
    ctx.check(ok, "T9-crossing", i, "upward crossing (y <= py < v, p left of edge) +1; downward (v <= py < y, p right) -1",
              "the half-open crossing rule counts each vertex-level crossing exactly once")
    defs = {"insideOnly": "inside(p, vs, side=False)", "outsideOnly": "outside(p, vs, side=False)"}
    for name, want_ in defs.items():
        f = ctx.fn("aid.vectoring", name)
        r = [n for n in ast.walk(f) if isinstance(n, ast.Return)]
        ctx.check(len(r) == 1 and src(r[0].value) == want_, "T9-derived", f, "%s = %s" % (name, want_), "")
    f = ctx.fn("aid.vectoring", "outside")
    r = [n for n in ast.walk(f) if isinstance(n, ast.Return)]
    ok = len(r) == 1 and src(r[0].value).replace(" ", "") in ("FalseifinsidepvssidenotsideelseTrue".replace("pvs", "(p,vs,").replace("sidenotside", "side=notside)"),
                                                              "notinside(p,vs,side=notside)")
    ctx.check(ok, "T9-derived", f, "outside(side) = not inside(not side): %s" % (src(r[0].value) if r else "?"), "boundary points are outside exactly when they are not inside")
    # tween2 (the on-side test everything above relies on): `True` only for a point that is collinear with the side AND
    # within its extent measured along the side (0 <= a.b <= b.b), so that vertical and slanted sides are treated alike
    ctx.rule("T9-tween", "tween2 returns True only after: trip(a, b) == 0, a.b >= 0 and a.b <= b.b (extent measured along the side)")
    tw2 = ctx.fn("aid.vectoring", "tween2")
    T = FuncView(ctx, tw2)
    trues = [n for n in T.cfg.nodes if n.kind == "return" and not (isinstance(n.ast.value, ast.Constant) and n.ast.value.value in (False, None))]
    T.need(trues, "a return that can answer True in tween2")
    ok = True
    for r in trues:
        fs = {f.replace(" ", "") for f in T.facts(r)}
        if not isinstance(r.ast.value, ast.Constant):
            # `return <condition>`: the condition holds whenever the answer is True
            ev = T.sym(r.ast.value, r)
            for part in (ev.values if isinstance(ev, ast.BoolOp) and isinstance(ev.op, ast.And) else [ev]):
                fs.add(src(part).replace(" ", ""))
        sy = set()
        for f in T.facts(r):
            try:
                e = ast.parse(f, mode="eval").body
                sy.add(src(T.sym(e, r)).replace(" ", ""))
            except SyntaxError:
                pass
        fs |= sy
        degenerate = any(f.startswith("dot(sub(v,u),sub(v,u))==0") or f in ("dbb==0",) for f in fs)
        if degenerate:
            continue
        col = any("trip(" in f and ("==0" in f or "notdot" in f) for f in fs) or any(f.startswith("nottrip(") for f in fs)
        lo = any(f.replace("not", "").startswith("dot(sub(p,u),sub(v,u))") and ("<0" in f and f.startswith("not") or ">=0" in f) for f in fs)
        hi = any(f.startswith("not") and "dot(sub(p,u),sub(v,u))>" in f for f in fs) or any("dot(sub(p,u),sub(v,u))<=" in f for f in fs)
        ok = ok and col and lo and hi
    ctx.check(ok, "T9-tween", tw2, "tween2: collinear (trip == 0) and 0 <= a.b <= b.b on every path that answers True",
              "testing the extent on one coordinate only makes every point collinear with a vertical side count as on that side: "
              "outside points are reported inside / on the boundary")
    # the predicates are functions of their arguments alone: nothing in the module remembers a previous call
    ctx.rule("T4-pure", "no function of aid.vectoring writes module-level state (caches keyed by id(), counters, ..)")
    m = ctx.repo.mod("aid.vectoring")
    mod_names = {t.id for st in m.tree.body if isinstance(st, (ast.Assign, ast.AugAssign, ast.AnnAssign))
                 for t in (st.targets if isinstance(st, ast.Assign) else [st.target]) if isinstance(t, ast.Name)}
    MUT = {"append", "extend", "insert", "pop", "remove", "clear", "update", "setdefault", "add", "discard", "popitem", "__setitem__"}
    nfun = 0
    for f in [x for x in m.tree.body if isinstance(x, ast.FunctionDef)]:
        nfun += 1
        local = {a.arg for a in f.args.args + f.args.kwonlyargs} | {x.id for x in ast.walk(f) if isinstance(x, ast.Name) and isinstance(x.ctx, ast.Store)}
        gl = {n_ for x in ast.walk(f) if isinstance(x, (ast.Global, ast.Nonlocal)) for n_ in x.names}
        shared = (mod_names - local) | gl
        bad = []
        for x in ast.walk(f):
            if isinstance(x, ast.Name) and isinstance(x.ctx, (ast.Store, ast.Del)) and x.id in gl:
                bad.append("global %s rebound" % x.id)
            elif isinstance(x, ast.Subscript) and isinstance(x.ctx, (ast.Store, ast.Del)) and isinstance(x.value, ast.Name) and x.value.id in shared:
                bad.append("%s[..] written" % x.value.id)
            elif isinstance(x, ast.Call) and isinstance(x.func, ast.Attribute) and x.func.attr in MUT and isinstance(x.func.value, ast.Name) \
                    and x.func.value.id in shared:
                bad.append(src(x)[:50])
        ctx.check(not bad, "T4-pure", f, "%s keeps no state between calls%s" % (f.name, (": " + bad[0]) if bad else ""),
                  "a result remembered from an earlier call (e.g. a bounding box cached under id(vs)) is reused for a different "
                  "polygon with the same identity: the same point and polygon classify differently depending on call history")
    ctx.floor("T4-pure:functions", nfun, 15)
