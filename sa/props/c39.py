"""C39 - ordered dictionaries and ordered sets behave like their models (override completeness and structure)."""
import ast

from ..model import AnchorError, call_name, const_str, dotted, src, walk_no_nested
from ..rules import FuncView, suffix_match, defect_scope, path_condition, formula_equiv
from .. import defects

EXPLANATION = (
    "Override completeness (T6): every odict method that uses a key (or the keys of an argument) directly with "
    "dict.<op>(self, key ..) or with self._keys - instead of going through the item dunders - is overridden in "
    "lodict, whose overrides lowercase the key before delegating; every odict method that changes the key set "
    "keeps dict and _keys in step (each dict-level insert/delete of a key is paired with the matching _keys "
    "operation on every path); copy()/sift() build a new instance from a fresh item list (no shared _keys list); "
    "super() calls in modict/lodict match the signatures they call (D4), no py2-only iteritems on foreign "
    "mappings (D10); pickling support methods present with __slots__; oset implements the five abstract methods "
    "of MutableSet and keeps map and linked list in step.")
NOT_DECIDED = "model equivalence under arbitrary operation sequences (runtime); ordering semantics of each operation"

PY2_ONLY = {"iteritems", "itervalues", "iterkeys", "has_key"}


def direct_key_methods(ci):
    """odict methods that touch dict.* / self._keys with a key-like value directly"""
    out = {}
    for name, m in ci.methods.items():
        keyish = {a.arg for a in m.args.args[1:]} & {"key", "k", "other", "fields"}
        uses = []
        for n in ast.walk(m):
            if isinstance(n, ast.Call) and isinstance(n.func, ast.Attribute) and dotted(n.func.value) == "dict" and \
                    n.func.attr in ("__setitem__", "__getitem__", "__delitem__", "pop", "update", "setdefault", "__contains__", "get"):
                uses.append(src(n)[:50])
            elif isinstance(n, ast.Compare) and any(dotted(c) == "self._keys" for c in n.comparators):
                uses.append(src(n)[:50])
            elif isinstance(n, ast.Call) and isinstance(n.func, ast.Attribute) and dotted(n.func.value) == "self._keys" \
                    and n.func.attr in ("remove", "insert", "index", "append"):
                uses.append(src(n)[:50])
        takes_key = bool(keyish) or any(a.arg in ("pa",) for a in ([m.args.vararg] if m.args.vararg else []))
        if uses and takes_key:
            out[name] = uses
    return out


def check(ctx):
    order_comes_from_keys(ctx, "T4-order")
    insert_at_index(ctx, "T9-insert")
    ctx.rule("T6-lodict", "every directly-keyed odict method is overridden in lodict and the override lowercases before delegating")
    ctx.rule("T2-keys-step", "odict mutators keep dict storage and _keys in step")
    ctx.rule("T9-copy", "copy/sift construct a new instance from a fresh list of items")
    ctx.rule("D4/D10", "super() signatures in lodict/modict; no iteritems/has_key on foreign mappings")
    ctx.rule("T6-pickle", "__getnewargs__/__getstate__/__setstate__ with __slots__")
    ctx.rule("T6-oset", "oset implements MutableSet's abstract methods; add/discard keep map and list in step")
    O = ctx.cls("aid.odicting", "odict")
    L = ctx.cls("aid.odicting", "lodict")
    M = ctx.cls("aid.odicting", "modict")
    dk = direct_key_methods(O)
    ctx.floor("T6-lodict:direct-methods", len(dk), 8)
    exempt = {"__init__": "delegates to update()", "__setstate__": "restores a pickled state verbatim", "__getstate__": ""}
    for name, uses in sorted(dk.items()):
        if name in exempt:
            continue
        ov = L.methods.get(name)
        ctx.check(ov is not None, "T6-lodict", O.methods[name], "odict.%s (uses %s) is overridden in lodict" % (name, uses[0]),
                  "lodict inherits odict.%s, which applies the key to the underlying dict/_keys without lowercasing it: "
                  "case-insensitive treatment is lost for this operation" % name)
        if ov is not None:
            t = src(ov)
            ctx.check(".lower()" in t and "super(lodict, self)" in t, "T6-lodict", ov, "lodict.%s lowercases then delegates" % name,
                      "the override must normalise the key")
    for name in ("__contains__", "__getitem__", "get"):
        ov = L.methods.get(name)
        ctx.check(ov is not None and ".lower()" in src(ov), "T6-lodict", L.node, "lodict.%s lowercases" % name, "dict's own %s is case sensitive" % name)
    # keys in step: per odict mutator, dict-level op and _keys op both present and on same paths
    pairs = {"__setitem__": ("dict.__setitem__", "self._keys.append"), "__delitem__": ("dict.__delitem__", "self._keys.remove"),
             "insert": ("dict.__setitem__", "self._keys.insert"), "pop": ("dict.pop", "self._keys.remove"), "clear": ("dict.clear", None)}
    for name, (dop, kop) in pairs.items():
        f = O.own_method(name)
        V = FuncView(ctx, f)
        a = V.call_nodes(dop)
        ok = bool(a)
        if kop:
            b = V.call_nodes(kop)
            ok = ok and bool(b)
        else:
            ok = ok and any(isinstance(n.ast, ast.Assign) and dotted(n.ast.targets[0]) == "self._keys" for n in V.cfg.nodes)
        ctx.check(ok, "T2-keys-step", f, "odict.%s updates dict storage (%s) and the key order list" % (name, dop),
                  "dict contents and key order would disagree after %s" % name)
    # pop: whether the key leaves the order list is decided by the key's presence alone, never by the value that came back
    pf = O.own_method("pop")
    P = FuncView(ctx, pf)
    rm = P.call_nodes("self._keys.remove")
    dp = P.calls("dict.pop")
    okp = bool(rm) and len(dp) == 1
    if okp:
        pc = ("or", [path_condition(P, n, start=[P.cfg.entry.id]) for n in rm])
        if formula_equiv(pc, "key in self._keys"):
            okp = True
        elif formula_equiv(pc, "key in self") or formula_equiv(pc, "dict.__contains__(self, key)"):
            tests = [t for t in P.cfg.nodes if t.kind == "test"]
            okp = all(dp[0][0].id in P.cfg.reachable(t.id) and t.id not in P.cfg.reachable(dp[0][0].id) for t in tests)   # membership read before the pop
        elif formula_equiv(pc, "True"):
            okp = len(dp[0][1].args) == 2 and not dp[0][1].keywords         # dict.pop(self, key) raises for an absent key
        else:
            okp = False
    ctx.check(okp, "T2-keys-step", pf, "odict.pop removes the key from _keys exactly when the key was present",
              "a condition on the popped value (e.g. `value is default`) cannot tell an absent key from a present key whose value "
              "happens to be the default object: the entry leaves the dict but stays in _keys, and items()/values()/popitem raise KeyError")
    si = O.own_method("__setitem__")
    S = FuncView(ctx, si)
    t = S.tests(lambda t: src(t) in ("key not in self", "key not in self._keys"))
    ap = S.call_nodes("self._keys.append")
    ctx.check(bool(t) and bool(ap) and S.dominated_by_edge(ap, t[0], "T"), "T2-keys-step", si, "__setitem__ appends the key only when it is new", "a repeated key must keep its position and appear once")
    for name in ("copy", "sift"):
        f = O.own_method(name)
        rets = [n for n in ast.walk(f) if isinstance(n, ast.Return) and n.value is not None]
        V = FuncView(ctx, f)
        ok = True
        for r in V.cfg.nodes:
            if r.kind == "return" and r.ast.value is not None:
                v = V.sym(r.ast.value, r)
                t = src(v)
                ok = ok and (t.startswith("self.__class__([") or t == "self.copy()")
        shares = [n for n in ast.walk(f) if isinstance(n, ast.Assign) and any(isinstance(t, ast.Attribute) and t.attr == "_keys" for t in n.targets)]
        ctx.check(ok and not shares, "T9-copy", f, "odict.%s returns self.__class__(<fresh item list>)" % name,
                  "the copy would share its key-order list (or its storage) with the original: a later change of one "
                  "dictionary's key set corrupts the other")
    found = defects.run(ctx.repo, list(L.methods.values()) + list(M.methods.values()) + list(O.methods.values()), ("D4", "D1", "D3"))
    for fd in found:
        ctx.bad(fd.rule, fd.node, fd.construct, fd.why)
    ctx.ok("D4", "ioflo/aid/odicting.py", "%d methods of odict/lodict/modict: super() calls match signatures" % (len(L.methods) + len(M.methods) + len(O.methods)))
    for cls in (L, M, O):
        for name, f in cls.methods.items():
            for n in ast.walk(f):
                if isinstance(n, ast.Call) and isinstance(n.func, ast.Attribute) and n.func.attr in PY2_ONLY:
                    recv = n.func.value
                    own = (isinstance(recv, ast.Call) and call_name(recv) == "super") or dotted(recv) == "self"
                    guarded = False
                    p = n
                    from ..model import parent
                    while p is not None and not isinstance(p, ast.FunctionDef):
                        if isinstance(p, ast.If) and "isinstance" in src(p.test) and ("modict" in src(p.test) or "odict" in src(p.test)):
                            guarded = True
                        p = parent(p)
                    ctx.check(own or guarded, "D10", n, "%s.%s: %s" % (cls.name, name, src(n)[:60]),
                              "%s() is called on an arbitrary mapping argument; plain dicts have no such method on python 3: AttributeError" % n.func.attr)
    for name in ("__getnewargs__", "__getstate__", "__setstate__"):
        ctx.check(name in O.methods, "T6-pickle", O.node, "odict.%s defined" % name, "pickling an odict with __slots__ needs explicit state methods")
    st = O.methods.get("__setstate__")
    gs = O.methods.get("__getstate__")
    ctx.check(st is not None and ("_keys" in src(st) or "self.__init__(state)" in src(st)) and gs is not None and
              ("self.items()" in src(gs) or "_keys" in src(gs)), "T6-pickle", st or O.node,
              "__getstate__ returns the ordered items and __setstate__ rebuilds from them", "an unpickled odict would lose its order")
    S_ = ctx.cls("aid.osetting", "oset")
    for name in ("__contains__", "__iter__", "__len__", "add", "discard"):
        ctx.check(name in S_.methods, "T6-oset", S_.node, "oset.%s defined" % name, "MutableSet abstract method missing: oset cannot be instantiated")
    ad = S_.own_method("add")
    A = FuncView(ctx, ad)
    t = A.tests(lambda t: src(t) == "key not in self.map")
    st_ = [n for n in A.cfg.nodes if any(isinstance(x, ast.Subscript) and isinstance(x.ctx, ast.Store) and dotted(x.value) == "self.map" for x in A.cfg.walk_node(n))]
    ctx.check(bool(t) and bool(st_) and A.dominated_by_edge(st_, t[0], "T"), "T6-oset", ad, "oset.add links a key only when absent", "duplicates would break order/uniqueness")
    di = S_.own_method("discard")
    D = FuncView(ctx, di)
    t = D.tests(lambda t: src(t) == "key in self.map")
    pp = D.call_nodes("self.map.pop")
    ctx.check(bool(t) and bool(pp) and D.dominated_by_edge(pp, t[0], "T"), "T6-oset", di, "oset.discard unlinks only a present key", "")
    super_targets_do_not_redispatch(ctx)
    oset_eq_is_ordered(ctx)
    oset_link_writers(ctx)
    modict_raw_lists(ctx)
    no_mutation_of_iterated_keys(ctx)


def super_targets_do_not_redispatch(ctx):
    """modict stores value *lists* and reaches the raw odict operations through super(); an odict method used that way must
    work on the raw storage (dict.__getitem__, self._keys, dunder item access of its own) and not call a public method that
    modict overrides with list-aware semantics (pop/get/items/values/setdefault/popitem ...), or the super() call lands back in
    modict with the wrong value shape"""
    ctx.rule("T7-super", "odict methods that modict calls through super() do not call a method modict overrides")
    O = ctx.cls("aid.odicting", "odict")
    M = ctx.cls("aid.odicting", "modict")
    over = {n for n in M.methods if n in O.methods and not (n.startswith("__") and n.endswith("__"))}
    used = set()
    for m in M.methods.values():
        for x in ast.walk(m):
            if isinstance(x, ast.Call) and isinstance(x.func, ast.Attribute) and isinstance(x.func.value, ast.Call) \
                    and call_name(x.func.value) == "super":
                used.add(x.func.attr)
    n = 0
    for name in sorted(used):
        f = O.methods.get(name)
        if f is None:
            continue
        n += 1
        bad = [src(x)[:50] for x in ast.walk(f) if isinstance(x, ast.Call) and isinstance(x.func, ast.Attribute) and
               dotted(x.func.value) == "self" and x.func.attr in over and x.func.attr != name]
        ctx.check(not bad, "T7-super", f, "odict.%s (reached from modict through super()) stays on raw storage %s" % (name, bad or ""),
                  "the call dispatches to modict's override, which returns the newest value instead of the stored value list: "
                  "modict.popitem/poplistitem return a wrong value or raise")
    ctx.floor("T7-super:targets", n, 6)


def oset_eq_is_ordered(ctx):
    ctx.rule("T9-oset-eq", "oset == oset compares the element sequences (order matters), oset == other set compares as sets")
    f = ctx.cls("aid.osetting", "oset").methods.get("__eq__")
    if f is None:
        raise AnchorError("oset.__eq__ not found")
    V = FuncView(ctx, f)
    rets = [n for n in V.cfg.nodes if n.kind == "return" and n.ast.value is not None]
    it = V.ptests(lambda t: isinstance(t, ast.Call) and call_name(t) == "isinstance" and "oset" in src(t).lower())
    ok = bool(it)
    if ok:
        ordered = [r for r in rets if V.under([r], it[0])]
        ok = bool(ordered) and all("list(self) == list(other)" in src(r.ast.value).replace("tuple(", "list(") for r in ordered) and \
            not any(".keys()" in src(r.ast.value) or "set(" in src(r.ast.value) for r in ordered)
    ctx.check(ok, "T9-oset-eq", f, "oset.__eq__: ordered comparison for two osets (list(self) == list(other))",
              "two ordered sets with the same members entered in a different order compare equal: dict key views and sets compare "
              "without regard to order")


def oset_link_writers(ctx):
    """oset keeps a dict (key -> node) and a doubly linked ring through a sentinel; __init__, add and discard are the only methods
    that touch the ring, and each updates both directions.  A further writer (an O(1) clear() that resets one link, ..) has to
    keep map, forward and backward links in step on its own"""
    ctx.rule("T4-oset", "only oset.__init__/add/discard write self.map or the ring links; each ring update writes both [1] and [2]")
    S_ = ctx.cls("aid.osetting", "oset")
    allowed = {"__init__", "add", "discard"}
    k = 0
    for name, f in S_.methods.items():
        ring = [x for x in ast.walk(f) if isinstance(x, ast.Subscript) and isinstance(x.ctx, (ast.Store, ast.Del)) and
                isinstance(x.slice, ast.Constant) and x.slice.value in (1, 2)]
        mapw = [x for x in ast.walk(f) if (isinstance(x, ast.Subscript) and isinstance(x.ctx, (ast.Store, ast.Del)) and src(x.value) == "self.map") or
                (isinstance(x, ast.Attribute) and isinstance(x.ctx, ast.Store) and src(x) in ("self.map", "self.end")) or
                (isinstance(x, ast.Call) and isinstance(x.func, ast.Attribute) and src(x.func.value) == "self.map" and
                 x.func.attr in ("clear", "pop", "popitem", "update", "setdefault"))]
        if not ring and not mapw:
            continue
        k += 1
        ctx.check(name in allowed, "T4-oset", (ring + mapw)[0], "oset.%s writes the map / ring (%s)" % (name, src((ring + mapw)[0])[:40]),
                  "a writer outside __init__/add/discard has to keep the dict and both link directions consistent by itself; resetting "
                  "only the forward link of the sentinel leaves reversed() and the next add() on the stale tail")
        if name in allowed and ring:
            dirs = {x.slice.value for x in ring}
            ctx.check(dirs == {1, 2}, "T4-oset", ring[0], "oset.%s updates both link directions (%s)" % (name, sorted(dirs)), "forward and backward iteration must agree")
    ctx.floor("T4-oset:writers", k, 3)


def modict_raw_lists(ctx):
    """modict stores a list of values per key; `self[key]` is its *newest value* (modict.__getitem__), `self.items()/values()` the
    newest values.  A modict method that needs the list must go through super(): indexing or iterating `self[key]` as if it were
    the list reads a character of a string, raises TypeError on a number (swallowed by get's catch-all -> None) ..."""
    ctx.rule("T7-rawlist", "modict methods never subscript/iterate self[key] as the value list (they use super().__getitem__ / get)")
    M = ctx.cls("aid.odicting", "modict")
    k = 0
    for name, f in M.methods.items():
        for x in ast.walk(f):
            if isinstance(x, ast.Subscript) and isinstance(x.value, ast.Subscript) and dotted(x.value.value) == "self":
                k += 1
                ctx.bad("T7-rawlist", x, "modict.%s: %s" % (name, src(x)[:50]),
                        "self[key] is the newest value, not the list of values: indexing it returns None (TypeError swallowed) for "
                        "numbers and the last character for strings instead of the newest / indexed value")
            elif isinstance(x, ast.For) and isinstance(x.iter, ast.Subscript) and dotted(x.iter.value) == "self":
                k += 1
                ctx.bad("T7-rawlist", x, "modict.%s iterates %s" % (name, src(x.iter)), "self[key] is one value, not the list")
    if not k:
        ctx.ok("T7-rawlist", M.node, "%d modict methods reach their value lists through super()" % len(M.methods))


def no_mutation_of_iterated_keys(ctx):
    """an odict method that takes another mapping and, while looping over it, removes/appends/inserts keys of self._keys must not
    be looping over self._keys itself: the argument may be the odict (x.reorder(x), x.update(x)); unless that case is excluded
    before the loop, the loop iterates a snapshot"""
    ctx.rule("T11-selfalias", "odict/lodict/modict methods that mutate self._keys inside `for .. in <argument>` iterate a copy (or exclude `arg is self`)")
    n = 0
    for cn in ("odict", "lodict", "modict"):
        C = ctx.cls("aid.odicting", cn)
        for name, f in C.methods.items():
            if not any(b is f for b in C.node.body):
                continue
            params = {a.arg for a in f.args.args[1:]}
            alias = {"self._keys"} | {src(st.targets[0]) for st in ast.walk(f) if isinstance(st, ast.Assign) and src(st.value) == "self._keys"}
            for lp in [x for x in ast.walk(f) if isinstance(x, ast.For)]:
                it = lp.iter
                if not (isinstance(it, ast.Name) and it.id in params):
                    continue
                muts = [x for b in lp.body for x in ast.walk(b) if isinstance(x, ast.Call) and isinstance(x.func, ast.Attribute) and
                        x.func.attr in ("remove", "append", "insert", "pop") and src(x.func.value) in alias]
                if not muts:
                    continue
                n += 1
                V = FuncView(ctx, f)
                node = next((nd for nd in V.cfg.nodes if nd.kind == "for" and nd.ast is lp), None)
                excluded = node is not None and any(fct.replace(" ", "") in ("%sisnotself" % it.id, "selfisnot%s" % it.id) for fct in V.facts(node))
                ctx.check(excluded, "T11-selfalias", lp, "%s.%s: for .. in %s while changing the key list" % (cn, name, it.id),
                          "called with the dictionary itself the loop walks the list it is rearranging: keys are skipped and the order "
                          "changes (x.reorder(x) is documented as a no-op)")
    ctx.ok("T11-selfalias", "ioflo/aid/odicting.py", "%d loops over an argument that rearrange self._keys without a snapshot or `is self` exclusion" % n)


_DICT_ORDER = ("items", "keys", "values", "__iter__", "iteritems", "iterkeys", "itervalues", "__reversed__", "popitem", "__repr__")


def _dict_order_read(x):
    """dict.<accessor>(self ..) / super().<accessor>() : a read of the builtin dict's own (insertion) order"""
    if isinstance(x, ast.Call) and isinstance(x.func, ast.Attribute) and x.func.attr in _DICT_ORDER:
        v = x.func.value
        if isinstance(v, ast.Name) and v.id == "dict" and x.args and isinstance(x.args[0], ast.Name) and x.args[0].id == "self":
            return True
        if isinstance(v, ast.Call) and isinstance(v.func, ast.Name) and v.func.id == "super":
            return True
    if isinstance(x, ast.Call) and isinstance(x.func, ast.Name) and x.func.id in ("list", "iter", "tuple", "sorted", "reversed") and \
            len(x.args) == 1 and isinstance(x.args[0], ast.Call) and _dict_order_read(x.args[0]):
        return True
    return False


def order_comes_from_keys(ctx, rule):
    """the order of an odict is the order of self._keys (insert(index, ..) and reorder() change it without touching the builtin
    dict): nothing odict hands out may be read off the builtin dict's own iteration order"""
    ctx.rule(rule, "no odict method reads dict.items/keys/values/__iter__(self) or super().<the same>: ordered views come from self._keys")
    probe = ast.parse("a = list(dict.items(self))\nb = dict.__getitem__(self, k)\nc = super(odict, self).keys()")
    if sum(1 for x in ast.walk(probe) if _dict_order_read(x)) != 3:     # list(..) and its inner call both match
        raise AnchorError("%s matcher no longer recognises its positive examples" % rule)
    O = ctx.cls("aid.odicting", "odict")
    k = 0
    for mn, f in sorted(O.methods.items()):
        k += 1
        ctx.use(f)
        for x in ast.walk(f):
            if _dict_order_read(x) and not (isinstance(x.func, ast.Name)):
                ctx.bad(rule, x, "odict.%s: %s" % (mn, src(x)),
                        "the builtin dict remembers insertion order only: after insert(0, k, v) or reorder() it lists the keys in a "
                        "different order than keys()/iteration do, so items(), repr and the pickled state disagree with the odict")
    ctx.floor(rule + ":methods", k, 25)


def insert_at_index(ctx, rule):
    """odict.insert(index, key, val) puts a new key at exactly that position (index 0 = front): RemoteStack re-keys by
    `del idx[old]; idx.insert(index, new, remote)` and relies on it"""
    from ..rules import path_condition, formula_implies_f, formula_of
    ctx.rule(rule, "odict.insert: self._keys.insert(index, key) with the caller's index, on every path on which the key is new")
    f = ctx.cls("aid.odicting", "odict").own_method("insert")
    V = FuncView(ctx, f)
    ins = [(n, c) for n, c in V.calls("self._keys.insert")]
    ok = len(ins) == 1
    if ok:
        n, c = ins[0]
        ok = len(c.args) == 2 and src(V.sym(c.args[0], n)) == f.args.args[1].arg and src(V.sym(c.args[1], n)) == f.args.args[2].arg
        kname = f.args.args[2].arg
        ok = ok and formula_implies_f(formula_of("%s not in self" % kname), path_condition(V, n))
        ok = ok and not V.calls(("self._keys.append", "self._keys.extend"))
    ctx.check(ok, rule, f, "odict.insert places the key at the given index",
              "an insert that appends for some indexes (a falsy 0, say) moves a re-keyed entry to the end: the position of a renamed "
              "remote is not kept and the three indexes of a RemoteStack list their remotes in different orders")
