"""C37 - a stack's remote indexes stay mutually consistent."""
import ast

from ..model import AnchorError, call_name, const_str, dotted, src
from ..rules import FuncView, suffix_match, defect_scope

EXPLANATION = (
    "Failure atomicity (T8) of addRemote/moveRemote/renameRemote/rehaRemote/removeRemote: every raise precedes "
    "the first mutation of an index or of the remote (no CFG path mutation ... raise); key<->index coherence: "
    "add inserts into all three indexes under uid/name/ha after checking each key against its index and the local "
    "device, remove deletes from all three; each re-key method sets exactly its own attribute and re-keys exactly "
    "its own index at the same position (index = keys().index(old); del; insert(index, new, remote)) after "
    "checking the new key against that index and the local device and that the remote is the one indexed; "
    "internal-error detectors on the rejection paths.")
NOT_DECIDED = "consistency over arbitrary operation sequences at run time (what devicing's setters do is outside)"

IDX = {"uid": "uidRemotes", "name": "nameRemotes", "ha": "haRemotes"}


def _mutations(V):
    out = []
    for n in V.cfg.nodes:
        for x in V.cfg.walk_node(n):
            if isinstance(x, ast.Subscript) and isinstance(x.ctx, (ast.Store, ast.Del)):
                out.append(n)      # any item store/delete: in these functions only the indexes are subscripted for writing
            elif isinstance(x, ast.Call) and isinstance(x.func, ast.Attribute) and x.func.attr in ("insert", "pop", "clear", "update", "setdefault", "append") \
                    and not src(x.func.value).startswith("console"):
                out.append(n)
            elif isinstance(x, ast.Attribute) and isinstance(x.ctx, ast.Store) and dotted(x.value) == "remote":
                out.append(n)
    seen, res = set(), []
    for n in out:
        if n.id not in seen:
            seen.add(n.id)
            res.append(n)
    return res


def check(ctx):
    ctx.rule("T8-atomic", "no path from a mutation (index write or remote attribute write) to a raise")
    ctx.rule("T6-add-remove", "add checks and inserts all three keys; remove deletes all three")
    ctx.rule("T6-rekey", "move/rename/reha: own attribute, own index, same position, new key checked against index and local")
    ctx.rule("T4-index-identity", "the index containers (.remotes/.uidRemotes/.nameRemotes/.haRemotes) are bound once, in __init__: "
             ".remotes and .uidRemotes are two names of one odict and callers may hold the containers they passed in")
    from ..rules import attr_writers, func_qual_of
    nb = 0
    for attr in ("remotes", "uidRemotes", "nameRemotes", "haRemotes"):
        for node, kind in attr_writers(ctx.repo, attr, include_mutating_calls=False):
            q = func_qual_of(ctx.repo, node)
            if "/aio/proto/stacking.py" not in q or kind != "assign":
                continue
            nb += 1
            ctx.check(q.endswith("RemoteStack.__init__"), "T4-index-identity", node, "self.%s rebound in %s" % (attr, q.split(":")[1]),
                      "rebinding one index (e.g. to a fresh odict to 'clear' it) detaches it from its alias .uidRemotes / from the "
                      "container the stack was given: later adds land in some indexes and not in others")
    ctx.floor("T4-index-identity:bindings", nb, 3)
    R = ctx.cls("stacking", "RemoteStack")
    views = {}
    for name in ("addRemote", "moveRemote", "renameRemote", "rehaRemote", "removeRemote"):
        f = R.own_method(name)
        V = FuncView(ctx, f)
        views[name] = V
        muts = _mutations(V)
        raises = [n for n in V.cfg.nodes if n.kind == "raise"]
        V.need(muts, "index mutations in %s" % name)
        V.need(raises, "rejections in %s" % name)
        bad = [(m, r) for m in muts for r in raises if r.id in V.cfg.reachable(m.id)]
        ctx.check(not bad, "T8-atomic", f, "%s: all %d rejection(s) precede the first of %d mutation(s)" % (name, len(raises), len(muts)),
                  "a rejected %s raises after it already changed %s: the uid, name and address indexes no longer contain the same "
                  "remotes (rejected operations must change nothing)" % (name, src(bad[0][0].ast)[:60] if bad else ""))
    A = views["addRemote"]
    for attr, idx in IDX.items():
        t = A.tests(lambda t, attr=attr, idx=idx: src(t).replace(" ", "") == ("remote.%s in self.%s or remote.%s in (self.local.%s,)" % (attr, idx, attr, attr)).replace(" ", ""))
        st = [n for n in A.cfg.nodes if any(isinstance(x, ast.Subscript) and isinstance(x.ctx, ast.Store) and src(x) == "self.%s[remote.%s]" % (idx, attr)
                                            for x in A.cfg.walk_node(n))]
        raises = [n for n in A.cfg.nodes if n.kind == "raise"]
        ok = bool(t) and len(st) == 1 and any(A.dominated_by_edge([r], t[0], "T") for r in raises) and A.dominated_by_edge(st, t[0], "F") and \
            src(st[0].ast.value) == "remote"
        ctx.check(ok, "T6-add-remove", A.fn, "addRemote: remote.%s checked against %s and the local device, then self.%s[remote.%s] = remote" % (attr, idx, idx, attr),
                  "the three indexes would not contain exactly the same remotes, or a key could collide with the local device")
    Rm = views["removeRemote"]
    for attr, idx in IDX.items():
        d = [n for n in Rm.cfg.nodes if isinstance(n.ast, ast.Delete) and src(n.ast.targets[0]) == "self.%s[remote.%s]" % (idx, attr)]
        ctx.check(len(d) == 1 and Rm.always_then([Rm.cfg.entry], d, skip_exc=True) is not None, "T6-add-remove", Rm.fn,
                  "removeRemote deletes self.%s[remote.%s]" % (idx, attr), "a removed remote would stay in one index")
    for name, attr in (("moveRemote", "uid"), ("renameRemote", "name"), ("rehaRemote", "ha")):
        V = views[name]
        idx = IDX[attr]
        t = src(V.fn)
        attrs_set = {x.attr for n in V.cfg.nodes for x in V.cfg.walk_node(n) if isinstance(x, ast.Attribute) and isinstance(x.ctx, ast.Store) and dotted(x.value) == "remote"}
        idx_touched = {i for i in IDX.values() if any(i in src(m.ast) for m in _mutations(V))}
        ok = attrs_set == {attr} and idx_touched == {idx}
        ok = ok and ("index = self.%s.keys().index(old)" % idx) in t and ("del self.%s[old]" % idx) in t and \
            ("self.%s.insert(index, new, remote)" % idx) in t and ("remote.%s = new" % attr) in t and ("old = remote.%s" % attr) in t
        chk = V.tests(lambda tt, attr=attr, idx=idx: src(tt).replace(" ", "") == ("new in self.%s or new in (self.local.%s,)" % (idx, attr)).replace(" ", ""))
        same = V.tests(lambda tt, idx=idx: src(tt) == "remote is not self.%s[old]" % idx)
        ok = ok and bool(chk) and bool(same)
        # order: index computed before delete, delete before insert
        V2 = V
        ix = [n for n in V2.cfg.nodes if isinstance(n.ast, ast.Assign) and dotted(n.ast.targets[0]) == "index"]
        dl = [n for n in V2.cfg.nodes if isinstance(n.ast, ast.Delete)]
        ins = V2.call_nodes("self.%s.insert" % idx)
        ok = ok and bool(ix) and bool(dl) and bool(ins) and V2.dominated(dl, ix) and V2.dominated(ins, dl)
        ctx.check(ok, "T6-rekey", V.fn, "%s: remote.%s = new; %s re-keyed old->new at the same position; new checked against %s and local.%s" % (name, attr, idx, idx, attr),
                  "a re-key must change exactly its own attribute and index, keep the remote's position in iteration order, and refuse "
                  "keys that collide with another remote or with the local device")
    defect_scope(ctx, "D-scope", [views[k].fn for k in views], max_depth=0, floor=5, label="scope: RemoteStack remote index methods")
