"""C37 - a stack's remote indexes stay mutually consistent."""
import ast

from ..model import AnchorError, call_name, const_str, dotted, src
from ..rules import FuncView, suffix_match, defect_scope, path_condition, formula_implies

EXPLANATION = (
    "Failure atomicity (T8) of addRemote/moveRemote/renameRemote/rehaRemote/removeRemote: every raise precedes "
    "the first mutation of an index or of the remote (no CFG path mutation ... raise); key<->index coherence: "
    "add inserts into all three indexes under uid/name/ha after checking each key against its index and the local "
    "device, remove deletes from all three; each re-key method sets exactly its own attribute and re-keys exactly "
    "its own index at the same position (index = keys().index(old); del; insert(index, new, remote)) after "
    "checking the new key against that index and the local device and that the remote is the one indexed; "
    "internal-error detectors on the rejection paths.")
NOT_DECIDED = "consistency over arbitrary operation sequences at run time (what devicing's setters do is outside)"

IDX = {"uid": "uidRemotes", "name": "nameRemotes", "ha": "haRemotes"}


def _mutations(V):
    out = []
    for n in V.cfg.nodes:
        for x in V.cfg.walk_node(n):
            if isinstance(x, ast.Subscript) and isinstance(x.ctx, (ast.Store, ast.Del)):
                out.append(n)      # any item store/delete: in these functions only the indexes are subscripted for writing
            elif isinstance(x, ast.Call) and isinstance(x.func, ast.Attribute) and x.func.attr in ("insert", "pop", "clear", "update", "setdefault", "append") \
                    and not src(x.func.value).startswith("console"):
                out.append(n)
            elif isinstance(x, ast.Attribute) and isinstance(x.ctx, ast.Store) and dotted(x.value) == "remote":
                out.append(n)
    seen, res = set(), []
    for n in out:
        if n.id not in seen:
            seen.add(n.id)
            res.append(n)
    return res


def check(ctx):
    from .c39 import insert_at_index
    insert_at_index(ctx, "T9-insert")
    ctx.rule("T8-atomic", "no path from a mutation (index write or remote attribute write) to a raise")
    ctx.rule("T6-add-remove", "add checks and inserts all three keys; remove deletes all three")
    ctx.rule("T6-rekey", "move/rename/reha: own attribute, own index, same position, new key checked against index and local")
    ctx.rule("T4-index-identity", "the index containers (.remotes/.uidRemotes/.nameRemotes/.haRemotes) are bound once, in __init__: "
             ".remotes and .uidRemotes are two names of one odict and callers may hold the containers they passed in")
    from ..rules import attr_writers, func_qual_of
    nb = 0
    for attr in ("remotes", "uidRemotes", "nameRemotes", "haRemotes"):
        for node, kind in attr_writers(ctx.repo, attr, include_mutating_calls=False):
            q = func_qual_of(ctx.repo, node)
            if "/aio/proto/stacking.py" not in q or kind != "assign":
                continue
            nb += 1
            ctx.check(q.endswith("RemoteStack.__init__"), "T4-index-identity", node, "self.%s rebound in %s" % (attr, q.split(":")[1]),
                      "rebinding one index (e.g. to a fresh odict to 'clear' it) detaches it from its alias .uidRemotes / from the "
                      "container the stack was given: later adds land in some indexes and not in others")
    ctx.floor("T4-index-identity:bindings", nb, 3)
    R = ctx.cls("stacking", "RemoteStack")
    views = {}
    for name in ("addRemote", "moveRemote", "renameRemote", "rehaRemote", "removeRemote"):
        f = R.own_method(name)
        V = FuncView(ctx, f)
        views[name] = V
        muts = _mutations(V)
        raises = [n for n in V.cfg.nodes if n.kind == "raise"]
        V.need(muts, "index mutations in %s" % name)
        V.need(raises, "rejections in %s" % name)
        bad = [(m, r) for m in muts for r in raises if r.id in V.cfg.reachable(m.id)]
        ctx.check(not bad, "T8-atomic", f, "%s: all %d rejection(s) precede the first of %d mutation(s)" % (name, len(raises), len(muts)),
                  "a rejected %s raises after it already changed %s: the uid, name and address indexes no longer contain the same "
                  "remotes (rejected operations must change nothing)" % (name, src(bad[0][0].ast)[:60] if bad else ""))
    A = views["addRemote"]
    for attr, idx in IDX.items():
        st = [n for n in A.cfg.nodes if isinstance(n.ast, ast.Assign) and any(
            isinstance(x, ast.Subscript) and isinstance(x.ctx, ast.Store) and src(A.sym(x.value, n)) == "self." + idx for x in n.ast.targets)]
        ok = len(st) == 1
        if ok:
            tg = st[0].ast.targets[0]
            ok = src(A.sym(tg.slice, st[0])) == "remote." + attr and src(A.sym(st[0].ast.value, st[0])) == "remote"
            pc = path_condition(A, st[0], start=[A.cfg.entry.id])
            ok = ok and formula_implies(pc, "not (remote.%s in self.%s) and not (remote.%s == self.local.%s)" % (attr, idx, attr, attr))
        ctx.check(ok, "T6-add-remove", A.fn, "addRemote: remote.%s checked against %s and the local device, then self.%s[remote.%s] = remote" % (attr, idx, idx, attr),
                  "the three indexes would not contain exactly the same remotes, or a key could collide with the local device")
    Rm = views["removeRemote"]
    for attr, idx in IDX.items():
        d = [n for n in Rm.cfg.nodes if isinstance(n.ast, ast.Delete) and src(n.ast.targets[0]) == "self.%s[remote.%s]" % (idx, attr)]
        ctx.check(len(d) == 1 and Rm.always_then([Rm.cfg.entry], d, skip_exc=True) is not None, "T6-add-remove", Rm.fn,
                  "removeRemote deletes self.%s[remote.%s]" % (idx, attr), "a removed remote would stay in one index")
    for name, attr in (("moveRemote", "uid"), ("renameRemote", "name"), ("rehaRemote", "ha")):
        V = views[name]
        idx = IDX[attr]
        cfg = V.cfg
        sv = lambda e, n: src(V.sym(e, n))
        astores = [(n, x) for n in cfg.nodes for x in cfg.walk_node(n) if isinstance(x, ast.Attribute) and isinstance(x.ctx, ast.Store)
                   and dotted(x.value) == "remote"]
        muts = _mutations(V)
        idx_touched = {i for i in IDX.values() for m in muts for x in cfg.walk_node(m)
                       if isinstance(x, (ast.Subscript, ast.Attribute)) and src(V.sym(x, m)).startswith("self." + i)}
        ok = {x.attr for _, x in astores} == {attr} and idx_touched == {idx}
        why = []
        if not ok:
            why.append("touches attributes %s / indexes %s" % (sorted({x.attr for _, x in astores}), sorted(idx_touched)))
        # the attribute takes the new key; the old key is read before that
        setn = [n for n, x in astores if x.attr == attr]
        ok1 = bool(setn) and all(isinstance(n.ast, ast.Assign) and sv(n.ast.value, n) == "new" for n in setn)
        readers = [n for n in cfg.nodes if n not in setn and any(isinstance(x, ast.Attribute) and isinstance(x.ctx, ast.Load) and
                                                                  src(x) == "remote." + attr for x in cfg.walk_node(n))]
        ok1 = ok1 and not any(r.id in cfg.reachable(s_.id) for s_ in setn for r in readers if r.id != s_.id)
        if not ok1:
            why.append("remote.%s = new missing, or the old key is read after it" % attr)
        # the index entry: delete old, insert (position of old, new, remote)
        dl = [n for n in cfg.nodes if isinstance(n.ast, ast.Delete) and any(sv(t, n) == "self.%s[remote.%s]" % (idx, attr) for t in n.ast.targets)]
        ins = [(n, c) for n, c in V.calls("self.%s.insert" % idx)]
        ok2 = len(dl) == 1 and len(ins) == 1
        if ok2:
            n, c = ins[0]
            args = [sv(a_, n) for a_ in c.args]
            ok2 = args == ["self.%s.keys().index(remote.%s)" % (idx, attr), "new", "remote"] and not c.keywords
            # the position is taken before the delete, the insert comes after the delete
            pos = [d for d in cfg.nodes if isinstance(d.ast, ast.Assign) and ".keys().index(" in src(d.ast.value)]
            ok2 = ok2 and V.dominated([n], dl) and (not pos or V.dominated(dl, pos)) and (bool(pos) or False)
        if not ok2:
            why.append("index entry is not moved old -> (same position, new, remote)")
        # accepted only if the new key is free (index and local device) and the remote is the one indexed under the old key
        ok3 = bool(dl) and formula_implies(path_condition(V, dl[0], start=[cfg.entry.id]),
                                           "not (new in self.%s) and not (new == self.local.%s) and remote.%s in self.%s and remote is self.%s[remote.%s]"
                                           % (idx, attr, attr, idx, idx, attr))
        if not ok3:
            why.append("acceptance condition does not imply: new key free in %s and != local.%s, old key present, remote identical to the indexed one" % (idx, attr))
        ctx.check(ok and ok1 and ok2 and ok3, "T6-rekey", V.fn,
                  "%s: remote.%s = new; %s re-keyed old->new at the same position; new checked against %s and local.%s%s"
                  % (name, attr, idx, idx, attr, (" [" + "; ".join(why) + "]") if why else ""),
                  "a re-key must change exactly its own attribute and index, keep the remote's position in iteration order, and refuse "
                  "keys that collide with another remote or with the local device")
    defect_scope(ctx, "D-scope", [views[k].fn for k in views], max_depth=0, floor=5, label="scope: RemoteStack remote index methods")
