"""C27 - reconnectable clients and stacks eventually reconnect (guard clauses)."""
import ast

from ..model import AnchorError, call_name, const_str, dotted, src
from ..rules import FuncView, suffix_match

EXPLANATION = (
    "Guard clauses of the three reconnect sites (Client.serviceConnect, Patron.serviceAll, "
    "TcpClientStack.serviceConnect): every automatic reopen() is dominated by `reconnectable` and by `timeout > 0.0 "
    "and timer.expired`, and is followed by a restart of the timer (so a non-reconnectable client has no path to "
    "reopen from its service loop, and a reconnectable one retries once per timeout); a connect attempt is made "
    "whenever the client is not connected; Client.accept on success records the live socket's addresses "
    "(ca = getsockname(), ha = getpeername()), sets accepted and clears cutoff, and reopens when the server is not "
    "listening (EINVAL/ECONNREFUSED); the stack copies handler.ca into local.ha once connected.")
NOT_DECIDED = "`within a bounded number of service calls` - liveness over schedules is not a static property"

SITES = [("tcp.clienting", "Client", "serviceConnect", "self", "self.reopen", ("self.timer.restart",)),
         ("http.clienting", "Patron", "serviceAll", "self.connector", "self.connector.reopen", ("self.connector.timer.restart",)),
         ("stacking", "TcpClientStack", "serviceConnect", "self.handler", "self.handler.reopen", ("self.handler.refresh", "self.handler.timer.restart"))]


def check(ctx):
    ctx.rule("T1-reopen", "reopen() in a service loop is dominated by <c>.reconnectable and <c>.timeout > 0.0 and <c>.timer.expired, then the timer restarts")
    ctx.rule("T2-attempt", "a connect attempt is made on every service call while not connected")
    ctx.rule("T9-accept", "Client.accept success: ca = getsockname(), ha = getpeername(), accepted = True, cutoff = False")
    for modn, cn, meth, recv, reopen, restarts in SITES:
        f = ctx.cls(modn, cn).own_method(meth)
        V = FuncView(ctx, f)
        ro = V.need(V.call_nodes(reopen), "%s() in %s.%s" % (reopen, cn, meth))
        need = {recv + ".reconnectable", recv + ".timeout > 0.0", recv + ".timer.expired"}
        rs = V.call_nodes(restarts)
        ok = all(need <= V.symfacts(r) for r in ro)
        if cn == "TcpClientStack":
            # a lost connection only sets .cutoff (the transport keeps .connected True): the reconnect arm must be reachable
            # while the handler still reports connected
            ok = ok and not any(("not %s.connected" % recv) in V.symfacts(r) for r in ro)
        ok = ok and bool(rs) and all(V.cfg.always_reaches([r.id], [x.id for x in rs]) for r in ro)
        ctx.check(ok, "T1-reopen", f, "%s.%s: %s() only if reconnectable and timeout elapsed, then timer restarted" % (cn, meth, reopen),
                  "a client that is not reconnectable must never reopen on its own, and a reconnectable one must wait its "
                  "reconnect timeout between attempts (and restart the timer, otherwise it reopens on every service call and "
                  "never completes a connection)")
    cutoff_detection(ctx)
    timer_time_base(ctx)
    stamper_aliases(ctx)
    ctx.rule("T4-lifecycle", "receive()/send() of the client transports only classify errors and flag cutoff: they never close/open the socket")
    for cn in ("Client", "ClientTls"):
        for meth in ("receive", "send"):
            fm = ctx.cls("tcp.clienting", cn).own_method(meth)
            W = FuncView(ctx, fm)
            life = [c for n, c in W.attr_calls(("close", "shutclose", "reopen", "open", "shutdown"))
                    if isinstance(c.func.value, ast.Name) and c.func.value.id == "self"]
            ctx.check(not life, "T4-lifecycle", fm, "%s.%s makes no socket lifecycle call%s" % (cn, meth, (": " + src(life[0])) if life else ""),
                      "Client.accept() reopens whenever the socket object is gone (`if not self.cs: self.reopen()`) and the service "
                      "loops attempt a connect whenever not connected: a transport that closes its socket on a cut off therefore "
                      "reopens and reconnects on the next service call even when it is not reconnectable")
    cs = ctx.cls("tcp.clienting", "Client").own_method("serviceConnect")
    V = FuncView(ctx, cs)
    def attempted(W, cond, calls):
        """the connect attempt is made exactly when `cond` (not connected) holds at the first test of it: guarded by it and
        reached on every path leaving that test on the edge where it holds"""
        pts = W.ptests(cond)
        if not pts or not calls:
            return False
        t, lab = pts[0]
        start = [b for b, l in W.cfg.succ[t.id] if l == lab]
        via = [c.id for c in calls]
        escaped = W.cfg.reachable(start, removed_nodes=via) if start else {W.cfg.exit.id}
        first_pass = all(s_ in via for s_ in start)
        return W.dominated_by_edge(calls, t, lab) and bool(start) and (first_pass or W.cfg.exit.id not in escaped) \
            and W.cfg.exit.id not in W.cfg.reachable(W.cfg.entry.id, removed_nodes=[t.id])
    cn_ = V.call_nodes("self.connect")
    ok = attempted(V, "not self.connected", cn_)
    rets = [n for n in V.cfg.nodes if n.kind == "return"]
    ok = ok and bool(rets) and all(src(r.ast.value) == "self.connected" for r in rets)
    ctx.check(ok, "T2-attempt", cs, "Client.serviceConnect: if not connected: connect() ...; return self.connected", "")
    pa = ctx.cls("http.clienting", "Patron").own_method("serviceAll")
    P = FuncView(ctx, pa)
    sc = P.call_nodes("self.connector.serviceConnect")
    okp = attempted(P, "not self.connector.connected", sc)
    if not okp:      # the connector may be held in a local
        for nm in {x.id for n in P.cfg.nodes for x in P.cfg.walk_node(n) if isinstance(x, ast.Name) and isinstance(x.ctx, ast.Store)}:
            okp = okp or attempted(P, "not %s.connected" % nm, sc)
    ctx.check(okp, "T2-attempt", pa,
              "Patron.serviceAll: every call attempts serviceConnect() while not connected", "")
    ts = ctx.cls("stacking", "TcpClientStack").own_method("serviceConnect")
    T = FuncView(ctx, ts)
    sc = T.call_nodes("self.handler.serviceConnect")
    st = [n for n in T.cfg.nodes if isinstance(n.ast, ast.Assign) and src(n.ast.targets[0]) == "self.local.ha"]
    ok = bool(sc) and bool(st) and src(T.sym(st[0].ast.value, st[0])) == "self.handler.ca" and T.dominated(st, sc) and \
        all("self.handler.connected" in T.symfacts(x) for x in st)
    ctx.check(ok, "T9-accept", ts, "TcpClientStack.serviceConnect: once connected local.ha = handler.ca", "the stack reports the live socket's local address")
    ac = ctx.cls("tcp.clienting", "Client").own_method("accept")
    A = FuncView(ctx, ac)
    asg = {src(n.ast.targets[0]): src(n.ast.value) for n in A.cfg.nodes if isinstance(n.ast, ast.Assign)}
    want = {"self.ca": "self.cs.getsockname()", "self.ha": "self.cs.getpeername()", "self.accepted": "True", "self.cutoff": "False"}
    ok = all(asg.get(k) == v for k, v in want.items())
    succ_t = A.tests(lambda t: src(t).replace(" ", "") == "resultnotin[0,errno.EISCONN]")
    stores = [n for n in A.cfg.nodes if isinstance(n.ast, ast.Assign) and src(n.ast.targets[0]) in want]
    ok = ok and bool(succ_t) and all(A.dominated_by_edge([s], succ_t[0], "F") for s in stores)
    rets_t = [n for n in A.cfg.nodes if n.kind == "return" and A.dominated_by_edge([n], succ_t[0], "F")] if succ_t else []
    ok = ok and bool(rets_t) and all(isinstance(r.ast.value, ast.Constant) and r.ast.value.value is True for r in rets_t)
    ctx.check(ok, "T9-accept", ac, "Client.accept success path records getsockname/getpeername, accepted, not cutoff; returns True",
              "after a (re)connect the client must report the live socket's local and peer addresses")
    lt = A.tests(lambda t: src(t).replace(" ", "") == "resultin(errno.EINVAL,errno.ECONNREFUSED)")
    ro = A.call_nodes("self.reopen")
    ctx.check(bool(lt) and any(A.dominated_by_edge([r], lt[0], "T") for r in ro), "T9-accept", ac, "accept: server not listening => reopen the socket",
              "a refused socket cannot be reused for the next attempt")


def _always(ctx, rule, modn, cn, fname, pat, what, why):
    """`pat` is called on every pass through cn.fname (its path condition is a tautology)"""
    from ..rules import path_condition, formula_equiv
    f = ctx.cls(modn, cn).own_method(fname)
    V = FuncView(ctx, f)
    sites = V.need(V.call_nodes(pat), "%s call in %s.%s" % (pat, cn, fname))
    pc = ("or", [path_condition(V, n, start=[V.cfg.entry.id]) for n in sites])
    ctx.check(formula_equiv(pc, "True"), rule, sites[0].ast, what, why)


def cutoff_detection(ctx):
    ctx.rule("T2-listen", "the Patron reads its socket on every service pass (a cut-off is only ever noticed by receive())")
    why = ("a connection dropped while no response is outstanding is never read, so .cutoff is never set and the reconnect arm of "
           "serviceAll never fires: the reconnectable client keeps the dead socket for ever")
    _always(ctx, "T2-listen", "aio.http.clienting", "Patron", "serviceAll", "self.serviceResponse",
            "Patron.serviceAll calls serviceResponse() unconditionally", why)
    _always(ctx, "T2-listen", "aio.http.clienting", "Patron", "serviceResponse", "self.connector.serviceReceives",
            "Patron.serviceResponse calls connector.serviceReceives() unconditionally", why)


def timer_time_base(ctx):
    """the reconnect timer of a client transport is a StoreTimer on the store it was given; whoever builds the transport and then
    waits for `timer.expired` must hand it the object whose stamp it advances - otherwise the timer watches a private store that
    never moves and never expires"""
    ctx.rule("T5-timebase", "every construction of tcp Client/ClientTls by a stack or Patron passes store=<the owner's store/stamper>")
    sites = 0
    for modn, cn, want in (("stacking", "TcpClientStack", ("self.stamper",)),
                           ("http.clienting", "Patron", ("self.store", "self.connector.store", "store"))):
        C = ctx.cls(modn, cn)
        for mname, f in sorted(C.methods.items()):
            V = None
            for x in ast.walk(f):
                if isinstance(x, ast.Call) and (dotted(x.func) or "").split(".")[-1] in ("Client", "ClientTls"):
                    sites += 1
                    V = V or FuncView(ctx, f)
                    node = [n for n, c in V.calls((dotted(x.func),)) if c is x]
                    kw = {k.arg: k.value for k in x.keywords if k.arg}
                    val = src(V.sym(kw["store"], node[0])) if "store" in kw and node else (src(kw["store"]) if "store" in kw else None)
                    ctx.check(val in want, "T5-timebase", x, "%s.%s builds its %s with store=%s" % (cn, mname, dotted(x.func), val),
                              "the transport's reconnect timer must run on the time base its owner advances: without it a "
                              "reconnectable client that was cut off waits for a timer that never expires and never reopens")
    ctx.floor("T5-timebase:sites", sites, 5)


def stamper_aliases(ctx):
    """a stack advances its time with stamper.advanceStamp(delta) (the Store interface name of Stamper.advance): the alias must be
    bound to the method it is named after"""
    ctx.rule("T6-stamper", "Stamper.advanceStamp is advance, Stamper.changeStamp is change (class-level aliases)")
    C = ctx.cls("aid.timing", "Stamper")
    for alias, want in (("advanceStamp", "advance"), ("changeStamp", "change")):
        sts = [st for st in C.node.body if isinstance(st, ast.Assign) and any(isinstance(t, ast.Name) and t.id == alias for t in st.targets)]
        defs = [st for st in C.node.body if isinstance(st, ast.FunctionDef) and st.name == alias]
        ok = (len(sts) == 1 and not defs and isinstance(sts[0].value, ast.Name) and sts[0].value.id == want) or \
            (len(defs) == 1 and not sts)
        ctx.check(ok, "T6-stamper", sts[0] if sts else C.node, "Stamper.%s = %s" % (alias, want),
                  "advanceStamp bound to change() *sets* the stamp to the increment instead of adding it: stack time never passes "
                  "the reconnect timer's stop, so a cut-off reconnectable client never reopens")
