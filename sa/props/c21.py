"""C21 - comparison conditions evaluate exactly the written comparison."""
import ast

from ..model import AnchorError, call_name, const_str, dotted, src
from ..rules import FuncView, suffix_match, module_assign, defect_scope
from ..ioflo_model import literal_string_list
from . import _framing

EXPLANATION = (
    "Table agreement: the comparison words Need.Check dispatches on = building.Comparisons = the words "
    "parseComparisonOpt/Req accept; for each word the value returned is a Compare of state (left) with goal "
    "(right) using the AST operator the word denotes; '==' is the chained goal-|tol| <= state <= goal+|tol| with "
    "TypeError -> goal == state and '!=' is `not` of exactly that expression with TypeError -> goal != state; an "
    "unknown word gives False; NeedDirect/NeedIndirect pass (state[stateField], comparison, goal|goal[goalField], "
    "tolerance) positionally; NeedBoolean is the truthiness of state[stateField]; Nact negates; makeNeed wraps in "
    "Nact iff `not` was consumed; consumers of need lists stop at the first falsy need and the parsers require "
    "`and` between needs.")
NOT_DECIDED = "numeric edge cases of float tolerance arithmetic"

OPS = {"<": ast.Lt, "<=": ast.LtE, ">=": ast.GtE, ">": ast.Gt}
BAND = "goal - abs(tolerance) <= state <= goal + abs(tolerance)"


def check(ctx):
    ctx.rule("T6-table", "Need.Check literals == Comparisons == parser-accepted words")
    ctx.rule("T9-op", "each word returns the comparison it denotes, state on the left, goal on the right")
    ctx.rule("T9-args", "Need*.action pass arguments to Check in order; NeedBoolean truthiness; Nact = not")
    ctx.rule("T1-conj", "need lists are conjunctions: first falsy need ends evaluation; parsers require 'and'")
    bm = ctx.repo.mod("building")
    ctx.use(bm)
    _framing.act_clone_preserves_class(ctx, "T9-args")      # `not <comparison>` survives cloning: Nact stays Nact
    comps = literal_string_list(module_assign(bm, "Comparisons"))
    if comps is None:
        raise AnchorError("Comparisons is not a literal list")
    nc = ctx.fn("needing", "Need.Check")
    V = FuncView(ctx, nc, exc="calls")   # arithmetic in the try bodies may raise TypeError
    # Need.Check is decided by PARTIAL EVALUATION: for each comparison word w the function is specialised to
    # comparison == w (tests on `comparison` fold, straight-line locals are carried along each feasible path) and what it
    # returns is compared with what w denotes.  Independent of the dispatch's spelling (elif chain, early returns, flags).
    from ..rules import peval

    def spell(e):
        # one orientation for orderings: `goal > state` is `state < goal`
        if isinstance(e, ast.Compare) and len(e.ops) == 1 and dotted(e.left) == "goal" and dotted(e.comparators[0]) == "state":
            sw = {ast.Lt: ast.Gt, ast.Gt: ast.Lt, ast.LtE: ast.GtE, ast.GtE: ast.LtE}.get(type(e.ops[0]))
            if sw:
                e = ast.Compare(left=e.comparators[0], ops=[sw()], comparators=[e.left])
        return src(e).replace("(", "").replace(")", "")

    def outcomes(w):
        return [(k, spell(e) if e is not None else None, h) for k, e, h in peval(V, {"comparison": w})]
    unknown = outcomes("\0no-such-comparison")
    ctx.check(bool(unknown) and all(k == "return" and e == "False" for k, e, h in unknown), "T9-op", nc, "unknown comparison -> False", "")
    handled = [w for w in comps if outcomes(w) != unknown]
    ctx.check(sorted(handled) == sorted(comps), "T6-table", nc,
              "Need.Check handles %s; Comparisons = %s" % (sorted(handled), sorted(comps)),
              "a comparison word the builder accepts has no (or a duplicate) implementation in Need.Check: conditions "
              "using it are always false")
    for fname in ("parseComparisonOpt", "parseComparisonReq"):
        f = ctx.fn("building", "Builder." + fname)
        ok = any(isinstance(n, ast.Compare) and dotted(n.left) == "comparison" and dotted(n.comparators[0]) == "Comparisons" for n in ast.walk(f))
        ctx.check(ok, "T6-table", f, "%s tests membership in Comparisons" % fname, "the parser must accept exactly the implemented comparisons")
    band = BAND.replace("(", "").replace(")", "")
    for w in comps:
        got = outcomes(w)
        normal = [e for k, e, h in got if k == "return" and not h]
        alt = [e for k, e, h in got if k == "return" and h]
        other = [x for x in got if x[0] != "return"]
        if w in OPS:
            ok = bool(normal) and all(e == "state %s goal" % w for e in normal + alt) and not other
            ctx.check(ok, "T9-op", nc, "%r -> %s" % (w, sorted(set(normal + alt)) or "?"),
                      "the condition `state %s goal` must be true exactly when state %s goal" % (w, w))
        elif w in ("==", "!="):
            neg = w == "!="
            want_main = ("not " if neg else "") + band
            want_alt = {"goal %s state" % w, "state %s goal" % w}
            ok = bool(normal) and all(e == want_main for e in normal) and bool(alt) and all(e in want_alt for e in alt) and not other
            ctx.check(ok, "T9-op", nc, "%r -> %s%s, TypeError -> goal %s state (got %s / %s)" % (w, "not " if neg else "", BAND, w, sorted(set(normal)), sorted(set(alt))),
                      "'%s' must mean %s(goal-|tol| <= state <= goal+|tol|) for numbers and %s otherwise" %
                      (w, "not " if neg else "", "inequality" if neg else "equality"))
        else:
            ctx.check(False, "T6-table", nc, "comparison word %r has no documented meaning in this check" % w, "")
    hs = [h for h in V.cfg.nodes if h.kind == "except"]
    ctx.check(all(dotted(h.ast.type) == "TypeError" for h in hs), "T9-op", nc, "only TypeError is handled in Need.Check", "")
    for cname, want in (("NeedDirect", ["state[stateField]", "comparison", "goal", "tolerance"]),
                        ("NeedIndirect", ["state[stateField]", "comparison", "goal[goalField]", "tolerance"])):
        f = ctx.fn("needing", cname + ".action")
        W = FuncView(ctx, f)
        cn_ = W.calls("self.Check")
        calls = [c for n, c in cn_]
        # the arguments by value (a field read hoisted into a local is the same argument)
        ok = len(calls) == 1 and [src(W.sym(a, cn_[0][0])) for a in calls[0].args] == want and not calls[0].keywords
        rets = [n for n in W.cfg.nodes if n.kind == "return"]
        ok = ok and bool(rets) and all(src(W.sym(r.ast.value, r)).startswith("self.Check(") for r in rets)
        ctx.check(ok, "T9-args", f, "%s.action returns self.Check(%s)" % (cname, ", ".join(want)),
                  "state must be compared with the goal in the written direction")
    nb = ctx.fn("needing", "NeedBoolean.action")
    Bv = FuncView(ctx, nb)
    from ..rules import truthiness_of
    rets = [n for n in Bv.cfg.nodes if n.kind == "return"]
    vals = [truthiness_of(Bv.sym(r.ast.value, r)) for r in rets if r.ast.value is not None]
    ok = bool(rets) and len(vals) == len(rets) and all(v is not None and src(v) == "state[stateField]" for v in vals)
    ctx.check(ok, "T9-args", nb, "NeedBoolean: truthiness of state[stateField]", "a bare `if state` is the truthiness of the state field")
    na = ctx.fn("acting", "Nact.__call__")
    r = [n for n in ast.walk(na) if isinstance(n, ast.Return)]
    ctx.check(len(r) == 1 and src(r[0].value).replace("(", "").replace(")", "") == "not self.actor**self.parms", "T9-args", na,
              "Nact.__call__ = not actor(**parms)", "`not` negates the need")
    ac = ctx.fn("acting", "Act.__call__")
    r = [n for n in ast.walk(ac) if isinstance(n, ast.Return)]
    ctx.check(len(r) == 1 and src(r[0].value).replace("(", "").replace(")", "") == "self.actor**self.parms", "T9-args", ac, "Act.__call__ = actor(**parms)", "")
    mn = ctx.fn("building", "Builder.makeNeed")
    M = FuncView(ctx, mn)
    from ..rules import path_condition, formula_equiv
    neg = [n for n in M.cfg.nodes if isinstance(n.ast, ast.Assign) and dotted(n.ast.targets[0]) == "negate"]
    wrap = M.call_nodes("acting.Nact")
    entry = [M.cfg.entry.id]
    NOT = "tokens[index] == 'not'"
    # the flag holds exactly "the clause began with `not`" ...
    ok = bool(neg) and bool(wrap)
    for n in neg:
        v = n.ast.value
        if isinstance(v, ast.Constant) and v.value is True:
            ok = ok and formula_equiv(path_condition(M, n, start=entry, by_value=False), NOT)
        elif isinstance(v, ast.Constant) and v.value is False:
            ok = ok and formula_equiv(path_condition(M, n, start=entry, by_value=False), "True")
        else:
            ok = ok and src(v).replace("(", "").replace(")", "") in (NOT, "True if %s else False" % NOT) and \
                formula_equiv(path_condition(M, n, start=entry, by_value=False), "True")
    # ... and the Nact wrapper is applied exactly when the flag is set
    from ..rules import group_condition
    ok = ok and formula_equiv(group_condition(M, wrap, by_value=False), "negate")
    ctx.check(ok, "T9-args", mn, "makeNeed wraps in Nact iff the `not` token was consumed", "negation must follow the script")
    # ... and no form of need gets out of makeNeed without passing the negation decision: every return of a built act is
    # preceded, on every path, by the test of `negate`
    rets = [n for n in M.cfg.nodes if n.kind == "return" and n.ast.value is not None]
    gts = M.ptests("negate")
    ctx.check(bool(rets) and bool(gts) and all(M.dominated([r], [g for g, _ in gts]) for r in rets), "T9-args", mn,
              "every return of makeNeed passes the `if negate` decision",
              "a need form that returns early (e.g. the bare `elapsed`/`recurred` form) silently drops a leading `not`")
    w = [c for n, c in M.calls("acting.Nact")]
    if w:
        kw = {k.arg: src(k.value) for k in w[0].keywords}
        ctx.check(kw.get("actor") == "act.actor" and kw.get("parms") == "act.parms" and kw.get("registrar") == "act.registrar", "T9-args", w[0],
                  "Nact reuses the need's actor, registrar and parms", "the negated need must be the same need")
    # conjunction
    for qual, loopvar in (("acting.py:Transiter.action", "needs"), ("acting.py:Suspender.action", "needs"), ("framing.py:Frame.checkEnter", "self.beacts")):
        modn, q = qual.split(":")
        f = ctx.fn(modn[:-3], q)
        W = FuncView(ctx, f)
        lp = W.need(_framing.loops_over(W, loopvar), "loop over %s" % loopvar)
        t = W.tests(lambda t: isinstance(t, ast.UnaryOp) and isinstance(t.op, ast.Not) and isinstance(t.operand, ast.Call) and
                    dotted(t.operand.func) in ("act", "need"))
        rets = [n for n in W.cfg.nodes if n.kind == "return"]
        ok = bool(t) and any(W.dominated_by_edge([r], t[0], "T") for r in rets) and _framing.every_iteration_passes(W, lp[0], t)
        ctx.check(ok, "T1-conj", f, "%s: every need evaluated until the first falsy one" % q, "needs joined by `and` are a conjunction")
    for bname in ("buildGo", "buildLet", "buildAux"):
        f = ctx.fn("building", "Builder." + bname)
        ok = any(isinstance(n, ast.Compare) and dotted(n.left) == "connective" and isinstance(n.ops[0], ast.NotIn) and
                 literal_string_list(n.comparators[0]) == ["and"] for n in ast.walk(f))
        ctx.check(ok, "T1-conj", f, "%s: needs must be joined by 'and'" % bname, "any other joiner is a parse error")
    N = ctx.cls("needing", "Need")
    entries = [nc] + [c.methods[m] for c in N.subclasses() for m in ("action",) if m in c.methods]
    defect_scope(ctx, "D-scope", entries, max_depth=0, floor=8, label="scope: Need.Check and Need*.action")
