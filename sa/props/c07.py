"""C07 - framer runs agree with a reference interpreter of FloScript semantics (structural sub-clauses only)."""
import ast

from ..model import AnchorError, call_name, const_str, dotted, src, parent
from ..rules import FuncView, suffix_match, defect_scope, func_qual_of
from ..ioflo_model import registry_members, kwarg, literal_string_list, registry_root
from ..callgraph import FuncT
from . import _framing

EXPLANATION = (
    "Only structural sub-clauses are decided: (a) top-down / first-wins evaluation order in "
    "Framer.segue, Frame.precur, Transiter.action and the RUN branch of makeRunner; (b) every verb in "
    "VerbList has a build<Verb> method or falls to buildGeneric and every build<Verb> is a listed verb; "
    "(c) builder <-> actor interface agreement for every acting.Act/Nact constructed with a literal "
    "actor name: the name is registered in the registrar passed, the class's _resolve accepts and "
    "needs only keys the builder provides, and action's required parameters are provided by the "
    "builder, by _resolve's additions or by the registry Parms/Ioinits; (d) the native context of each "
    "verb and the seven-context dispatch of Frame.addByContext; internal-error detectors over every "
    "_resolve/action/_prepare the builder can name.")
NOT_DECIDED = ("the bulk of the property: per-tick trace equality with an independent reference interpreter "
               "over generated programs is a runtime differential oracle and is not decided statically")

NATIVE = {"buildDo": "RECUR", "buildPut": "ENTER", "buildInc": "ENTER", "buildCopy": "ENTER", "buildSet": "ENTER",
          "buildPrint": "ENTER", "buildDone": "ENTER", "buildBid": "ENTER", "buildRear": "ENTER", "buildRaze": "EXIT",
          "buildReady": "BENTER", "buildStart": "ENTER", "buildStop": "EXIT", "buildRun": "RECUR", "buildAbort": "ENTER"}
CONTEXT_ADDERS = {"ENTER": "addEnact", "RECUR": "addReact", "PRECUR": "addPreact", "EXIT": "addExact",
                  "RENTER": "addRenact", "REXIT": "addRexact", "BENTER": "addBeact"}


def _dict_keys(fn, name):
    """may-set keys of the dict variable `name` inside fn: literal dict/odict constructions and
    subscript stores with literal keys; second value: open (unknown keys possible)"""
    keys, opened, found = set(), False, False
    for n in ast.walk(fn):
        if isinstance(n, ast.Assign) and any(dotted(t) == name for t in n.targets):
            found = True
            k, o = _literal_keys(n.value)
            keys |= k
            opened = opened or o
        elif isinstance(n, ast.Subscript) and isinstance(n.ctx, ast.Store) and dotted(n.value) == name:
            k = const_str(n.slice)
            if k is None:
                opened = True
            else:
                keys.add(k)
        elif isinstance(n, ast.Call) and isinstance(n.func, ast.Attribute) and dotted(n.func.value) == name \
                and n.func.attr in ("update", "setdefault"):
            if n.func.attr == "setdefault" and n.args and const_str(n.args[0]):
                keys.add(const_str(n.args[0]))
            else:
                k, o = _literal_keys(n.args[0]) if n.args else (set(), False)
                keys |= k | {kw.arg for kw in n.keywords if kw.arg}
                opened = opened or o or any(kw.arg is None for kw in n.keywords)
    return keys, opened or not found


def _literal_keys(v):
    if isinstance(v, ast.Dict):
        ks = [const_str(k) if k is not None else None for k in v.keys]
        return {k for k in ks if k}, None in ks
    if isinstance(v, ast.Call) and (call_name(v) or "").split(".")[-1] in ("dict", "odict"):
        keys, opened = {k.arg for k in v.keywords if k.arg}, any(k.arg is None for k in v.keywords)
        for a in v.args:
            if isinstance(a, (ast.List, ast.Tuple)):
                for e in a.elts:
                    if isinstance(e, (ast.Tuple, ast.List)) and e.elts and const_str(e.elts[0]) is not None:
                        keys.add(const_str(e.elts[0]))
                    else:
                        opened = True
            else:
                kk, oo = _literal_keys(a)
                keys |= kk
                opened = opened or oo or not isinstance(a, (ast.Dict, ast.Call))
        return keys, opened
    if isinstance(v, ast.Constant) and v.value is None:
        return set(), False
    return set(), True


def _class_literal_keys(ci, attr):
    """keys of class attribute Parms / Ioinits along the MRO (nearest definition wins)"""
    for c in ci.mro()[0]:
        if attr in c.class_attrs:
            k, o = _literal_keys(c.class_attrs[attr])
            return k, o
    return set(), False


def _required(fn):
    a = fn.args
    pos = [x.arg for x in a.args][1:]
    nd = len(a.defaults)
    req = pos[: len(pos) - nd] if nd <= len(pos) else []
    req += [x.arg for x, d in zip(a.kwonlyargs, a.kw_defaults) if d is None]
    return req, a.kwarg is not None, pos + [x.arg for x in a.kwonlyargs]


def _resolve_added_keys(ci):
    """keys assigned into `parms[...]` by the _resolve chain of ci"""
    keys = set()
    for c in ci.mro()[0]:
        m = c.methods.get("_resolve")
        if m is None:
            continue
        for n in ast.walk(m):
            if isinstance(n, ast.Subscript) and isinstance(n.ctx, ast.Store) and dotted(n.value) == "parms":
                k = const_str(n.slice)
                if k:
                    keys.add(k)
    return keys


def check(ctx):
    _framing.per_tick_over_actives(ctx)
    repo = ctx.repo
    ctx.rule("T3-firstwins", "segue: auxes first, then precur top-down returning at the first truthy result; "
             "Frame.precur returns True at the first truthy preact; Transiter.action returns None at the "
             "first falsy need before any effect; RUN: segue() then recur()")
    ctx.rule("T6-verbs", "VerbList vs build<Verb> methods")
    ctx.rule("T6-iface", "builder Act(actor=<literal>, registrar=R, parms=P): name registered in R; "
             "required(_resolve) <= keys(P) + Parms; required(action) <= keys + _resolve additions + Ioinits")
    ctx.rule("T6-native", "native context table per verb; addByContext covers the seven contexts")
    # (a)
    sg = ctx.fn("framing", "Framer.segue")
    S = FuncView(ctx, sg)
    loops = _framing.loops_over(S, "self.actives")
    if len(loops) < 2:
        ctx.bad("T3-firstwins", sg, "Framer.segue has %d loop(s) over self.actives" % len(loops),
                "segue must first run the transitions of the auxiliaries of *every* active frame and only then evaluate the "
                "frames' own transitions top-down; fused into one pass, an upper frame's transition is evaluated before a "
                "lower frame's auxiliary has run (it sees the aux's store changes one tick late) and, when it fires, the lower "
                "auxes are not segued that tick")
        return
    pc = [n for n in S.cfg.nodes if n.kind == "test" and any(isinstance(x, ast.Call) and suffix_match(call_name(x), "frame.precur")
                                                             for x in ast.walk(n.ast.test))]
    S.need(pc, "frame.precur() test")
    rets = [n for n in S.cfg.nodes if n.kind == "return"]
    ok = any(S.dominated_by_edge([r], pc[0], "T") for r in rets) and not S.call_nodes(("reversed", "reverse", "sorted"))
    ok = ok and _framing.every_iteration_passes(S, [h for h in loops if id(pc[0].ast) in {id(x) for x in ast.walk(h.ast)}][0], pc)
    ctx.check(ok, "T3-firstwins", sg, "segue evaluates frames of .actives top-down and stops at the first taken transition",
              "transition conditions are evaluated top-down through the active outline and the first taken "
              "transition ends evaluation for the tick")
    fp = ctx.fn("framing", "Frame.precur")
    P = FuncView(ctx, fp)
    rets = [n for n in P.cfg.nodes if n.kind == "return"]
    lp = _framing.loops_over(P, "self.preacts")
    if not lp and len(rets) == 1 and isinstance(rets[0].ast.value, ast.Call) and call_name(rets[0].ast.value) == "any" \
            and len(rets[0].ast.value.args) == 1 and isinstance(rets[0].ast.value.args[0], ast.GeneratorExp):
        # `return any(act() for act in self.preacts)`: a generator (not a list) keeps the short circuit and the order
        g = rets[0].ast.value.args[0]
        ok = len(g.generators) == 1 and src(g.generators[0].iter) == "self.preacts" and not g.generators[0].ifs and \
            isinstance(g.elt, ast.Call) and dotted(g.elt.func) == dotted(g.generators[0].target) and not g.elt.args
    else:
        ok = _framing.precur_first_truthy(ctx, P, rets)
    ctx.check(ok, "T3-firstwins", fp, "precur: for act in preacts: if act(): return True", "preacts run in script order; first truthy interrupts")
    ta = ctx.fn("acting", "Transiter.action")
    T = FuncView(ctx, ta)
    nt = T.need(_framing.need_tests(T),
                "`if not act():` in needs loop")
    rets = [n for n in T.cfg.nodes if n.kind == "return" and T.dominated_by_edge([n], nt[0], "T")]
    ok = bool(rets) and all(r.ast.value is None or (isinstance(r.ast.value, ast.Constant) and r.ast.value.value is None) for r in rets)
    eff = T.call_nodes(("framer.exit", "framer.enter", "framer.activate", "Framer.ExEn", "framer.checkEnter"))
    nl = _framing.loops_over(T, "needs")
    ok = ok and bool(nl) and all(not (T.cfg.reachable(T.cfg.entry.id, removed_edges=T.cfg.edges_from(nl[0].id, "done")) & {e.id}) for e in eff)
    ctx.check(ok, "T3-firstwins", ta, "needs are a conjunction evaluated before any effect", "a transition is taken only if all its conditions hold")
    mr = ctx.fn("framing", "Framer.makeRunner")
    M = FuncView(ctx, mr)
    sg_c = M.need(M.call_nodes("self.segue"), "self.segue()")
    rc_c = [n for n in M.call_nodes("self.recur") if n.id in M.cfg.reachable(sg_c[0].id, removed_nodes=[
        y.id for y in M.cfg.nodes if any(isinstance(x, ast.Yield) for x in M.cfg.walk_node(y))])]
    ctx.check(bool(rc_c) and M.always_then(sg_c, rc_c, ends=[y.id for y in M.cfg.nodes if any(isinstance(x, ast.Yield) for x in M.cfg.walk_node(y))]),
              "T3-firstwins", mr, "RUN: self.segue() then self.recur()", "each run performs transitions then recur actions")

    # (b)
    bm = repo.mod("building")
    ctx.use(bm)
    from ..rules import module_assign
    verbs = literal_string_list(module_assign(bm, "VerbList"))
    if verbs is None:
        raise AnchorError("VerbList is not a literal list")
    B = ctx.cls("building", "Builder")
    builders = {n for n in B.methods if n.startswith("build") and n not in ("build", "buildGeneric") and n[5:6].isupper()}
    ctx.check("buildGeneric" in B.methods, "T6-verbs", B.node, "buildGeneric fallback exists", "verbs without a builder need the fallback")
    for v in verbs:
        has = ("build" + v.capitalize()) in builders
        ctx.check(has or "buildGeneric" in B.methods, "T6-verbs", B.node, "verb %r -> %s" % (v, "build" + v.capitalize() if has else "buildGeneric"),
                  "verb has no handler")
    for b in sorted(builders):
        ctx.check(b[5:].lower() in verbs or b[5:6].lower() + b[6:] in verbs, "T6-verbs", B.methods[b], "%s is a listed verb" % b,
                  "builder method %s is unreachable: its verb is not in VerbList (dispatch refuses it as unknown)" % b)
    disp = B.own_method("dispatch")
    # the method looked up is named 'build' + verb.capitalize(), wherever the name expression is spelled (a local, or inline
    # in hasattr/getattr)
    names = [x for x in ast.walk(disp) if isinstance(x, ast.BinOp) and isinstance(x.op, ast.Add) and
             src(x).replace(" ", "") == "'build'+verb.capitalize()"]
    txt = names
    ctx.check(bool(names) and any(isinstance(x, ast.Call) and call_name(x) == "getattr" for x in ast.walk(disp)), "T6-verbs", disp,
              "dispatch: 'build' + verb.capitalize()", "dispatch naming convention")

    # (c)
    actor_root = ctx.cls("acting", "Actor")
    sites = 0
    named = {}
    for mname, m in B.methods.items():
        for call in [n for n in ast.walk(m) if isinstance(n, ast.Call) and (call_name(n) or "").split(".")[-1] in ("Act", "Nact")
                     and (call_name(n) or "").startswith("acting.")]:
            av = kwarg(call, "actor")
            names = []
            if av is None:
                continue
            if const_str(av) is not None:
                names = [const_str(av)]
            elif isinstance(av, ast.Name):
                for n in ast.walk(m):
                    if isinstance(n, ast.Assign) and any(dotted(t) == av.id for t in n.targets) and const_str(n.value) is not None:
                        names.append(const_str(n.value))
            names = [x for x in names if x]
            if not names:
                continue
            rv = kwarg(call, "registrar")
            rc = repo.resolve_class_expr(bm, rv) if rv is not None else actor_root
            if rc is None:
                ctx.bad("T6-iface", call, src(rv), "registrar expression does not resolve to a class")
                continue
            members = registry_members(repo, rc)
            pv = kwarg(call, "parms")
            if pv is None:
                pkeys, popen = set(), False
            elif isinstance(pv, ast.Name):
                pkeys, popen = _dict_keys(m, pv.id)
            else:
                pkeys, popen = _literal_keys(pv)
            for nm in names:
                sites += 1
                ci = members.get(nm)
                if ci is None:
                    ctx.bad("T6-iface", call, "Act(actor=%r, registrar=%s)" % (nm, rc.name),
                            "no class named %s is registered in %s.Registry: RegisterError/ResolveError when the "
                            "script using this verb is resolved" % (nm, rc.name))
                    continue
                named[ci.qual] = ci
                ctx.use(ci.module)
                regp, ro = _class_literal_keys(ci, "Parms")
                ioik, io = _class_literal_keys(ci, "Ioinits")
                parametric = True
                for c in ci.mro()[0]:
                    if "_Parametric" in c.class_attrs:
                        v = c.class_attrs["_Parametric"]
                        parametric = not (isinstance(v, ast.Constant) and not v.value)
                        break
                have = pkeys | regp | (ioik if parametric else set())
                have.discard("inode")
                opened = popen or ro or io
                rs = ci.method("_resolve")
                problems = []
                if rs is not None:
                    req, haskw, allp = _required(rs)
                    miss = [r for r in req if r not in have]
                    if miss and not opened:
                        problems.append("_resolve of %s requires %s which the builder's parms %s do not provide: TypeError at resolve"
                                        % (ci.name, miss, sorted(pkeys)))
                    if not haskw:
                        extra = [k for k in have if k not in allp]
                        if extra:
                            problems.append("_resolve of %s does not accept %s" % (ci.name, extra))
                have2 = have | _resolve_added_keys(ci)
                ac = ci.method("action")
                if ac is not None:
                    req, haskw, allp = _required(ac)
                    miss = [r for r in req if r not in have2]
                    if miss and not opened:
                        problems.append("action of %s requires %s but only %s are passed: TypeError at the first run"
                                        % (ci.name, miss, sorted(have2)))
                    if not haskw:
                        extra = [k for k in have2 if k not in allp]
                        if extra:
                            problems.append("action of %s does not accept %s: TypeError at the first run" % (ci.name, extra))
                ctx.check(not problems, "T6-iface", call, "%s: Act(actor=%r, parms keys %s)" % (mname, nm, sorted(pkeys)),
                          "; ".join(problems), detail="%s -> %s, keys %s" % (mname, ci.qual, sorted(have2)))
    ctx.floor("T6-iface:sites", sites, 15)

    # (d)
    seen = 0
    for bname, want in NATIVE.items():
        m = B.methods.get(bname)
        if m is None:
            raise AnchorError("Builder.%s not found" % bname)
        V = FuncView(ctx, m)
        got = None
        nt = V.tests(lambda t: isinstance(t, ast.Compare) and src(t) == "context == NATIVE")
        if nt:
            st = [n for n in V.stores("context") if V.dominated_by_edge([n], nt[0], "T")]
            if st and isinstance(st[0].ast, ast.Assign):
                got = dotted(st[0].ast.value)
        else:
            st = [n for n in V.stores("native")]
            if st and isinstance(st[0].ast, ast.Assign):
                got = dotted(st[0].ast.value)
        seen += 1
        ctx.check(got == want, "T6-native", m, "%s native context = %s" % (bname, got),
                  "the documented native context of this verb is %s" % want)
    ctx.floor("T6-native:verbs", seen, 15)
    ab = ctx.fn("framing", "Frame.addByContext")
    A = FuncView(ctx, ab)
    for cname, adder in CONTEXT_ADDERS.items():
        t = A.ptests("context == %s" % cname)
        calls = A.call_nodes("self." + adder)
        ctx.check(bool(t) and bool(calls) and A.under(calls, t[0]), "T6-native", ab,
                  "addByContext: %s -> %s" % (cname, adder), "an action declared for context %s must land in that context's list" % cname)
    rets = [n for n in A.cfg.nodes if n.kind == "return"]
    ctx.check(any(isinstance(r.ast.value, ast.Constant) and r.ast.value.value is False for r in rets), "T6-native", ab,
              "unknown context => False", "an unknown context must be refused")

    # D-scope over the actor classes the builder can name (+ Want/Fiat/Need/Poke/Goal families)
    entries = []
    fams = set(named.values())
    for modn, cn in (("needing", "Need"), ("poking", "Poke"), ("goaling", "Goal"), ("wanting", "Want"), ("fiating", "Fiat"),
                     ("completing", "Complete"), ("doing", "Doer")):
        try:
            root = repo.cls(modn, cn)
        except AnchorError:
            continue
        fams |= set(registry_members(repo, root).values())
    for ci in fams:
        for c in ci.mro()[0]:
            for mn in ("_resolve", "action", "_prepare"):
                f = c.methods.get(mn)
                if f is not None:
                    entries.append(f)
    defect_scope(ctx, "D-scope", entries, max_depth=1, floor=40,
                 label="scope: _resolve/action/_prepare of every actor class the builder can name")
    interrupters_only(ctx)


def interrupters_only(ctx):
    """Frame.precur stops at the first act whose action returns a truthy value ("transition taken").  Only actors whose
    result *means* that may return one: interrupters (Transiter, Suspender), needs (their result is consumed by the
    interrupter that owns them) and fiats (documented to report whether the state was reached).  Any other action must
    return None: a put/inc/copy/log that returns the object it updated ends transition evaluation for the tick wherever it
    is used in the precur context."""
    ctx.rule("T4-result", "only Transiter/Suspender, Need* and Fiat* actions return a value; every other Actor.action returns None")
    ALLOWED = ("Transiter", "Suspender")
    n = 0
    for m in ctx.repo.modules.values():
        if m.is_test or "/ioflo/base/" not in "/" + m.relpath and "/ioflo/trim/" not in "/" + m.relpath:
            continue
        for c in [x for x in m.tree.body if isinstance(x, ast.ClassDef)]:
            f = next((x for x in c.body if isinstance(x, ast.FunctionDef) and x.name == "action"), None)
            if f is None:
                continue
            n += 1
            ctx.use(f)
            rets = [x for x in ast.walk(f) if isinstance(x, ast.Return) and x.value is not None and
                    not (isinstance(x.value, ast.Constant) and x.value.value is None)]
            if not rets:
                continue
            ok = c.name in ALLOWED or c.name.startswith(("Need", "Fiat")) or m.relpath.endswith(("needing.py", "fiating.py"))
            ctx.check(ok, "T4-result", rets[0], "%s.action returns %s" % (c.name, src(rets[0].value)[:40]),
                      "Frame.precur takes any truthy action result for a taken transition: after this action runs in a precur context the "
                      "remaining transition clauses of the frame and of every frame below it are not evaluated in that tick")
    ctx.floor("T4-result:actions", n, 50)
