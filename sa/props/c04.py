"""C04 - bids and fiats change a tasker's state at its next run, last bid wins."""
import ast

from ..model import AnchorError, call_name, const_str, dotted, src
from ..rules import FuncView, suffix_match, defect_scope, literal_elts
from ..ioflo_model import registry_members, kwarg, literal_string_list
from .c03 import _is_running_test

EXPLANATION = (
    "Name<->constant tables of the bid/fiat actors and their builders: each Want<X>.action assigns "
    "tasker.desire = <X> on every tasker and nothing else to desire; each Fiat<X>.action sends <X> "
    "and returns status == <X>ED; the builder derives 'Want'+control.capitalize() / "
    "'Fiat'+kind.capitalize() and every derivable name is a class registered in the registrar it "
    "passes; Want resolves only ACTIVE/INACTIVE taskers and Fiat only SLAVE taskers; the skedder "
    "sends tasker.desire read at send time.  Framer.makeRunner START/READY: enterAll is dominated "
    "by a truthy checkStart and the failing branch leaves STOPPED without enter/recur; every control "
    "branch handles running / stopped / other statuses.  Internal-error detectors over the scope.")
NOT_DECIDED = "timing of a bid relative to declaration order across ticks (runtime schedule)"

CONTROLS = {"stop": "STOP", "start": "START", "run": "RUN", "abort": "ABORT", "ready": "READY"}
STATUS_OF = {"READY": "READIED", "START": "STARTED", "STOP": "STOPPED", "RUN": "RUNNING", "ABORT": "ABORTED"}


def start_guards(ctx):
    # the entry checks are predicates of the present moment: they remember nothing (a result cached per stamp is stale as soon
    # as an action of the same tick changes what the first-frame conditions read)
    ctx.rule("T4-fresh", "Framer.checkStart / Framer.checkEnter / Frame.checkEnter write no attribute (no cached verdict)")
    for cn_, mn_ in (("Framer", "checkStart"), ("Framer", "checkEnter"), ("Frame", "checkEnter")):
        pf_ = ctx.cls("framing", cn_).own_method(mn_)
        ctx.use(pf_)
        wr = [x for x in ast.walk(pf_) if isinstance(x, (ast.Attribute, ast.Subscript)) and isinstance(x.ctx, (ast.Store, ast.Del))
              and src(x).startswith("self.")]
        ctx.check(not wr, "T4-fresh", wr[0] if wr else pf_, "%s.%s keeps no state%s" % (cn_, mn_, (": " + src(wr[0])[:40]) if wr else ""),
                  "ready followed by start in one tick (or two fiats of different masters) would reuse the earlier verdict although "
                  "a share tested by the first-frame conditions changed in between: a start whose conditions fail reports success")
    """Framer.makeRunner START/READY: entering is dominated by a truthy checkStart(); a failing check leaves STOPPED and runs
    nothing (shared by C04 and C08)"""
    ctx.rule("T1-start", "makeRunner START/READY: enterAll/recur dominated by truthy checkStart(); false => STOPPED")
    mr = ctx.fn("framing", "Framer.makeRunner")
    M = FuncView(ctx, mr)
    mc = M.cfg
    def has_cs(t):
        return any(isinstance(x, ast.Call) and dotted(x.func) == "self.checkStart" for x in ast.walk(t))

    def implies_cs(t):
        """test true => checkStart() was called and truthy"""
        if isinstance(t, ast.Call) and dotted(t.func) == "self.checkStart":
            return True
        if isinstance(t, ast.BoolOp) and isinstance(t.op, ast.And):
            return any(implies_cs(v) for v in t.values)
        return False
    allcs = M.tests(has_cs)
    ctx.floor("T1-start:checkStart-tests", len(allcs), 2)
    for t in allcs:
        ctx.check(implies_cs(t.ast.test), "T1-start", t.ast, "start/ready guard `%s` implies a truthy checkStart()" % src(t.ast.test),
                  "the start (or ready) of a framer can be taken without its first-frame entry conditions having been checked "
                  "at the moment of the attempt")
    cs = [t for t in allcs if implies_cs(t.ast.test)]
    yields = [n for n in mc.nodes if any(isinstance(x, ast.Yield) for x in mc.walk_node(n))]
    enter = M.need(M.call_nodes("self.enterAll"), "self.enterAll() in makeRunner")
    ctx.check(all(any(M.dominated_by_edge([e], t, "T") for t in cs) for e in enter), "T1-start", enter[0].ast,
              "enterAll() dominated by truthy self.checkStart()",
              "a framer must not be entered unless the entry conditions of its first frame's outline hold")
    for t in cs:
        fsucc = [b for b, lab in mc.succ[t.id] if lab == "F"]
        r = mc.reachable(fsucc[0], removed_nodes=[y.id for y in yields]) if fsucc else set()
        calls_bad = [i for i in r if any(isinstance(x, ast.Call) and suffix_match(call_name(x), (
            "self.enterAll", "self.recur", "self.segue", "self.enter")) for x in mc.walk_node(mc.nodes[i]))]
        st = [i for i in r if isinstance(mc.nodes[i].ast, ast.Assign) and dotted(mc.nodes[i].ast.targets[0]) == "self.status"]
        ok = not calls_bad and bool(st) and all(dotted(mc.nodes[i].ast.value) == "STOPPED" for i in st)
        ctx.check(ok, "T1-start", t.ast, "checkStart() false => status = STOPPED, no enter/recur",
                  "a start or ready whose first-frame conditions fail must leave the tasker stopped and "
                  "run none of its actions")
    return mr, M


def check(ctx):
    repo = ctx.repo
    ctx.rule("T6-want", "Want<X>.action: every path through the taskers loop assigns tasker.desire = <X>; "
             "no other value is assigned to .desire")
    ctx.rule("T6-fiat", "Fiat<X>.action: sends <X> to tasker.runner and returns status == <X>ED")
    ctx.rule("T6-names", "builder control words -> actor names all exist in the registrar passed to Act")
    ctx.rule("T6-contexts", "Want._resolve contexts=[ACTIVE, INACTIVE]; Fiat._resolve contexts=[SLAVE]")
    ctx.rule("T9-lastbid", "Framer.makeRunner assigns .desire before, never after, the actions of a control step (except the final ABORT)")
    ctx.rule("T6-fsm", "every control branch of makeRunner distinguishes running, stopped/readied and other status")

    slaves_never_scheduled(ctx)
    from . import _framing as _fr4
    ctx.rule("T1-checkEnter", "Frame.checkEnter: every before-enter condition must hold (first failing one refuses)")
    _fr4.frame_check_enter(ctx, "T1-checkEnter")
    want = ctx.cls("wanting", "Want")
    fiat = ctx.cls("fiating", "Fiat")
    wm = registry_members(repo, want)
    fm = registry_members(repo, fiat)
    for word, const in CONTROLS.items():
        cname = "Want" + word.capitalize()
        c = wm.get(cname)
        if c is None:
            ctx.bad("T6-names", want.node, cname, "bid %s: no class %s registered in wanting.Want.Registry" % (word, cname))
            continue
        act = c.methods.get("action")
        if act is None:
            ctx.bad("T6-want", c.node, cname + ".action", "no action method")
            continue
        V = FuncView(ctx, act)
        stores = V.stores("desire")
        loops = [n for n in V.cfg.nodes if n.kind == "for" and dotted(n.ast.iter) == "taskers"]
        ok = bool(stores) and bool(loops)
        for s in stores:
            ok = ok and isinstance(s.ast, ast.Assign) and dotted(s.ast.targets[0]) == "tasker.desire" \
                and dotted(s.ast.value) == const
        # every iteration assigns desire
        if ok:
            h = loops[0]
            paths = V.cfg.paths(h.id, [h.id], max_visits=2, labels_block=("done",))
            ctx.paths += len(paths)
            ok = all(any(i in {s.id for s in stores} for i in p[1:-1]) for p in paths if len(p) > 1) and bool(paths)
        ctx.check(ok, "T6-want", act, "%s.action: tasker.desire = %s for each tasker" % (cname, const),
                  "bid %s must set the desire of every target tasker to %s and to nothing else" % (word, const))
        # a period given with the bid (literal or from a share) replaces the tasker's period -- including 0.0 ("every tick")
        ps = [n for n in V.stores("period") if isinstance(n.ast, ast.Assign) and dotted(n.ast.targets[0]) == "tasker.period"]
        takes_period = "period" in [a.arg for a in act.args.args + act.args.kwonlyargs]
        if not takes_period and not ps:
            continue        # stop / abort bids carry no period
        okp = bool(ps)
        for pn in ps:
            fs = V.facts(pn)
            okp = okp and "period is not None" in fs and not any(f in fs for f in ("period", "period > 0", "period > 0.0", "period != 0", "period != 0.0"))
            okp = okp and src(pn.ast.value).replace(" ", "") in ("max(0.0,period)", "max(0,period)", "abs(period)")
        ctx.check(okp, "T6-want", act, "%s.action: `tasker.period = max(0.0, period)` exactly when a period was given (period is not None)" % cname,
                  "a bid that carries a period must change the tasker's period from its next reschedule; testing the period for "
                  "truth (or > 0) drops a bid to period 0.0, so the tasker keeps its old grid instead of running every tick")
    for word, const in CONTROLS.items():
        cname = "Fiat" + word.capitalize()
        c = fm.get(cname)
        if c is None:
            ctx.bad("T6-names", fiat.node, cname, "%s: no class %s registered in fiating.Fiat.Registry" % (word, cname))
            continue
        act = c.methods.get("action")
        V = FuncView(ctx, act)
        sends = V.calls("runner.send")
        ok = len(sends) == 1 and len(sends[0][1].args) == 1 and dotted(sends[0][1].args[0]) == const \
            and dotted(sends[0][1].func) == "tasker.runner.send"
        rets = [n for n in V.cfg.nodes if n.kind == "return"]
        okr = bool(rets)
        for r in rets:
            v = V.sym(r.ast.value, r) if r.ast.value is not None else None
            okr = okr and isinstance(v, ast.Compare) and len(v.ops) == 1 and isinstance(v.ops[0], ast.Eq) and \
                STATUS_OF[const] in (dotted(v.left), dotted(v.comparators[0])) and \
                any(isinstance(x, ast.Call) and suffix_match(call_name(x), "runner.send") for x in ast.walk(v))
        ctx.check(ok and okr and V.always_then([V.cfg.entry], [r for r in rets]), "T6-fiat", act,
                  "%s.action: send(%s); return status == %s" % (cname, const, STATUS_OF[const]),
                  "fiat %s must send %s to the slave tasker and report whether status %s was reached"
                  % (word, const, STATUS_OF[const]))

    # builder side
    bb = ctx.fn("building", "Builder.buildBid")
    words = None
    for n in ast.walk(bb):
        if isinstance(n, ast.Compare) and len(n.ops) == 1 and isinstance(n.ops[0], ast.NotIn) and dotted(n.left) == "control":
            words = literal_string_list(n.comparators[0])
    if words is None:
        raise AnchorError("buildBid: list of accepted control words not found")
    ctx.check(set(words) == set(CONTROLS), "T6-names", bb, "bid controls %s" % sorted(words),
              "accepted bid controls must be exactly stop/start/run/abort/ready")
    names = [n for n in ast.walk(bb) if isinstance(n, ast.Assign) and dotted(n.targets[0]) == "actorName"]
    ok = bool(names) and src(names[0].value).replace(" ", "") in ("'Want'+control.capitalize()",)
    ctx.check(ok, "T6-names", names[0] if names else bb, src(names[0]) if names else "actorName",
              "bid actor name must be 'Want' + control.capitalize()")
    for w in words:
        ctx.check(("Want" + w.capitalize()) in wm, "T6-names", bb, "bid %s -> Want%s registered" % (w, w.capitalize()),
                  "a documented bid control has no actor class")
    for call in [n for n in ast.walk(bb) if isinstance(n, ast.Call) and suffix_match(call_name(n), "acting.Act")]:
        r = kwarg(call, "registrar")
        ctx.check(r is not None and dotted(r) == "wanting.Want", "T6-names", call, "Act(registrar=%s)" % src(r),
                  "bid acts must look their actor up in wanting.Want")
    mf = ctx.fn("building", "Builder.makeFiat")
    names = [n for n in ast.walk(mf) if isinstance(n, ast.Assign) and dotted(n.targets[0]) == "actorName"]
    ok = bool(names) and src(names[0].value).replace(" ", "") == "'Fiat'+kind.capitalize()"
    ctx.check(ok, "T6-names", names[0] if names else mf, src(names[0]) if names else "actorName",
              "fiat actor name must be 'Fiat' + kind.capitalize()")
    for call in [n for n in ast.walk(mf) if isinstance(n, ast.Call) and suffix_match(call_name(n), "acting.Act")]:
        r = kwarg(call, "registrar")
        ctx.check(r is not None and dotted(r) == "fiating.Fiat", "T6-names", call, "Act(registrar=%s)" % src(r),
                  "fiat acts must look their actor up in fiating.Fiat")
    bcls = ctx.cls("building", "Builder")
    seen = 0
    for verb in CONTROLS:
        m = bcls.methods.get("build" + verb.capitalize())
        if m is None:
            ctx.bad("T6-names", bcls.node, "build" + verb.capitalize(), "no builder for fiat verb %s" % verb)
            continue
        ctx.functions.add(repo.func_qual(m))
        calls = [n for n in ast.walk(m) if isinstance(n, ast.Call) and suffix_match(call_name(n), "self.makeFiat")]
        ok = len(calls) == 1 and len(calls[0].args) >= 2 and const_str(calls[0].args[1]) == verb
        seen += 1
        ctx.check(ok, "T6-names", m, "build%s -> makeFiat(..., %r, ...)" % (verb.capitalize(), verb),
                  "verb %s must build the fiat of the same kind" % verb)
    ctx.floor("T6-names:fiat-verbs", seen, 5)

    # contexts
    for ci, want_ctx in ((want, {"ACTIVE", "INACTIVE"}), (fiat, {"SLAVE"})):
        rs = ci.own_method("_resolve")
        ctx.functions.add(repo.func_qual(rs))
        calls = [n for n in ast.walk(rs) if isinstance(n, ast.Call) and suffix_match(call_name(n), "resolveTasker")]
        ok = bool(calls)
        for c in calls:
            v = kwarg(c, "contexts")
            got = {dotted(e) for e in v.elts} if isinstance(v, (ast.List, ast.Tuple)) else None
            ok = ok and got == want_ctx
        ctx.check(ok, "T6-contexts", rs, "%s._resolve: resolveTasker(contexts=%s)" % (ci.name, sorted(want_ctx)),
                  "bids may only address scheduled (active/inactive) taskers and fiats only slave taskers")
    rt = ctx.fn("tasking", "resolveTasker")
    T = FuncView(ctx, rt)
    raises = [n for n in T.cfg.nodes if n.kind == "raise"]
    ctest = T.tests(lambda t: "contexts" in src(t) and "schedule" in src(t))
    ctx.check(bool(ctest) and any(T.dominated_by_edge([r], ctest[0], "T") for r in raises), "T6-contexts", rt,
              "resolveTasker raises when schedule not in contexts", "context restriction must be enforced")

    mr, M = start_guards(ctx)
    # last bid wins: the actions a control step runs (enter/exit/recur/segue) may bid on this very framer; the runner must not
    # overwrite .desire after running them in the same step (only the final ABORT does)
    mc = M.cfg
    yields = [n.id for n in mc.nodes if any(isinstance(x, ast.Yield) for x in mc.walk_node(n))]
    acts = M.call_nodes(("self.exitAll", "self.enterAll", "self.recur", "self.segue"))
    late = []
    for a in acts:
        r = mc.reachable([b for b, _ in mc.succ[a.id]], removed_nodes=yields)
        for i in r:
            n = mc.nodes[i]
            if isinstance(n.ast, ast.Assign) and dotted(n.ast.targets[0]) == "self.desire" and dotted(n.ast.value) != "ABORT":
                late.append("line %d: %s after %s" % (n.lineno, src(n.ast), src(a.ast)[:30]))
    ctx.check(not late, "T9-lastbid", mr, "makeRunner never re-assigns .desire after running the step's actions %s" % (late[:1] or ""),
              "a bid the framer's own exit/enter actions make on it during this step (e.g. `bid start me` in an exit action) is "
              "overwritten: the last bid does not win")
    # fsm exhaustiveness
    for name in ("RUN", "READY", "START", "STOP"):
        ts = M.tests(lambda t, name=name: isinstance(t, ast.Compare) and len(t.ops) == 1 and isinstance(t.ops[0], ast.Eq)
                     and {dotted(t.left), dotted(t.comparators[0])} == {"control", name})
        t = M.one(ts, "control == %s" % name)
        body = t.ast.body
        inner = [s for s in body if isinstance(s, ast.If)]
        ok = False
        if inner:
            i = inner[0]
            chain = [i.test]
            o = i.orelse
            while len(o) == 1 and isinstance(o[0], ast.If):
                chain.append(o[0].test)
                o = o[0].orelse
            has_else = bool(o)
            run_t = any(_is_running_test(x) for x in chain)
            stop_t = any(_is_stopped_test(x) for x in chain)
            ok = run_t and stop_t and has_else
        ctx.check(ok, "T6-fsm", t.ast, "control == %s: running / stopped-or-readied / else arms" % name,
                  "each control must handle every status class (an unhandled status would silently do nothing)")

    # D-scope
    entries = []
    for c in list(wm.values()) + list(fm.values()) + [want, fiat]:
        for mname in ("action", "_resolve"):
            m = c.methods.get(mname)
            if m is not None:
                entries.append(m)
    entries.append(ctx.fn("tasking", "Tasker.makeRunner"))
    entries += [bb, mf]
    defect_scope(ctx, "D-scope", entries, max_depth=2, floor=10,
                 label="scope: Want*/Fiat* actions and resolvers, buildBid, makeFiat, Tasker.makeRunner")


def _is_stopped_test(t):
    from ..rules import member_test
    m = member_test(t)
    return bool(m) and m[0] in ("status", "self.status") and m[1] == {"STOPPED", "READIED"}




def slaves_never_scheduled(ctx):
    """the scheduler takes its taskers from house.taskables and from nowhere else; a house's slaves never get into that list"""
    ctx.rule("T6-slaves", "house.slaves is read only for display: what House.orderTaskables puts into .taskables does not come from "
             ".slaves, and skedding.py never mentions .slaves")
    H = ctx.cls("housing", "House")
    k = 0
    for mname, f in sorted(H.methods.items()):
        for x in ast.walk(f):
            if isinstance(x, ast.Attribute) and x.attr == "slaves" and isinstance(x.ctx, ast.Load):
                k += 1
                # allowed: inside a console display call
                p, shown = x, False
                while p is not None and p is not f:
                    if isinstance(p, ast.Call) and (dotted(p.func) or "").startswith("console."):
                        shown = True
                    p = getattr(p, "_parent", None)
                ctx.check(shown, "T6-slaves", x, "House.%s reads .slaves only to print them" % mname,
                          "a slave tasker that gets into house.taskables (or any list the skedder schedules) is run by the scheduler "
                          "every tick on its own desire: it then changes state without any fiat of its master")
    sk = ctx.repo.modules.get("ioflo.base.skedding")
    if sk is None:
        raise AnchorError("ioflo.base.skedding not found")
    ctx.use(sk.tree)
    uses = [x for x in ast.walk(sk.tree) if isinstance(x, ast.Attribute) and x.attr == "slaves"]
    ctx.check(not uses, "T6-slaves", uses[0] if uses else sk.tree, "skedding.py does not touch house.slaves", "the scheduler must not schedule slaves")
    ctx.floor("T6-slaves:reads", k, 1)
