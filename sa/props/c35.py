"""C35 - datagram stacks send each destination's packets once, in queue order."""
import ast

from ..model import AnchorError, call_name, const_str, dotted, src
from ..rules import transparent_override, FuncView, suffix_match, path_condition, formula_equiv
from . import _framing

EXPLANATION = (
    "Deferral-order rule on GramStack.serviceTxPkts/_serviceOneTxPkt: packets deferred to `laters` are re-queued at "
    "the tail of txPkts in FIFO order (append(laters.popleft()) / extend(laters)), which preserves per-destination "
    "order only if the drain loop runs to exhaustion - so no path leaves the `while self.txPkts` loop early (no "
    "break/return while packets remain) and _serviceOneTxPkt never reports `stop` for a merely blocked destination; "
    "a packet whose destination is already in blockeds is deferred and never sent (the send is dominated by the "
    "false outcome of the `ha in blockeds` test); each popped packet is either sent or deferred exactly once on "
    "every normal path; a transient failure defers the packet and blocks its destination for the rest of the pass.")
NOT_DECIDED = "what the datagram socket does; ordering across separate service passes when new packets are queued in between"


def deferred_requeued(ctx, rule):
    """every caller of GramStack._serviceOneTxPkt puts the packets it deferred back on .txPkts (shared with C25: a
    transient destination error means retry, not drop)"""
    G = ctx.cls("stacking", "GramStack")
    so_ = G.own_method("_serviceOneTxPkt")
    # every caller of _serviceOneTxPkt owns the `laters` it passes and puts the deferred packets back on .txPkts
    callers = 0
    for mname, m in G.methods.items():
        if m is so_ or getattr(m, "_module", None) is not so_._module:
            continue
        W = FuncView(ctx, m)
        for n, c in W.calls("self._serviceOneTxPkt"):
            callers += 1
            a0 = c.args[0] if c.args else next((k.value for k in c.keywords if k.arg == "laters"), None)
            back = [x for x, cc in W.calls(("self.txPkts.append", "self.txPkts.extend")) if isinstance(a0, ast.Name) and cc.args and
                    (a0.id in src(cc) or (src(W.sym(a0, x)) + ".pop") in src(W.sym(cc.args[0], x, unpack=True)))]
            okc = isinstance(a0, ast.Name) and bool(back) and W.cfg.always_reaches([n.id], [b.id for b in back], skip_exc=True) is not False
            # the re-queue sits in a `while laters:` loop: reaching the loop test is what every path must do
            loops = [t for t in W.cfg.nodes if t.kind == "test" and isinstance(t.ast, ast.While) and isinstance(a0, ast.Name) and dotted(t.ast.test) == a0.id]
            if isinstance(a0, ast.Name) and loops:
                okc = all(W.cfg.always_reaches([n.id], [t.id for t in loops], skip_exc=True) for _ in [0]) and bool(back)
            ctx.check(okc, rule, c, "%s: packets deferred by _serviceOneTxPkt(%s, ..) are put back on .txPkts" % (mname, src(a0) if a0 is not None else "?"),
                      "a packet deferred after a transient send error must stay queued for retry; a throw-away `laters` drops it silently")
            # .. and the set of destinations that blocked belongs to this pass: bound, in this function, to a new empty list
            a1 = c.args[1] if len(c.args) > 1 else next((k.value for k in c.keywords if k.arg == "blockeds"), None)
            v1 = W.sym(a1, n) if a1 is not None else None
            fresh = isinstance(v1, ast.List) and not v1.elts or (isinstance(v1, ast.Call) and dotted(v1.func) in ("list", "set") and not v1.args)
            ctx.check(bool(fresh), rule, c, "%s: the blocked-destination list handed to _serviceOneTxPkt is a new empty list of this pass (%s)"
                      % (mname, src(v1) if v1 is not None else "?"),
                      "a destination that had a transient error is skipped for the rest of the pass only; a list that outlives the pass "
                      "(an attribute, a module global, a default argument) keeps the destination blocked for good: a retryable error "
                      "becomes permanent and its packets are never sent again")
    ctx.floor(rule + ":callers", callers, 2)


def check(ctx):
    from .c24 import queues_unbounded
    queues_unbounded(ctx, "T4-unbounded", ("ioflo.aio.proto.stacking",))
    ctx.rule("T2-drain", "the drain loop over txPkts has no early exit; deferred packets re-queued FIFO at the tail afterwards")
    ctx.rule("T1-blocked", "send dominated by `ha not in blockeds`; blocked => deferred once")
    ctx.rule("T2-linear", "each popped packet is sent or deferred exactly once per normal path")
    G = ctx.cls("stacking", "GramStack")
    st = G.own_method("serviceTxPkts")
    V = FuncView(ctx, st)
    cfg = V.cfg
    w = [n for n in cfg.nodes if n.kind == "test" and isinstance(n.ast, ast.While) and src(n.ast.test) == "self.txPkts"]
    V.need(w, "`while self.txPkts` drain loop")
    inside = {id(x) for x in ast.walk(w[0].ast)}
    exits = [n for n in cfg.nodes if id(n.ast) in inside and n.kind in ("break", "return")]
    one = V.call_nodes("self._serviceOneTxPkt")
    # an early exit that only fires when _serviceOneTxPkt reports False is harmless iff it never reports False
    so_ = G.own_method("_serviceOneTxPkt")
    falsy = [r for r in ast.walk(so_) if isinstance(r, ast.Return) and not (isinstance(r.value, ast.Constant) and r.value.value is True)]
    nt = V.tests(lambda t: isinstance(t, ast.UnaryOp) and isinstance(t.op, ast.Not) and
                 src(V.sym(t.operand, [x for x in cfg.nodes if x.kind == "test" and x.ast.test is t][0])).startswith("self._serviceOneTxPkt("))
    conditional = [e for e in exits if nt and V.dominated_by_edge([e], nt[0], "T")]
    if exits and len(conditional) == len(exits) and not falsy:
        ctx.note("serviceTxPkts: the `if not again: break` exit is unreachable because every return of _serviceOneTxPkt is True")
        exits = []
    ok = not exits and bool(one) and _framing.every_iteration_passes_while(V, w[0], one)
    ctx.check(ok, "T2-drain", w[0].ast, "drain loop services every queued packet (no break/return inside the loop)",
              "leaving the transmit pass early keeps the not-yet-serviced packets at the head of txPkts while the deferred ones "
              "are re-queued behind them: packets to one destination go out in a different order than they were queued")
    rq = [n for n in cfg.nodes if n.kind == "test" and isinstance(n.ast, ast.While) and src(n.ast.test) == "laters"]
    okq = False
    if rq:
        body = src(rq[0].ast)
        okq = "self.txPkts.append(laters.popleft())" in body and len(rq[0].ast.body) == 1
    ext = [c for n, c in V.calls("self.txPkts.extend") if src(c.args[0]) == "laters"]
    bad_ext = V.calls(("self.txPkts.extendleft", "self.txPkts.appendleft", "self.txPkts.insert", "laters.pop"))
    ctx.check((okq or bool(ext)) and not [c for n, c in bad_ext if call_name(c) != "laters.pop" or True] and
              (not rq or V.dominated([rq[0]], w)), "T2-drain", st,
              "deferred packets are re-queued in FIFO order at the tail after the drain (while laters: txPkts.append(laters.popleft()))",
              "re-queuing the deferred packets in reversed order (extendleft) or at the head of a non-empty queue changes the "
              "per-destination order")
    deferred_requeued(ctx, "T2-drain")
    once_keeps_order(ctx)
    txqueue_discipline_is_gramstacks(ctx, "GramStack", "T6-inherit")
    datagram_send_reraises(ctx, "T10-sendraises")
    so = G.own_method("_serviceOneTxPkt")

    def send_may_raise(node):
        if any(isinstance(x, ast.Call) and suffix_match(call_name(x), "handler.send") for x in ast.walk(node)):
            return ["socket.error", "error"]
        return None
    S = FuncView(ctx, so, may_raise=send_may_raise)
    c = S.cfg
    pop = S.need(S.call_nodes("self.txPkts.popleft"), "txPkts.popleft()")
    send = S.need(S.call_nodes("self.handler.send"), "handler.send(...)")
    st = pop[0].ast
    dest = st.targets[0].elts[1].id if isinstance(st, ast.Assign) and isinstance(st.targets[0], ast.Tuple) and len(st.targets[0].elts) == 2 \
        and isinstance(st.targets[0].elts[1], ast.Name) else "ha"
    # the send happens exactly when this packet's own destination has not blocked in this pass (no wider, no narrower test)
    pcs = ("or", [path_condition(S, n, start=[pop[0].id]) for n in send])
    okb = len(pop) == 1 and formula_equiv(pcs, "not (%s in blockeds)" % dest)
    ctx.check(okb, "T1-blocked", so, "send exactly if the packet's destination has not blocked in this pass",
              "a packet must not overtake an earlier deferred packet to the same destination; a packet to a destination that did "
              "not block must not be held back behind some other destination")
    apps = S.calls("blockeds.append")
    ctx.check(bool(apps) and all(len(c_.args) == 1 and src(S.sym(c_.args[0], n_)) == dest for n_, c_ in apps), "T1-blocked", so,
              "only the failing packet's own destination is marked blocked (%s)" % [src(c_) for _, c_ in apps],
              "marking anything else (a host, another address) defers packets whose destination never failed")
    bt = S.tests(lambda t: "blockeds" in src(t))
    S.need(bt, "test on blockeds")
    rets = [n for n in c.nodes if n.kind == "return"]
    for r in rets:
        if S.dominated_by_edge([r], bt[0], "T"):
            v = r.ast.value
            ctx.check(isinstance(v, ast.Constant) and v.value is True, "T2-drain", r.ast, "blocked destination => deferred and `return True` (keep draining)",
                      "reporting `stop` for a packet that was only deferred ends the caller's pass with packets still queued")
    defer = lambda n: any(isinstance(x, ast.Call) and call_name(x) == "laters.append" for x in c.walk_node(n))
    is_send = lambda n: n.id in {s.id for s in send}
    paths = c.paths(pop[0].id, [c.exit.id], max_visits=1)
    ctx.paths += len(paths)
    okl = bool(paths)
    for p in paths:
        nd = sum(1 for i in p if defer(c.nodes[i]))
        ns = sum(1 for i in p if is_send(c.nodes[i]))
        via_handler = any(c.nodes[i].kind == "except" for i in p)
        # normal: sent once, not deferred; blocked: deferred once, not sent; transient failure: send attempted, deferred once
        good = (ns == 1 and nd == 0 and not via_handler) or (ns == 0 and nd == 1) or (ns == 1 and nd == 1 and via_handler)
        okl = okl and good
    ctx.check(okl, "T2-linear", so, "every normal path sends or defers the popped packet exactly once (%d paths)" % len(paths),
              "a popped packet would be dropped, or both sent and kept for later (sent twice)")
    hs = [h for h in c.nodes if h.kind == "except"]
    bl = [n for n in c.nodes if any(isinstance(x, ast.Call) and call_name(x) == "blockeds.append" for x in c.walk_node(n))]
    ctx.check(bool(hs) and bool(bl) and all(b.id in c.reachable(hs[0].id) for b in bl), "T1-blocked", so,
              "a transient failure blocks the destination for the rest of the pass", "")
    tx = G.own_method("transmit")
    ctx.check("self.txPkts.append(" in src(tx) and "appendleft" not in src(tx), "T2-drain", tx, "transmit queues at the tail", "")
    # the re-queue of the deferred packets closes the pass: nothing is sent after it (a second round in the same pass has no
    # per-destination blocking of its own: the second of two packets to a destination that fails twice overtakes the first)
    ctx.rule("T2-final", "GramStack.serviceTxPkts: no send (_serviceOneTxPkt / serviceTxPktsOnce / handler.send) after the re-queue of laters")
    sp = G.own_method("serviceTxPkts")
    SP = FuncView(ctx, sp)
    back = [n for n, c in SP.calls(("self.txPkts.append", "self.txPkts.extend", "self.txPkts.appendleft", "self.txPkts.extendleft"))]
    SP.need(back, "re-queue of deferred packets in serviceTxPkts")
    later = [n for n, c in SP.calls(("self._serviceOneTxPkt", "self.serviceTxPktsOnce", "self.handler.send", "self.serviceTxPkts"))
             if any(n.id in SP.cfg.reachable(b.id) for b in back)]
    ctx.check(not later, "T2-final", later[0].ast if later else sp, "serviceTxPkts ends with the re-queue of the deferred packets",
              "packets sent after the re-queue are outside the pass's blocked-destination bookkeeping: per-destination order is lost")


def once_keeps_order(ctx):
    """serviceTxPktsOnce services one packet: nothing behind it has been looked at, so a deferred packet that goes to the tail
    must take the later packets to its destination with it (removed from their places, re-queued right behind it, in order)"""
    ctx.rule("T2-once", "GramStack.serviceTxPktsOnce: txPkts.append(<deferred (pkt, ha)>) is preceded by the removal of the queued "
             "duples with the same ha and followed by txPkts.extend(<those>)")
    G = ctx.cls("stacking", "GramStack")
    f = G.own_method("serviceTxPktsOnce")
    V = FuncView(ctx, f)
    aps = [(n, c) for n, c in V.calls("self.txPkts.append")]
    V.need(aps, "self.txPkts.append in serviceTxPktsOnce")
    ok = True
    for n, c in aps:
        arg = V.sym(c.args[0], n, unpack=True) if c.args else None
        deferred = arg is not None and (src(V.sym(ast.Name(id="laters", ctx=ast.Load()), n)) + ".pop") in src(arg)
        ok = ok and deferred
        # the same-destination rest: a list built from self.txPkts by a filter on the duple's destination
        comps = [(m, m.ast.value) for m in V.cfg.nodes if isinstance(m.ast, ast.Assign) and isinstance(m.ast.value, ast.ListComp)
                 and len(m.ast.value.generators) == 1 and src(m.ast.value.generators[0].iter) == "self.txPkts"
                 and len(m.ast.value.generators[0].ifs) == 1]
        good = False
        for m, lc in comps:
            g = lc.generators[0]
            t = g.ifs[0]
            var = src(g.target)
            sel = isinstance(t, ast.Compare) and len(t.ops) == 1 and isinstance(t.ops[0], ast.Eq) and \
                ("%s[1]" % var) in (src(t.left), src(t.comparators[0])) and src(lc.elt) == var
            name = src(m.ast.targets[0])
            rem = [r for r in V.cfg.nodes if r.kind == "for" and src(r.ast.iter) == name and
                   any(isinstance(x, ast.Call) and call_name(x) == "self.txPkts.remove" for x in ast.walk(r.ast))]
            ext = [e for e, ce in V.calls("self.txPkts.extend") if src(ce.args[0]) == name]
            if sel and rem and ext and V.dominated([n], [m]) and V.dominated([n], rem) and \
                    V.cfg.always_reaches([n.id], [e.id for e in ext], skip_exc=True) is not False:
                good = True
        ok = ok and good
    ctx.check(ok, "T2-once", f, "serviceTxPktsOnce: a deferred packet is re-queued with the later packets to its destination behind it",
              "re-appending the one deferred packet alone puts it behind the later packets to the same destination: [A:p0, A:p1] with "
              "a transient failure of A becomes [A:p1, A:p0] and p1 goes out first (repro: /verif/repro/c35_once_reorders.py)")


TX_METHODS = ("_serviceOneTxPkt", "serviceTxPkts", "serviceTxPktsOnce", "_serviceOneReceived")
TX_MUTATORS = ("append", "appendleft", "extend", "extendleft", "insert", "pop", "popleft", "remove", "rotate", "reverse", "clear", "sort")


def txqueue_discipline_is_gramstacks(ctx, base, rule):
    """the order/once-only argument is made on <base>'s transmit methods: a subclass that overrides one of them, or a method
    elsewhere in the hierarchy that re-arranges .txPkts, is outside that argument"""
    ctx.rule(rule, "no subclass of %s overrides %s; below %s .txPkts is only appended to (queueing), never popped/rotated/removed "
             "outside those methods" % (base, "/".join(TX_METHODS), base))
    B = ctx.cls("stacking", base)
    subs = B.subclasses(strict=True)
    ctx.floor(rule + ":subclasses", len(subs), 1)
    for C in subs:
        if C.module is not B.module:
            continue
        for m in TX_METHODS:
            ctx.check(not any(isinstance(b, ast.FunctionDef) and b.name == m and not transparent_override(b) for b in C.node.body), rule, C.node,
                      "%s inherits %s.%s" % (C.name, base, m),
                      "an override can defer, skip or re-order packets on its own terms (a packet deferred without marking its "
                      "destination blocked lets the next packet to that destination overtake it)")
    for C in [B] + [c for c in subs if c.module is B.module]:
        for mn, f in sorted(C.methods.items()):
            if C is B and mn in TX_METHODS:
                continue
            ctx.use(f)
            for x in ast.walk(f):
                if isinstance(x, ast.Call) and isinstance(x.func, ast.Attribute) and x.func.attr in TX_MUTATORS and \
                        src(x.func.value) == "self.txPkts" and x.func.attr not in ("append",):
                    ctx.bad(rule, x, "%s.%s: %s" % (C.name, mn, src(x)[:60]),
                            "the transmit queue is re-arranged outside the transmit methods: queue order is what per-destination "
                            "order is made of")


def txqueue_rearranged_only_by_service(ctx, classes, rule):
    """in the given stack classes .txPkts is popped / rotated / removed from only by the transmit service methods"""
    ctx.rule(rule, "%s: .txPkts is only appended to outside %s" % ("/".join(classes), "/".join(TX_METHODS)))
    k = 0
    for cn in classes:
        C = ctx.cls("stacking", cn)
        for mn, f in sorted(C.methods.items()):
            if not any(isinstance(b, ast.FunctionDef) and b is f for b in C.node.body):
                continue
            k += 1
            if mn in TX_METHODS:
                continue
            ctx.use(f)
            for x in ast.walk(f):
                if isinstance(x, ast.Call) and isinstance(x.func, ast.Attribute) and x.func.attr in TX_MUTATORS and \
                        src(x.func.value) == "self.txPkts" and x.func.attr != "append":
                    ctx.bad(rule, x, "%s.%s: %s" % (cn, mn, src(x)[:60]),
                            "packets queued for the connections that stay open must keep their queue order: a clean-up that pops and "
                            "rotates the shared queue re-orders what is left for the other peers")
    ctx.floor(rule + ":methods", k, 20)


def datagram_send_reraises(ctx, rule):
    """GramStack decides from the *exception* of handler.send whether a packet is deferred: the datagram socket must let every
    socket.error out (it may log it first)"""
    ctx.rule(rule, "SocketUdpNb.send: every path through its `except socket.error` handler ends in a raise")
    f = ctx.cls("udp.udping", "SocketUdpNb").own_method("send")
    V = FuncView(ctx, f)
    hs = [n for n in V.cfg.nodes if n.kind == "except" and (getattr(n.ast, "type", None) is None or
                                                            (dotted(n.ast.type) or "").split(".")[-1] in ("error", "OSError", "Exception", "IOError"))]
    V.need(hs, "except socket.error in SocketUdpNb.send")
    raises = [n.id for n in V.cfg.nodes if n.kind == "raise"]
    ok = True
    for h in hs:
        r = V.cfg.reachable(h.id, removed_nodes=raises)
        ok = ok and V.cfg.exit.id not in r and not any(V.cfg.nodes[i].kind == "return" for i in r)
    ctx.check(ok, rule, f, "SocketUdpNb.send re-raises socket errors",
              "a send that reports a transient failure as `0 bytes sent` is taken for sent by the stack (it ignores the count): the "
              "packet is dropped instead of deferred and the later packets to that destination are not held back")
