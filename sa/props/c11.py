"""C11 - framer elapsed/recurred clocks drive timeout and repeat exactly."""
import ast

from ..model import AnchorError, call_name, const_str, dotted, src
from ..rules import FuncView, suffix_match
from . import _framing

EXPLANATION = ("Clock discipline: restart exactly when enters is non-empty, update first thing in segue, "
               "value shapes of elapsed/recurred and their shares, sole writers/callers; builder tables: "
               "timeout -> framer.me.state.elapsed >= float(|value|), repeat -> ...recurred >= int(|value|), "
               "far='next', appended as preacts; '>=' is a comparison Need.Check implements as GtE.")
NOT_DECIDED = "that accumulated float stamps reach T at the ideal tick for decimal periods (numeric)"


def check(ctx):
    from .c12 import state_shares_named_after_framer
    state_shares_named_after_framer(ctx, "T9-statepath")
    _framing.clocks(ctx)
    ctx.rule("T6-timeout", "buildTimeout/buildRepeat build a direct need on state.elapsed/recurred with '>=' "
             "against float(|v|)/int(|v|), transition to 'next', added as preact")
    for verb, field, conv in (("Timeout", "elapsed", "float"), ("Repeat", "recurred", "int")):
        f = ctx.fn("building", "Builder.build" + verb)
        text = src(f)
        V = FuncView(ctx, f)
        calls = [c for n, c in V.calls("self.makeImplicitDirectFramerNeed")]
        ok = len(calls) == 1
        if ok:
            c = calls[0]
            kw = {k.arg: k.value for k in c.keywords}
            node = [n for n, cc in V.calls("self.makeImplicitDirectFramerNeed")][0]
            goal = V.sym(kw["goal"], node) if "goal" in kw else None
            gtxt = src(goal).replace(" ", "") if goal is not None else ""
            ok = const_str(kw.get("name")) == field and const_str(kw.get("comparison")) == ">=" and \
                gtxt.startswith(conv + "(abs(Convert2Num(")
        ctx.check(ok, "T6-timeout", f, "build%s: need(name=%r, comparison='>=', goal=%s(abs(Convert2Num(token))))" % (verb, field, conv),
                  "%s must leave at the first evaluation whose %s is at least the magnitude of the given number"
                  % (verb.lower(), field))
        fars = [n for n in ast.walk(f) if isinstance(n, ast.Constant) and n.value == "next"]
        ctx.check(bool(fars), "T6-timeout", f, "build%s: far = 'next'" % verb, "%s leaves to the next frame" % verb.lower())
        ctx.check(bool(V.call_nodes("addPreact")) and not V.call_nodes(("addBeact", "addEnact", "addReact", "addExact")),
                  "T6-timeout", f, "build%s: added as preact" % verb, "the limit is evaluated with the transitions")
    implicit_need_relative(ctx, "T6-timeout")
    nc = ctx.fn("needing", "Need.Check")
    # by partial evaluation (see C21): what Check returns for the word '>=' is state >= goal, in either orientation
    from ..rules import peval, FuncView as _FV
    got = {src(e).replace(" ", "") for k, e, h in peval(_FV(ctx, nc, exc="calls"), {"comparison": ">="}) if k == "return" and e is not None}
    ctx.check(bool(got) and got <= {"state>=goal", "goal<=state"}, "T6-timeout", nc, "Need.Check implements '>=' as state >= goal (%s)" % sorted(got),
              "comparison table (see C21)")


def _fold(e):
    """constant-fold a '+' chain of string literals and the parameter `name`"""
    if isinstance(e, ast.BinOp) and isinstance(e.op, ast.Add):
        a, b = _fold(e.left), _fold(e.right)
        return None if a is None or b is None else a + b
    if isinstance(e, ast.Constant) and isinstance(e.value, str):
        return e.value
    if isinstance(e, ast.Name) and e.id == "name":
        return "<name>"
    return None


def implicit_need_relative(ctx, rule):
    """the need behind `timeout` / `repeat` addresses the clock share relative to the framer that runs it (`framer.me.state..`):
    resolved per framer, so a clone reads its own clock and not its original's"""
    mi = ctx.fn("building", "Builder.makeImplicitDirectFramerNeed")
    sp = [n for n in ast.walk(mi) if isinstance(n, ast.Assign) and dotted(n.targets[0]) == "statePath"]
    ok = len(sp) == 1 and _fold(sp[0].value) == "framer.me.state.<name>"
    sf = [n for n in ast.walk(mi) if isinstance(n, ast.Assign) and dotted(n.targets[0]) == "stateField"]
    ok = ok and len(sf) == 1 and const_str(sf[0].value) == "value"
    md = [n for n in ast.walk(mi) if isinstance(n, ast.Call) and call_name(n) == "self.makeDirectNeed"]
    ok = ok and len(md) == 1 and [src(a) for a in md[0].args] == ["statePath", "stateField", "comparison", "goal", "tolerance"]
    ctx.check(ok, rule, mi, "implicit framer need: state framer.me.state.<name> field value, passed to makeDirectNeed in order",
              "timeout/repeat must test the running framer's own clock share: a path with the framer's name built in is not renamed when the framer is cloned, so every clone would watch the (never running) original's clock")
