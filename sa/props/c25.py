"""C25 - transport errors are classified: connection loss cuts off, others raise."""
import ast

from ..model import AnchorError, call_name, const_str, dotted, src
from ..rules import FuncView, suffix_match
from .. import defects

EXPLANATION = (
    "For every `except socket.error` handler of the stream transports (Client/ClientTls/Incomer/IncomerTls "
    "receive and send), Acceptor.accept, SocketUdpNb.receive and the datagram stack handlers the classification "
    "tables are extracted from the if/elif chain: the would-block arm tests membership in {EAGAIN, EWOULDBLOCK} "
    "(plain) or {SSL_ERROR_WANT_READ, SSL_ERROR_WANT_WRITE} (TLS) and neither assigns cutoff nor raises; the loss "
    "arm's table contains the eight connection-loss errnos (plus ssl.SSL_ERROR_EOF for TLS), sets cutoff = True, "
    "yields empty/0 and does not raise; the final arm re-raises; every table member is an integer constant of "
    "errno/ssl (never an exception class) and the test is `in` (D8); datagram send/receive handlers treat the "
    "transient destination set as retryable (defer / no data) and re-raise everything else; sibling agreement "
    "between plain and TLS implementations and between client and server side.")
NOT_DECIDED = "which errno values real sockets raise for a given fault"

LOSS = {"ECONNRESET", "ENETRESET", "ENETUNREACH", "EHOSTUNREACH", "ENETDOWN", "EHOSTDOWN", "ETIMEDOUT", "ECONNREFUSED"}
BLOCK_PLAIN = {"EAGAIN", "EWOULDBLOCK"}
BLOCK_TLS = {"SSL_ERROR_WANT_READ", "SSL_ERROR_WANT_WRITE"}
STREAM = [("tcp.clienting", "Client", False), ("tcp.clienting", "ClientTls", True), ("tcp.serving", "Incomer", False), ("tcp.serving", "IncomerTls", True)]


def _resolve_table(module, node, depth=0):
    """members of an errno table expression: tuple/list literal, `A + (..)`, or a module-level name"""
    if isinstance(node, (ast.Tuple, ast.List, ast.Set)):
        return list(node.elts)
    if isinstance(node, ast.BinOp) and isinstance(node.op, ast.Add):
        a, b = _resolve_table(module, node.left, depth), _resolve_table(module, node.right, depth)
        return None if a is None or b is None else a + b
    if isinstance(node, ast.Name) and depth < 3:
        for st in module.tree.body:
            if isinstance(st, ast.Assign) and any(isinstance(t, ast.Name) and t.id == node.id for t in st.targets):
                return _resolve_table(module, st.value, depth + 1)
    if isinstance(node, ast.Attribute) and isinstance(node.value, ast.Name) and depth < 3:
        # a table hoisted into a class attribute: self.Transients / GramStack.Transients (bound once in a class body of this
        # module and never assigned through an instance)
        found = []
        for c in module.tree.body:
            if isinstance(c, ast.ClassDef) and (node.value.id in ("self", "cls") or node.value.id == c.name):
                for st in c.body:
                    if isinstance(st, ast.Assign) and any(isinstance(t, ast.Name) and t.id == node.attr for t in st.targets):
                        found.append(st.value)
        rebound = any(isinstance(x, ast.Attribute) and x.attr == node.attr and isinstance(x.ctx, ast.Store) for x in ast.walk(module.tree))
        if len(found) == 1 and not rebound:
            return _resolve_table(module, found[0], depth + 1)
    return None


def _arms(handler):
    """[(test expr | None, body)] of the if/elif/else chain that classifies ex.args[0] / ex.errno"""
    chain = [s for s in handler.body if isinstance(s, ast.If)]
    if not chain:
        return None
    node = chain[0]
    out = []
    while True:
        out.append((node.test, node.body))
        if len(node.orelse) == 1 and isinstance(node.orelse[0], ast.If):
            node = node.orelse[0]
            continue
        tail = node.orelse
        if not tail and node is chain[0] and _jumps(node.body):
            # normal form N5 (else-after-jump removed): the statements after the `if` are the else arm
            tail = handler.body[handler.body.index(node) + 1:]
            t = node.test
            if isinstance(t, ast.Compare) and len(t.ops) == 1 and isinstance(t.ops[0], (ast.NotIn, ast.NotEq)):
                # `if errno not in TABLE: raise` + rest  ==  `if errno in TABLE: rest else: raise`
                pos = ast.Compare(left=t.left, ops=[ast.In() if isinstance(t.ops[0], ast.NotIn) else ast.Eq()], comparators=t.comparators)
                ast.copy_location(pos, t)
                return [(pos, tail), (None, node.body)]
        out.append((None, tail))
        break
    return out


def _jumps(stmts):
    return bool(stmts) and isinstance(stmts[-1], (ast.Return, ast.Raise, ast.Continue, ast.Break))


def _names(module, test):
    """(set of constant names in the table, problems) for `ex.args[0] in TABLE`"""
    probs = []
    t = test
    if isinstance(t, ast.Compare) and len(t.ops) == 1:
        left = src(t.left)
        if not (left.endswith(".args[0]") or left.endswith(".errno")):
            return None, ["classification does not test the errno of the exception: %s" % src(t)]
        if not isinstance(t.ops[0], ast.In):
            probs.append("errno compared with %s to a table (never true / type error)" % type(t.ops[0]).__name__)
        members = _resolve_table(module, t.comparators[0])
        if members is None:
            return None, probs + ["errno table %s is not a literal" % src(t.comparators[0])]
        names = set()
        for e in members:
            d = dotted(e) or ""
            last = d.split(".")[-1]
            if not d or not (d.startswith("errno.") or d.startswith("ssl.")) or not last.isupper():
                probs.append("%s is not an errno/ssl integer constant (an exception class or other object among errno "
                             "integers can never match)" % (d or src(e)))
            names.add(last)
        return names, probs
    return None, ["unrecognised classification test %s" % src(t)]


def _has(body, pred):
    return any(pred(x) for s in body for x in ast.walk(s))


def check(ctx):
    ctx.rule("T6-class", "per handler: would-block arm (no cutoff, no raise), loss arm (table >= LOSS, cutoff = True, no raise), else re-raise")
    ctx.rule("D8", "table members are errno/ssl integer constants and the test is `in`")
    ctx.rule("T7-siblings", "receive/send, plain/TLS, client/server tables agree")
    ctx.rule("T6-dgram", "datagram send/receive: transient set => retry, else re-raise")
    tables = {}
    handlers = 0
    for modn, cn, tls in STREAM:
        C = ctx.cls(modn, cn)
        for meth in ("receive", "send"):
            f = C.own_method(meth)
            ctx.functions.add(ctx.repo.func_qual(f))
            hs = [h for h in ast.walk(f) if isinstance(h, ast.ExceptHandler) and h.type is not None and dotted(h.type) == "socket.error"]
            if len(hs) != 1:
                raise AnchorError("%s.%s: expected one `except socket.error` handler, found %d" % (cn, meth, len(hs)))
            h = hs[0]
            handlers += 1
            arms = _arms(h)
            if arms is None or len(arms) != 3:
                ctx.bad("T6-class", h, "%s.%s: classification chain has %s arms" % (cn, meth, len(arms) if arms else 0),
                        "the handler must distinguish would-block, connection loss and everything else")
                continue
            (t0, b0), (t1, b1), (t2, b2) = arms
            n0, p0 = _names(f._module, t0)
            n1, p1 = _names(f._module, t1)
            for p in p0 + p1:
                ctx.bad("D8", h, "%s.%s: %s" % (cn, meth, p), "a member of an errno table that is not an integer constant, or a table "
                        "tested with == , never matches: that class of errors falls through to the re-raise arm")
            want_block = BLOCK_TLS if tls else BLOCK_PLAIN
            sets_cut = lambda b: _has(b, lambda x: isinstance(x, ast.Assign) and dotted(x.targets[0]) == "self.cutoff")
            raises = lambda b: _has(b, lambda x: isinstance(x, ast.Raise))
            ok0 = n0 == want_block and not sets_cut(b0) and not raises(b0)
            ctx.check(ok0, "T6-class", t0, "%s.%s would-block arm: %s, no state change" % (cn, meth, sorted(n0 or [])),
                      "would-block results must never change connection state (table must be %s)" % sorted(want_block))
            want_loss = LOSS | ({"SSL_ERROR_EOF"} if tls else set())
            cut_true = _has(b1, lambda x: isinstance(x, ast.Assign) and dotted(x.targets[0]) == "self.cutoff" and
                            isinstance(x.value, ast.Constant) and x.value.value is True)
            if meth == "receive":
                empty = _has(b1, lambda x: isinstance(x, ast.Return) and x.value is not None and src(x.value) in ("bytes()", "b''", "''", "bytearray()"))
            else:
                empty = _has(b1, lambda x: isinstance(x, ast.Assign) and dotted(x.targets[0]) == "result" and isinstance(x.value, ast.Constant) and x.value.value == 0)
            ok1 = n1 is not None and want_loss <= n1 and cut_true and empty and not raises(b1)
            ctx.check(ok1, "T6-class", t1, "%s.%s loss arm: table %s, cutoff = True, %s, no raise" % (cn, meth, sorted(n1 or []), "returns empty" if meth == "receive" else "result = 0"),
                      "a connection-loss error (missing from the table: %s) must mark the connection cut off and return no data instead of raising"
                      % sorted(want_loss - (n1 or set())))
            ok2 = bool(b2) and isinstance(b2[-1], ast.Raise) and b2[-1].exc is None and not sets_cut(b2)
            ctx.check(ok2, "T6-class", h, "%s.%s: any other error re-raises" % (cn, meth), "other errors must propagate")
            tables[(cn, meth)] = (frozenset(n0 or []), frozenset(n1 or []))
    base = tables.get(("Client", "receive"))
    for (cn, meth), tb in tables.items():
        tls = cn.endswith("Tls")
        ref = tables.get(("ClientTls", "receive")) if tls else base
        ctx.check(tb == ref, "T7-siblings", ctx.cls("tcp.clienting" if cn.startswith("Client") else "tcp.serving", cn).own_method(meth),
                  "%s.%s tables equal the %s reference" % (cn, meth, "TLS" if tls else "plain"),
                  "sibling transports classify the same error differently: %s vs %s" % (sorted(tb[1]), sorted(ref[1]) if ref else None))
    # Acceptor.accept
    ac = ctx.cls("tcp.serving", "Acceptor").own_method("accept")
    hs = [h for h in ast.walk(ac) if isinstance(h, ast.ExceptHandler) and dotted(h.type) == "socket.error"]
    ok = len(hs) == 1
    if ok:
        tests = [x for x in ast.walk(hs[0]) if isinstance(x, ast.Compare)]
        n, p = _names(ac._module, tests[0]) if tests else (None, ["no test"])
        ok = n == BLOCK_PLAIN and not p and isinstance(hs[0].body[-1], ast.Raise)
        handlers += 1
    ctx.check(ok, "T6-class", ac, "Acceptor.accept: EAGAIN/EWOULDBLOCK => nothing yet, else re-raise", "would-block on accept is not an error")
    # datagram
    ur = ctx.cls("udping", "SocketUdpNb").own_method("receive")
    hs = [h for h in ast.walk(ur) if isinstance(h, ast.ExceptHandler) and dotted(h.type) == "socket.error"]
    arms = _arms(hs[0]) if hs else None
    ok = bool(arms) and len(arms) == 2
    if ok:
        n, p = _names(ur._module, arms[0][0])
        ok = n == BLOCK_PLAIN and not p and _has(arms[0][1], lambda x: isinstance(x, ast.Return)) and isinstance(arms[1][1][-1], ast.Raise)
        handlers += 1
    ctx.check(ok, "T6-dgram", ur, "SocketUdpNb.receive: would-block => (b'', None), else re-raise", "")
    G = ctx.cls("stacking", "GramStack")
    transient = LOSS | {"ETIME"}
    for meth, retry in (("_serviceOneTxPkt", "defer"), ("_serviceOneReceived", "nodata")):
        f = G.own_method(meth)
        ctx.functions.add(ctx.repo.func_qual(f))
        hs = [h for h in ast.walk(f) if isinstance(h, ast.ExceptHandler) and dotted(h.type) == "socket.error"]
        if len(hs) != 1:
            raise AnchorError("GramStack.%s: expected one socket.error handler" % meth)
        handlers += 1
        arms = _arms(hs[0])
        ok = bool(arms) and len(arms) == 2
        probs = []
        if ok:
            n, probs = _names(f._module, arms[0][0])
            body = arms[0][1]
            ok = n is not None and transient <= n and not probs and not _has(body, lambda x: isinstance(x, ast.Raise))
            if retry == "defer":
                ok = ok and _has(body, lambda x: isinstance(x, ast.Call) and call_name(x) == "laters.append") and \
                    _has(body, lambda x: isinstance(x, ast.Call) and call_name(x) == "blockeds.append")
            else:
                ok = ok and _has(body, lambda x: isinstance(x, ast.Return) and isinstance(x.value, ast.Constant) and x.value.value is False)
            ok = ok and isinstance(arms[1][1][-1], ast.Raise)
        for p in probs:
            ctx.bad("D8", hs[0], "GramStack.%s: %s" % (meth, p), "transient destination errors are never recognised and raise")
        ctx.check(ok, "T6-dgram", f, "GramStack.%s: transient destination errors => %s, else re-raise" % (meth, "packet deferred, destination blocked for this pass" if retry == "defer" else "no data"),
                  "datagram stacks must treat transient destination errors as retryable rather than fatal")
    from .c35 import deferred_requeued
    deferred_requeued(ctx, "T6-dgram")
    ctx.floor("handlers", handlers, 11)
    found = defects.run(ctx.repo, [ctx.cls(m, c).own_method(x) for m, c, _ in STREAM for x in ("receive", "send")] +
                        [G.own_method("_serviceOneTxPkt"), G.own_method("_serviceOneReceived")], ("D8", "D1"))
    for fd in found:
        ctx.bad(fd.rule, fd.node, fd.construct, fd.why)
