"""C25 - transport errors are classified: connection loss cuts off, others raise."""
import ast

from ..model import AnchorError, call_name, const_str, dotted, src
from ..rules import FuncView, suffix_match
from .. import defects

EXPLANATION = (
    "For every `except socket.error` handler of the stream transports (Client/ClientTls/Incomer/IncomerTls "
    "receive and send), Acceptor.accept, SocketUdpNb.receive and the datagram stack handlers the classification "
    "tables are extracted from the if/elif chain: the would-block arm tests membership in {EAGAIN, EWOULDBLOCK} "
    "(plain) or {SSL_ERROR_WANT_READ, SSL_ERROR_WANT_WRITE} (TLS) and neither assigns cutoff nor raises; the loss "
    "arm's table contains the eight connection-loss errnos (plus ssl.SSL_ERROR_EOF for TLS), sets cutoff = True, "
    "yields empty/0 and does not raise; the final arm re-raises; every table member is an integer constant of "
    "errno/ssl (never an exception class) and the test is `in` (D8); datagram send/receive handlers treat the "
    "transient destination set as retryable (defer / no data) and re-raise everything else; sibling agreement "
    "between plain and TLS implementations and between client and server side.")
NOT_DECIDED = "which errno values real sockets raise for a given fault"

LOSS = {"ECONNRESET", "ENETRESET", "ENETUNREACH", "EHOSTUNREACH", "ENETDOWN", "EHOSTDOWN", "ETIMEDOUT", "ECONNREFUSED"}
BLOCK_PLAIN = {"EAGAIN", "EWOULDBLOCK"}
BLOCK_TLS = {"SSL_ERROR_WANT_READ", "SSL_ERROR_WANT_WRITE"}
STREAM = [("tcp.clienting", "Client", False), ("tcp.clienting", "ClientTls", True), ("tcp.serving", "Incomer", False), ("tcp.serving", "IncomerTls", True)]


def _resolve_table(module, node, depth=0):
    """members of an errno table expression: tuple/list literal, `A + (..)`, or a module-level name"""
    if isinstance(node, (ast.Tuple, ast.List, ast.Set)):
        return list(node.elts)
    if isinstance(node, ast.BinOp) and isinstance(node.op, ast.Add):
        a, b = _resolve_table(module, node.left, depth), _resolve_table(module, node.right, depth)
        return None if a is None or b is None else a + b
    if isinstance(node, ast.Name) and depth < 3:
        for st in module.tree.body:
            if isinstance(st, ast.Assign) and any(isinstance(t, ast.Name) and t.id == node.id for t in st.targets):
                return _resolve_table(module, st.value, depth + 1)
    if isinstance(node, ast.Attribute) and isinstance(node.value, ast.Name) and depth < 3:
        # a table hoisted into a class attribute: self.Transients / GramStack.Transients (bound once in a class body of this
        # module and never assigned through an instance)
        found = []
        for c in module.tree.body:
            if isinstance(c, ast.ClassDef) and (node.value.id in ("self", "cls") or node.value.id == c.name):
                for st in c.body:
                    if isinstance(st, ast.Assign) and any(isinstance(t, ast.Name) and t.id == node.attr for t in st.targets):
                        found.append(st.value)
        rebound = any(isinstance(x, ast.Attribute) and x.attr == node.attr and isinstance(x.ctx, ast.Store) for x in ast.walk(module.tree))
        if len(found) == 1 and not rebound:
            return _resolve_table(module, found[0], depth + 1)
    return None


def _arms(handler):
    """[(test expr | None, body)] of the if/elif/else chain that classifies ex.args[0] / ex.errno"""
    chain = [s for s in handler.body if isinstance(s, ast.If)]
    if not chain:
        return None
    node = chain[0]
    out = []
    while True:
        out.append((node.test, node.body))
        if len(node.orelse) == 1 and isinstance(node.orelse[0], ast.If):
            node = node.orelse[0]
            continue
        tail = node.orelse
        if not tail and node is chain[0] and _jumps(node.body):
            # normal form N5 (else-after-jump removed): the statements after the `if` are the else arm
            tail = handler.body[handler.body.index(node) + 1:]
            t = node.test
            if isinstance(t, ast.Compare) and len(t.ops) == 1 and isinstance(t.ops[0], (ast.NotIn, ast.NotEq)):
                # `if errno not in TABLE: raise` + rest  ==  `if errno in TABLE: rest else: raise`
                pos = ast.Compare(left=t.left, ops=[ast.In() if isinstance(t.ops[0], ast.NotIn) else ast.Eq()], comparators=t.comparators)
                ast.copy_location(pos, t)
                return [(pos, tail), (None, node.body)]
        out.append((None, tail))
        break
    return out


def _jumps(stmts):
    return bool(stmts) and isinstance(stmts[-1], (ast.Return, ast.Raise, ast.Continue, ast.Break))


def _names(module, test):
    """(set of constant names in the table, problems) for `ex.args[0] in TABLE`"""
    probs = []
    t = test
    if isinstance(t, ast.Compare) and len(t.ops) == 1:
        left = src(t.left)
        if not (left.endswith(".args[0]") or left.endswith(".errno")):
            return None, ["classification does not test the errno of the exception: %s" % src(t)]
        if not isinstance(t.ops[0], ast.In):
            probs.append("errno compared with %s to a table (never true / type error)" % type(t.ops[0]).__name__)
        members = _resolve_table(module, t.comparators[0])
        if members is None:
            return None, probs + ["errno table %s is not a literal" % src(t.comparators[0])]
        names = set()
        for e in members:
            d = dotted(e) or ""
            last = d.split(".")[-1]
            if not d or not (d.startswith("errno.") or d.startswith("ssl.")) or not last.isupper():
                probs.append("%s is not an errno/ssl integer constant (an exception class or other object among errno "
                             "integers can never match)" % (d or src(e)))
            names.add(last)
        return names, probs
    return None, ["unrecognised classification test %s" % src(t)]


def _has(body, pred):
    return any(pred(x) for s in body for x in ast.walk(s))


def check(ctx):
    ctx.rule("T6-class", "per handler: would-block arm (no cutoff, no raise), loss arm (table >= LOSS, cutoff = True, no raise), else re-raise")
    ctx.rule("D8", "table members are errno/ssl integer constants and the test is `in`")
    ctx.rule("T7-siblings", "receive/send, plain/TLS, client/server tables agree")
    ctx.rule("T6-dgram", "datagram send/receive: transient set => retry, else re-raise")
    tables = {}
    handlers = 0
    # Classification by PARTIAL EVALUATION: for every errno constant the handler mentions (plus the ones the property names
    # and one it does not), the function is specialised to "the socket call raised socket.error with that errno" and the
    # feasible paths through the handler are followed: does it raise, does it set cutoff, what does it return.  Independent of
    # the chain's spelling (if/elif/else, guard clauses, tables in locals or class attributes).
    from ..rules import peval
    OTHER = "errno.EPIPE"       # a real error that is neither would-block nor connection loss
    for modn, cn, tls in STREAM:
        C = ctx.cls(modn, cn)
        for meth in ("receive", "send"):
            f = C.own_method(meth)
            ctx.functions.add(ctx.repo.func_qual(f))
            hs = [h for h in ast.walk(f) if isinstance(h, ast.ExceptHandler) and h.type is not None and dotted(h.type) == "socket.error"]
            if len(hs) != 1:
                raise AnchorError("%s.%s: expected one `except socket.error` handler, found %d" % (cn, meth, len(hs)))
            h = hs[0]
            handlers += 1
            V = FuncView(ctx, f, exc="calls")
            exname = h.name or "ex"
            mentioned = set()
            for x in ast.walk(f):
                if isinstance(x, ast.Attribute) and isinstance(x.value, ast.Name) and x.value.id in ("errno", "ssl") and x.attr.isupper():
                    mentioned.add("%s.%s" % (x.value.id, x.attr))
            for t_ in ast.walk(f):      # tables held elsewhere (module / class constants)
                if isinstance(t_, ast.Compare) and len(t_.ops) == 1 and isinstance(t_.ops[0], (ast.In, ast.NotIn)):
                    mem = _resolve_table(f._module, t_.comparators[0])
                    for e in mem or []:
                        d = dotted(e) or ""
                        if d.split(".")[0] in ("errno", "ssl") and d.split(".")[-1].isupper():
                            mentioned.add(d)
            want_block = {("ssl." if n.startswith("SSL_") else "errno.") + n for n in (BLOCK_TLS if tls else BLOCK_PLAIN)}
            want_loss = {("ssl." if n.startswith("SSL_") else "errno.") + n for n in (LOSS | ({"SSL_ERROR_EOF"} if tls else set()))}
            universe = mentioned | want_block | want_loss | {OTHER}

            def classify(E):
                env = {"%s.args[0]" % exname: E, "%s.errno" % exname: E}
                # tables referenced by name are substituted by their literal members through the module lookup
                res = [r for r in peval(V, env, effects=True) if r[2] == "socket.error"]
                if not res:
                    return "unreachable", res
                raised = [r for r in res if r[0] == "raise"]
                cut = [r for r in res if any(e.replace(" ", "") == "self.cutoff=True" for e in r[3])]
                if raised and len(raised) == len(res):
                    return "raise", res
                if raised:
                    return "mixed", res
                if cut and len(cut) == len(res):
                    return "cutoff", res
                if cut:
                    return "mixed", res
                return "block", res
            klass = {E: classify(E) for E in sorted(universe)}
            got_block = {E for E, (k, _) in klass.items() if k == "block"}
            got_loss = {E for E, (k, _) in klass.items() if k == "cutoff"}
            mixed = {E for E, (k, _) in klass.items() if k in ("mixed", "unreachable")}
            for E in sorted(mixed):
                ctx.bad("D8", h, "%s.%s: errno %s is not classified (the test on it does not fold: table member that is not an integer constant, "
                        "`==` against a table, ...)" % (cn, meth, E.split(".")[-1]),
                        "a member of an errno table that is not an integer constant, or a table tested with == , never matches: "
                        "that class of errors falls through to the re-raise arm")
            ok0 = got_block == want_block
            ctx.check(ok0, "T6-class", h, "%s.%s would-block arm: %s, no state change" % (cn, meth, sorted(x.split(".")[-1] for x in got_block)),
                      "would-block results must never change connection state (table must be %s)" % sorted(x.split(".")[-1] for x in want_block))
            # what the loss arm returns: nothing received / zero bytes sent
            empty = True
            for E in got_loss:
                for k_, e_, h_, eff in klass[E][1]:
                    if k_ == "return":
                        v = src(e_) if e_ is not None else "None"
                        empty = empty and (v in ("bytes()", "b''", "''", "bytearray()") if meth == "receive" else v == "0")
            ok1 = want_loss <= got_loss and empty
            ctx.check(ok1, "T6-class", h, "%s.%s loss arm: table %s, cutoff = True, %s, no raise" % (
                cn, meth, sorted(x.split(".")[-1] for x in got_loss), "returns empty" if meth == "receive" else "result = 0"),
                "a connection-loss error (missing from the table: %s) must mark the connection cut off and return no data instead of raising"
                % sorted(x.split(".")[-1] for x in want_loss - got_loss))
            ok2 = klass[OTHER][0] == "raise" and not any("self.cutoff" in e for r in klass[OTHER][1] for e in r[3])
            ctx.check(ok2, "T6-class", h, "%s.%s: any other error re-raises" % (cn, meth), "other errors must propagate")
            tables[(cn, meth)] = (frozenset(x.split(".")[-1] for x in got_block), frozenset(x.split(".")[-1] for x in got_loss))
    base = tables.get(("Client", "receive"))
    for (cn, meth), tb in tables.items():
        tls = cn.endswith("Tls")
        ref = tables.get(("ClientTls", "receive")) if tls else base
        ctx.check(tb == ref, "T7-siblings", ctx.cls("tcp.clienting" if cn.startswith("Client") else "tcp.serving", cn).own_method(meth),
                  "%s.%s tables equal the %s reference" % (cn, meth, "TLS" if tls else "plain"),
                  "sibling transports classify the same error differently: %s vs %s" % (sorted(tb[1]), sorted(ref[1]) if ref else None))
    # Acceptor.accept
    ac = ctx.cls("tcp.serving", "Acceptor").own_method("accept")
    hs = [h for h in ast.walk(ac) if isinstance(h, ast.ExceptHandler) and dotted(h.type) == "socket.error"]
    ok = len(hs) == 1
    if ok:
        tests = [x for x in ast.walk(hs[0]) if isinstance(x, ast.Compare)]
        n, p = _names(ac._module, tests[0]) if tests else (None, ["no test"])
        ok = n == BLOCK_PLAIN and not p and isinstance(hs[0].body[-1], ast.Raise)
        handlers += 1
    ctx.check(ok, "T6-class", ac, "Acceptor.accept: EAGAIN/EWOULDBLOCK => nothing yet, else re-raise", "would-block on accept is not an error")
    # datagram
    ur = ctx.cls("udping", "SocketUdpNb").own_method("receive")
    hs = [h for h in ast.walk(ur) if isinstance(h, ast.ExceptHandler) and dotted(h.type) == "socket.error"]
    arms = _arms(hs[0]) if hs else None
    ok = bool(arms) and len(arms) == 2
    if ok:
        n, p = _names(ur._module, arms[0][0])
        ok = n == BLOCK_PLAIN and not p and _has(arms[0][1], lambda x: isinstance(x, ast.Return)) and isinstance(arms[1][1][-1], ast.Raise)
        handlers += 1
    ctx.check(ok, "T6-dgram", ur, "SocketUdpNb.receive: would-block => (b'', None), else re-raise", "")
    G = ctx.cls("stacking", "GramStack")
    transient = LOSS | {"ETIME"}
    for meth, retry in (("_serviceOneTxPkt", "defer"), ("_serviceOneReceived", "nodata")):
        f = G.own_method(meth)
        ctx.functions.add(ctx.repo.func_qual(f))
        hs = [h for h in ast.walk(f) if isinstance(h, ast.ExceptHandler) and dotted(h.type) == "socket.error"]
        if len(hs) != 1:
            raise AnchorError("GramStack.%s: expected one socket.error handler" % meth)
        handlers += 1
        arms = _arms(hs[0])
        ok = bool(arms) and len(arms) == 2
        probs = []
        if ok:
            n, probs = _names(f._module, arms[0][0])
            body = arms[0][1]
            ok = n is not None and transient <= n and not probs and not _has(body, lambda x: isinstance(x, ast.Raise))
            if retry == "defer":
                ok = ok and _has(body, lambda x: isinstance(x, ast.Call) and call_name(x) == "laters.append") and \
                    _has(body, lambda x: isinstance(x, ast.Call) and call_name(x) == "blockeds.append")
            else:
                ok = ok and _has(body, lambda x: isinstance(x, ast.Return) and isinstance(x.value, ast.Constant) and x.value.value is False)
            ok = ok and isinstance(arms[1][1][-1], ast.Raise)
        for p in probs:
            ctx.bad("D8", hs[0], "GramStack.%s: %s" % (meth, p), "transient destination errors are never recognised and raise")
        ctx.check(ok, "T6-dgram", f, "GramStack.%s: transient destination errors => %s, else re-raise" % (meth, "packet deferred, destination blocked for this pass" if retry == "defer" else "no data"),
                  "datagram stacks must treat transient destination errors as retryable rather than fatal")
    # a handler that lets a socket error go on must re-raise THAT error: the layers above classify on its errno (args[0])
    ctx.rule("D8-reraise", "inside `except socket.error` a raise is bare (or raises the caught object): wrapping it in a new exception loses the errno")
    nre = 0
    for modn in ("aio.udp.udping", "aio.tcp.clienting", "aio.tcp.serving", "aio.uxd.uxding"):
        try:
            m = ctx.repo.mod(modn)
        except AnchorError:
            continue
        ctx.use(m)
        for hnd in ast.walk(m.tree):
            if isinstance(hnd, ast.ExceptHandler) and hnd.type is not None and (dotted(hnd.type) or "").endswith("socket.error"):
                for r in ast.walk(hnd):
                    if isinstance(r, ast.Raise):
                        nre += 1
                        ctx.check(r.exc is None or (isinstance(r.exc, ast.Name) and r.exc.id == hnd.name), "D8-reraise", r, src(r)[:80],
                                  "the new exception carries a message as args[0] and no errno: the stack above no longer "
                                  "recognises transient destination errors or connection loss and treats them as fatal")
    ctx.floor("D8-reraise:raises", nre, 8)
    from .c35 import deferred_requeued, datagram_send_reraises
    deferred_requeued(ctx, "T6-dgram")
    datagram_send_reraises(ctx, "T6-dgram")
    from .c35 import txqueue_discipline_is_gramstacks
    txqueue_discipline_is_gramstacks(ctx, "GramStack", "T6-dgram")
    ctx.floor("handlers", handlers, 11)
    found = defects.run(ctx.repo, [ctx.cls(m, c).own_method(x) for m, c, _ in STREAM for x in ("receive", "send")] +
                        [G.own_method("_serviceOneTxPkt"), G.own_method("_serviceOneReceived")], ("D8", "D1"))
    for fd in found:
        ctx.bad(fd.rule, fd.node, fd.construct, fd.why)
    # a local bound only when the socket call succeeded must not be read on the path through the handler that classified the
    # failure as retryable (the function goes on after the except arm)
    ctx.rule("D1c", "no local of the transport/stack I/O functions is read on a path on which nothing bound it (a binding whose "
             "right-hand side raised does not count)")
    from ..rules import possibly_unbound
    fns = [ctx.cls(m, c).own_method(x) for m, c, _ in STREAM for x in ("receive", "send")] + \
        [f for n_, f in G.methods.items() if n_.startswith(("_serviceOne", "serviceTx", "serviceRx", "serviceReceive"))]
    for f in fns:
        V = FuncView(ctx, f, exc="calls")
        pu = possibly_unbound(V)
        ctx.check(not pu, "D1c", pu[0][0].ast if pu else f,
                  "%s: every read local is bound on every path%s" % (f.name, (" - `%s` in %s" % (pu[0][1], src(pu[0][0].ast)[:50])) if pu else ""),
                  "the failure the handler meant to treat as `try again later` ends in UnboundLocalError: the error is fatal instead of "
                  "retryable and the packet deferred for the retry is lost")
