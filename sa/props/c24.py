"""C24 - stream transports deliver queued bytes exactly once and in order."""
import ast

from ..model import AnchorError, call_name, const_str, dotted, src
from ..rules import transparent_override, FuncView, suffix_match, attr_writers, func_qual_of, truth_formula, path_condition, formula_unsat, formula_implies_f, formula_of, loop_continue_condition
from . import _framing

EXPLANATION = (
    "For Client.serviceTxes, Incomer.serviceTxes (inherited unchanged by the TLS classes) and serial "
    "Driver._serviceOneTx/serviceTxes: the value sent is the popleft() result; the only re-queue is "
    "appendleft(data[count:]) on the same deque, with data the popped value and count the send result, under "
    "count < len(data); after a re-queue control leaves the loop; new data enters only by append in tx(); every "
    "send implementation hands the wire log exactly data[:result] under `if result`; every serviceReceives loop "
    "appends the receive() result with rxbs.extend and stops at the first falsy result; .txes is mutated only by "
    "these functions.")
NOT_DECIDED = "behaviour of the sockets themselves (what recv/send return for a given fault sequence)"

TX_SITES = [("tcp.clienting", "Client", "serviceTxes", "self.send"), ("tcp.serving", "Incomer", "serviceTxes", "self.send"),
            ("serialing", "Driver", "_serviceOneTx", "self.server.send")]
SENDERS = [("tcp.clienting", "Client"), ("tcp.clienting", "ClientTls"), ("tcp.serving", "Incomer"), ("tcp.serving", "IncomerTls")]
RX_SITES = [("tcp.clienting", "Client", "self.receive"), ("tcp.serving", "Incomer", "self.receive"), ("serialing", "Driver", "self.server.receive")]


def check(ctx):
    ctx.rule("T9-tx", "sent value = txes.popleft(); partial => txes.appendleft(popped[count:]) then leave the loop; nothing else touches txes")
    ctx.rule("T6-inherit", "IncomerTls/ClientTls do not override serviceTxes/serviceReceives/tx")
    ctx.rule("T9-wire", "send(): wire log gets data[:result] under `if result`, and result is what is returned")
    ctx.rule("T9-rx", "serviceReceives: rxbs.extend(receive() result) in arrival order, stop at first falsy")
    ctx.rule("T4-txes", "writers of .txes")
    for modn, cn, fname, sendpat in TX_SITES:
        C = ctx.cls(modn, cn)
        f = C.own_method(fname)
        V = FuncView(ctx, f)
        cfg = V.cfg
        pops = V.need(V.calls("self.txes.popleft"), "self.txes.popleft() in %s.%s" % (cn, fname))
        sends = V.need(V.calls(sendpat), "%s(...)" % sendpat)
        ok = len(pops) == 1 and len(sends) == 1
        pn, sn = pops[0][0], sends[0][0]
        arg = V.sym(sends[0][1].args[0], sn) if sends[0][1].args else None
        ok = ok and arg is not None and src(arg) == "self.txes.popleft()"
        ctx.check(ok, "T9-tx", sends[0][1], "%s.%s sends the popped head of txes: %s" % (cn, fname, src(arg) if arg is not None else "?"),
                  "the bytes handed to the socket must be the head of the transmit queue")
        req = V.calls(("self.txes.appendleft", "self.txes.append", "self.txes.extend", "self.txes.extendleft", "self.txes.insert"))
        okq = len(req) == 1 and (suffix_match(call_name(req[0][1]), "self.txes.appendleft") or
                                 src(V.sym(req[0][1].func, req[0][0])).endswith("self.txes.appendleft"))
        shape = None
        if okq:
            rn, rc = req[0]
            a = rc.args[0]
            if isinstance(a, ast.Subscript) and isinstance(a.slice, ast.Slice) and a.slice.upper is None and a.slice.step is None \
                    and a.slice.lower is not None:
                base = V.sym(a.value, rn)
                low = V.sym(a.slice.lower, rn)
                shape = (src(base), src(low))
                okq = src(base) == "self.txes.popleft()" and src(low).startswith(sendpat + "(")
            else:
                okq = False
            # guard, by value and in any spelling (`count < len(data)`, `len(data) > count`, the else of `count >= len(data)`, ..)
            fs = V.symfacts(rn)
            okq = okq and any(f.startswith(sendpat + "(") and f.endswith(" < len(self.txes.popleft())") for f in fs)
        ctx.check(okq, "T9-tx", req[0][1] if req else f, "%s.%s re-queues exactly popped[sent:] at the head when sent < len(popped): %s" % (cn, fname, shape),
                  "after a partial or blocked send the unsent tail must go back to the *front* of the same queue, starting exactly "
                  "at the number of bytes the socket accepted; anything else loses, repeats or reorders bytes")
        # leave the loop after re-queue
        if req:
            rn = req[0][0]
            whiles = [w for w in cfg.nodes if w.kind == "test" and isinstance(w.ast, ast.While) and id(rn.ast) in {id(x) for x in ast.walk(w.ast)}]
            if whiles:
                w = whiles[0]
                inside = {n.id for n in cfg.nodes if id(n.ast) in {id(x) for x in ast.walk(w.ast)}}
                r = cfg.reachable(rn.id, removed_nodes=[n.id for n in cfg.nodes if n.id not in inside and n.id != w.id])
                ctx.check(w.id not in r, "T9-tx", rn.ast, "%s.%s leaves the loop after a re-queue" % (cn, fname),
                          "continuing to send after a partial send would put later data on the wire before the re-queued tail")
            else:
                # the function's result is truthy exactly when nothing was put back
                ok2 = formula_unsat(truth_formula(V), path_condition(V, rn, start=[cfg.entry.id]))
                ctx.check(ok2, "T9-tx", rn.ast, "%s.%s reports blocked (falsy) after a re-queue" % (cn, fname), "the caller must stop sending")
        others = V.calls(("self.txes.pop", "self.txes.clear", "self.txes.remove", "self.txes.rotate", "self.txes.reverse"))
        ctx.check(not others, "T9-tx", f, "%s.%s: no other mutation of txes" % (cn, fname), "")
    # Driver.serviceTxes stops when _serviceOneTx reports blocked
    D = ctx.cls("serialing", "Driver")
    st = D.own_method("serviceTxes")
    S = FuncView(ctx, st)
    one = S.need(S.call_nodes("self._serviceOneTx"), "_serviceOneTx() call")
    wh = [w for w in S.cfg.nodes if w.kind == "test" and isinstance(w.ast, ast.While)]
    ok = len(wh) == 1 and formula_implies_f(loop_continue_condition(S, wh[0]), formula_of("self._serviceOneTx()"))
    ctx.check(ok, "T9-tx", st, "Driver.serviceTxes breaks when _serviceOneTx() is falsy", "a blocked device must stop the drain")
    # tx() appends
    for modn, cn in (("tcp.clienting", "Client"), ("tcp.serving", "Incomer"), ("serialing", "Driver")):
        f = ctx.cls(modn, cn).own_method("tx")
        calls = [n for n in ast.walk(f) if isinstance(n, ast.Call)]
        ctx.check(len(calls) == 1 and src(calls[0]) == "self.txes.append(data)", "T9-tx", f, "%s.tx = txes.append(data)" % cn, "new data must enter at the tail")
    # inheritance
    for modn, sub, base in (("tcp.serving", "IncomerTls", "Incomer"), ("tcp.clienting", "ClientTls", "Client")):
        c = ctx.cls(modn, sub)
        for m in ("serviceTxes", "serviceReceives", "tx", "serviceReceiveOnce"):
            ctx.check(m not in c.methods or transparent_override(c.methods[m]), "T6-inherit", c.node, "%s inherits %s.%s" % (sub, base, m),
                      "an override of the queue discipline in the TLS class would need its own proof")
    # wire log
    for modn, cn in SENDERS:
        f = ctx.cls(modn, cn).own_method("send")
        V = FuncView(ctx, f, exc="calls")
        wl = V.need(V.calls("self.wlog.writeTx"), "wlog.writeTx in %s.send" % cn)
        rt = V.tests(lambda t: dotted(t) == "result")
        rets = [n for n in V.cfg.nodes if n.kind == "return"]
        ok = len(wl) == 1 and src(V.sym(wl[0][1].args[-1], wl[0][0])) in ("data[:result]", "data[:self.cs.send(data)]") and bool(rt) and V.dominated_by_edge([wl[0][0]], rt[0], "T") and \
            bool(rets) and all(dotted(r.ast.value) == "result" for r in rets)
        sends = V.calls("self.cs.send")
        ok = ok and len(sends) == 1 and src(sends[0][1].args[0]) == "data"
        ctx.check(ok, "T9-wire", f, "%s.send: cs.send(data); if result: wlog.writeTx(.., data[:result]); return result" % cn,
                  "the wire log must record exactly the bytes the socket accepted")
    # receives
    for modn, cn, recv in RX_SITES:
        f = ctx.cls(modn, cn).own_method("serviceReceives")
        V = FuncView(ctx, f)
        w = [n for n in V.cfg.nodes if n.kind == "test" and isinstance(n.ast, ast.While)]
        ext = V.calls("self.rxbs.extend")
        rc = V.calls(recv)
        ok = len(w) == 1 and len(ext) == 1 and len(rc) == 1 and src(V.sym(ext[0][1].args[0], ext[0][0])) == recv + "()"
        nt = V.tests(lambda t: isinstance(t, ast.UnaryOp) and isinstance(t.op, ast.Not) and dotted(t.operand) == "data")
        brk = [n for n in V.cfg.nodes if n.kind == "break"]
        ok = ok and bool(nt) and any(V.dominated_by_edge([b], nt[0], "T") for b in brk) and V.dominated_by_edge([ext[0][0]], nt[0], "F")
        ok = ok and not V.calls(("self.rxbs.insert", "self.rxbs.clear", "self.rxbs.pop"))
        ctx.check(ok, "T9-rx", f, "%s.serviceReceives: rxbs.extend(%s()) until a falsy result" % (cn, recv),
                  "received chunks must be appended to the receive buffer in arrival order")
    # writers
    allowed_suffix = (".tx", ".serviceTxes", "._serviceOneTx", ".__init__", ".reinit", ".serviceTxOnce")
    k = 0
    for node, kind in attr_writers(ctx.repo, "txes"):
        q = func_qual_of(ctx.repo, node)
        if "/aio/tcp/" not in q and "/aio/serial/" not in q:
            continue
        k += 1
        ctx.check(q.endswith(allowed_suffix), "T4-txes", node, "%s of .txes in %s" % (kind, q.split(":")[1]),
                  "the transmit queue is mutated outside tx()/serviceTxes")
    ctx.floor("T4-txes:writers", k, 8)
    wire_log_writes(ctx)
    queues_unbounded(ctx, "T4-unbounded", ("ioflo.aio.tcp.serving", "ioflo.aio.tcp.clienting", "ioflo.aio.serial.serialing"))


def wire_log_writes(ctx):
    """WireLog.writeTx/writeRx put the chunk they were handed into the log as it is: header line, the bytes, one newline"""
    ctx.rule("T9-wirelog", "WireLog.writeTx/writeRx: write(header); write(data) - the parameter itself; write(b'\\n')")
    W = ctx.cls("aio.wiring", "WireLog")
    for mn, log in (("writeTx", "self.txLog"), ("writeRx", "self.rxLog")):
        f = W.own_method(mn)
        V = FuncView(ctx, f)
        ws = [(n, c) for n, c in V.attr_calls(("write",)) if src(V.sym(c.func.value, n)) == log]
        args = [src(V.sym(c.args[0], n)) if c.args else "?" for n, c in ws]
        ok = len(ws) == 3 and args[1] == "data" and args[2] in ("b'\\n'",) and args[0].startswith("ns2b(") and \
            all(V.dominated([ws[i + 1][0]], [ws[i][0]]) for i in range(2))
        ctx.check(ok, "T9-wirelog", f, "WireLog.%s writes the header, then `data` unchanged, then a newline (%s)" % (mn, args),
                  "the wire log is the record of exactly the bytes the socket accepted or delivered: a stripped, decoded or "
                  "re-encoded copy drops or changes bytes (e.g. the CRLF that ends an HTTP head)")


def _bounded_deque(x):
    return isinstance(x, ast.Call) and (dotted(x.func) or "").split(".")[-1] == "deque" and \
        (len(x.args) > 1 or any(k.arg == "maxlen" and not (isinstance(k.value, ast.Constant) and k.value.value is None) for k in x.keywords))


def queues_unbounded(ctx, rule, modules):
    """a deque with maxlen drops from the far end, silently, when it is full: a transmit queue, receive queue or packet queue
    built that way loses the oldest (or the re-queued newest) entry under backlog"""
    ctx.rule(rule, "no deque(.., maxlen) in %s: queued data is never dropped by the container" % ", ".join(modules))
    probe = ast.parse("a = deque(maxlen=8)\nb = deque([], 4)\nc = deque()\nd = deque(x, maxlen=None)")
    if sum(1 for x in ast.walk(probe) if _bounded_deque(x)) != 2:
        raise AnchorError("%s matcher no longer recognises its positive examples" % rule)
    k = 0
    for modn in modules:
        m = ctx.repo.modules.get(modn)
        if m is None:
            raise AnchorError("%s not found" % modn)
        ctx.use(m.tree)
        for x in ast.walk(m.tree):
            if isinstance(x, ast.Call) and (dotted(x.func) or "").split(".")[-1] == "deque":
                k += 1
                ctx.check(not _bounded_deque(x), rule, x, "%s is unbounded" % src(x)[:50],
                          "a bounded deque discards entries without any error when it is full: queued bytes / packets vanish "
                          "(the oldest on append, the newest on appendleft of a re-queued tail)")
    ctx.floor(rule + ":deques", k, 3)
