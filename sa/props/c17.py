"""C17 - direct data literals convert to the documented typed values (conversion ORDER clause)."""
import ast
import re

from ..model import AnchorError, call_name, const_str, dotted, src, walk_no_nested
from ..rules import module_assign

EXPLANATION = (
    "The try-order of the Convert2* family is flattened from the source (recogniser tests in statement order, "
    "delegations inlined) and compared with the documented order for each context: quoted string, "
    "none/true/yes/false/no, path text, lat/lon, typed points (XY, NE, FS, XYZ, NED, FSB), decimal int, hex int, "
    "float, complex; each parsing context calls the converter the documentation assigns to it; every converter's "
    "last resort is ValueError; the REO_* patterns the converters use are anchored at both ends and their group "
    "counts equal what the converters unpack.")
NOT_DECIDED = "value round trip (repr -> convert) of runtime floats/strings; numeric parsing of the stdlib constructors"

GROUPS = [("quoted", {"REO_Quoted", "REO_QuotedSingle"}), ("none/bool", {"none", "true|yes", "false|no"}),
          ("path", {"REO_PathNode"}), ("latlon", {"REO_LatLonNE", "REO_LatLonSW"}),
          ("points", {"REO_PointXY", "REO_PointNE", "REO_PointFS", "REO_PointXYZ", "REO_PointNED", "REO_PointFSB"}),
          ("int10", {"int10"}), ("int16", {"int16"}), ("float", {"float"}), ("complex", {"complex"})]
ENTRY = {
    "Convert2StrBoolPathCoordPointNum": ["quoted", "none/bool", "path", "latlon", "points", "int10", "int16", "float", "complex"],
    "Convert2StrBoolCoordNum": ["quoted", "none/bool", "latlon", "int10", "int16", "float", "complex"],
    "Convert2Num": ["int10", "int16", "float", "complex"],
}
CONTEXTS = [("Builder.parseDirect", "Convert2StrBoolPathCoordPointNum"), ("Builder.parseNeedGoal", "Convert2StrBoolCoordNum"),
            ("Builder.buildBid", "Convert2Num"), ("Builder.buildTimeout", "Convert2Num"), ("Builder.buildRepeat", "Convert2Num")]


def _recogniser(test, assigns):
    """name of the recogniser a test expression applies to `text`"""
    if isinstance(test, ast.Call) and isinstance(test.func, ast.Attribute) and test.func.attr in ("match", "findall", "search") \
            and isinstance(test.func.value, ast.Name) and test.func.value.id.startswith("REO_"):
        return test.func.value.id
    if isinstance(test, ast.Name) and test.id in assigns:
        return assigns[test.id]
    if isinstance(test, ast.Compare) and (src(test.left) == "text.lower()" or
                                          (isinstance(test.left, ast.Name) and assigns.get(test.left.id) == "@text.lower()")):
        c = test.comparators[0]
        if isinstance(c, (ast.List, ast.Tuple)):
            words = [const_str(e) for e in c.elts]
            if set(words) == {"true", "yes", "false", "no"}:
                return ["true|yes", "false|no"]       # both boolean spellings recognised by one membership test
            return "|".join(words)
        return const_str(c)
    return None


def flatten(module, fname, depth=0, seen=()):
    fn = module.funcs.get(fname)
    if fn is None:
        raise AnchorError("converter %s not found" % fname)
    steps = []
    assigns = {}
    last_raise = False
    def ordered(body):
        """statements in evaluation order, descending into if/else arms (a recogniser tried in an else arm comes after the
        one tested by the if)"""
        for st_ in body:
            yield st_
            if isinstance(st_, ast.If):
                yield from ordered(st_.body)
                yield from ordered(st_.orelse)
    for st in ordered(fn.body):
        last_raise = False
        if isinstance(st, (ast.Assign, ast.AugAssign)) and any(dotted(t) == "text" for t in (st.targets if isinstance(st, ast.Assign) else [st.target])):
            steps.append("text-rebound")      # what later converters receive is no longer the token as written
        elif isinstance(st, ast.Assign) and isinstance(st.value, ast.Call) and src(st.value) == "text.lower()" and isinstance(st.targets[0], ast.Name):
            assigns[st.targets[0].id] = "@text.lower()"
        elif isinstance(st, ast.Assign) and isinstance(st.value, ast.Call):
            r = _recogniser(st.value, assigns)
            if r and isinstance(st.targets[0], ast.Name):
                assigns[st.targets[0].id] = r
        elif isinstance(st, ast.If):
            tests = st.test.values if isinstance(st.test, ast.BoolOp) and isinstance(st.test.op, ast.Or) else [st.test]
            for t_ in tests:
                r = _recogniser(t_, assigns)
                if isinstance(r, list):
                    steps.extend(r)
                    # the merged form answers with the truth of the `true|yes` membership
                    rv = [x.value for x in st.body if isinstance(x, ast.Return) and x.value is not None]
                    okv = bool(rv) and isinstance(rv[0], ast.Compare) and isinstance(rv[0].ops[0], ast.In) and \
                        isinstance(rv[0].comparators[0], (ast.List, ast.Tuple)) and \
                        {const_str(e) for e in rv[0].comparators[0].elts} == {"true", "yes"}
                    if not okv:
                        steps.append("bool-value-mismatch")
                elif r is not None:
                    steps.append(r)
        elif isinstance(st, ast.Try):
            for x in st.body:
                for c in ast.walk(x):
                    if isinstance(c, ast.Call):
                        cn = call_name(c)
                        if cn == "int" and len(c.args) == 2 and isinstance(c.args[1], ast.Constant):
                            steps.append("int%d" % c.args[1].value)
                        elif cn in ("float", "complex") and c.args and src(c.args[0]) == "text":
                            steps.append(cn)
                        elif cn and cn.startswith("Convert2") and cn not in seen:
                            steps += flatten(module, cn, depth + 1, seen + (fname,))[0]
            for h in st.handlers:
                if any(isinstance(x, ast.Raise) for x in ast.walk(h)):
                    last_raise = any(isinstance(x, ast.Raise) and "ValueError" in src(x) for x in ast.walk(h))
        elif isinstance(st, ast.Raise):
            last_raise = "ValueError" in src(st)
    # the last effective statement (ignoring unreachable trailing `return None`) must raise ValueError
    eff = [s for s in fn.body if not (isinstance(s, ast.Return) and (s.value is None or src(s.value) == "None"))]
    tail = eff[-1] if eff else None
    ends_in_raise = isinstance(tail, ast.Raise) or (isinstance(tail, ast.Try) and all(
        any(isinstance(x, ast.Raise) and "ValueError" in src(x) for x in ast.walk(h)) for h in tail.handlers))
    return steps, ends_in_raise


def check(ctx):
    from .c19 import change_assigns_every_field
    change_assigns_every_field(ctx, "T2-stored")
    bm = ctx.repo.mod("building")
    gm = ctx.repo.mod("globaling")
    ctx.use(bm)
    ctx.use(gm)
    bm.ns
    ctx.rule("T6-order", "flattened recogniser order of each converter entry point equals the documented order")
    ctx.rule("T6-context", "each parsing context calls its documented converter")
    ctx.rule("T10-last", "every converter ends in raise ValueError")
    ctx.rule("T6-regex", "REO_* patterns are anchored ^...$ and capture as many groups as the converter unpacks")
    gi = {}
    for gname, members in GROUPS:
        for m in members:
            gi[m] = gname
    for entry, want in ENTRY.items():
        steps, ends = flatten(bm, entry)
        got = []
        unknown = [s for s in steps if s not in gi]
        for s in steps:
            g = gi.get(s)
            if g and (not got or got[-1] != g):
                got.append(g)
        ctx.functions.add("ioflo/base/building.py:" + entry)
        ctx.check(got == want and not unknown, "T6-order", bm.funcs[entry], "%s: %s" % (entry, " > ".join(steps)),
                  "the conversion order of %s is %s but the documented order for its context is %s%s: some literal "
                  "now converts to a different type" % (entry, got, want, (" (unknown recognisers %s)" % unknown) if unknown else ""))
        # within the points / latlon group all members present
        for gname, members in GROUPS:
            if gname in want and len(members) > 1:
                miss = members - set(steps)
                ctx.check(not miss, "T6-order", bm.funcs[entry], "%s tries every %s form" % (entry, gname),
                          "%s no longer recognises %s" % (entry, sorted(miss)))
    for name, fn in bm.funcs.items():
        if name.startswith("Convert2"):
            _, ends = flatten(bm, name)
            ctx.check(ends, "T10-last", fn, "%s ends in raise ValueError" % name,
                      "a converter that falls through returns None for unconvertible text instead of raising the value "
                      "error the builder and parseNeedGoal rely on")
    for qual, conv in CONTEXTS:
        f = ctx.fn("building", qual)
        calls = [n for n in ast.walk(f) if isinstance(n, ast.Call) and (call_name(n) or "").startswith("Convert2")]
        ctx.check(bool(calls) and all(call_name(c) == conv for c in calls), "T6-context", f,
                  "%s uses %s" % (qual, conv), "%s must convert its literal with %s, found %s"
                  % (qual, conv, sorted({call_name(c) for c in calls})))
    # quote stripping: the value of a quoted literal is the text between its enclosing quotes
    ctx.rule("T9-strip", "a literal recognised by REO_Quoted / REO_QuotedSingle is returned with exactly its own enclosing quote character stripped")
    nstrip = 0
    for name, fn in bm.funcs.items():
        if not (name.startswith("Convert2") or name == "StripQuotes"):
            continue
        for st in ast.walk(fn):
            if not isinstance(st, ast.If):
                continue
            tests = st.test.values if isinstance(st.test, ast.BoolOp) and isinstance(st.test.op, ast.Or) else [st.test]
            recs = [_recogniser(t_, {}) for t_ in tests]
            recs = [r for r in recs if r in ("REO_Quoted", "REO_QuotedSingle")]
            if not recs:
                continue
            for r_ in [x for x in st.body if isinstance(x, ast.Return) and x.value is not None]:
                v = r_.value
                nstrip += 1
                if isinstance(v, ast.Call) and isinstance(v.func, ast.Attribute) and v.func.attr == "strip" and src(v.func.value) == "text":
                    chars = const_str(v.args[0]) if v.args else None
                    want_chars = {"REO_Quoted": '"', "REO_QuotedSingle": "'"}
                    ok = len(recs) == 1 and chars == want_chars[recs[0]]
                    ctx.check(ok, "T9-strip", r_, "%s: %s -> text.strip(%r)" % (name, "|".join(recs), chars),
                              "stripping a set of characters that is not exactly the literal's own enclosing quote removes quote "
                              "characters that belong to the content (e.g. \"'tis\" loses its apostrophe)")
                elif isinstance(v, ast.Call) and call_name(v) == "StripQuotes":
                    ctx.ok("T9-strip", r_, "%s delegates quote stripping to StripQuotes" % name)
                elif isinstance(v, ast.Subscript) and src(v) == "text[1:-1]":
                    ctx.ok("T9-strip", r_, "%s: text[1:-1]" % name)
                else:
                    ctx.bad("T9-strip", r_, "%s: %s" % (name, src(v)), "unrecognised way of removing the enclosing quotes")
    ctx.floor("T9-strip:sites", nstrip, 2)
    # regex facts
    unpack = {}
    for name, fn in bm.funcs.items():
        if not name.startswith("Convert2"):
            continue
        assigns = {}
        for st in ast.walk(fn):
            if isinstance(st, ast.Assign) and isinstance(st.value, ast.Call):
                r = _recogniser(st.value, {})
                if r and isinstance(st.targets[0], ast.Name):
                    assigns[st.targets[0].id] = r
        for st in ast.walk(fn):
            if isinstance(st, ast.If) and isinstance(st.test, ast.Name) and st.test.id in assigns:
                reo = assigns[st.test.id]
                n = 0
                for x in ast.walk(st):
                    if isinstance(x, ast.Assign) and isinstance(x.targets[0], ast.Tuple) and src(x.value).endswith("[0]"):
                        n = max(n, len(x.targets[0].elts))
                    if isinstance(x, ast.Subscript) and src(x).startswith(st.test.id + "[0]["):
                        try:
                            n = max(n, int(src(x.slice)) + 1)
                        except ValueError:
                            pass
                if n:
                    unpack[reo] = max(unpack.get(reo, 0), n)
    import re._parser as sre
    import re._constants as sc
    used = {m for _, ms in GROUPS for m in ms if m.startswith("REO_")}
    for reo in sorted(used):
        v = module_assign(gm, reo)
        pat = const_str(v.args[0]) if isinstance(v, ast.Call) and call_name(v) == "re.compile" and v.args else None
        if pat is None:
            raise AnchorError("%s is not re.compile(<literal>)" % reo)
        p = sre.parse(pat)

        def ends(items):
            items = list(items)
            if not items:
                return False
            op, av = items[-1]
            if (op, av) == (sc.AT, sc.AT_END):
                return True
            if op is sc.SUBPATTERN:
                return ends(av[3])
            if op is sc.BRANCH:
                return all(ends(b) for b in av[1])
            return False

        def begins(items):
            items = list(items)
            if not items:
                return False
            op, av = items[0]
            if (op, av) == (sc.AT, sc.AT_BEGINNING):
                return True
            if op is sc.SUBPATTERN:
                return begins(av[3])
            if op is sc.BRANCH:
                return all(begins(b) for b in av[1])
            return False

        def anchored(items):
            items = list(items)
            if len(items) == 1 and items[0][0] is sc.BRANCH:
                return all(anchored(b) for b in items[0][1][1])
            return begins(items) and ends(items)
        ctx.check(anchored(p), "T6-regex", v, "%s = %s is anchored at both ends" % (reo, pat[:50]),
                  "an unanchored literal pattern accepts text with trailing/leading garbage as that type")
        ngroups = p.state.groups - 1
        if reo in unpack:
            ctx.check(ngroups == unpack[reo], "T6-regex", v, "%s captures %d group(s) = unpacked %d" % (reo, ngroups, unpack[reo]),
                      "the converter unpacks %d values from a match that captures %d: ValueError/IndexError (or wrong "
                      "coordinates) for a valid literal" % (unpack[reo], ngroups))
    ctx.floor("T6-regex:patterns", len(used), 11)
