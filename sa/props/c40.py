"""C40 - bit, byte and hex codecs round-trip (sibling / duality clauses)."""
import ast

from ..model import AnchorError, call_name, const_str, dotted, src
from ..rules import FuncView, suffix_match

EXPLANATION = (
    "Sibling agreement: the field loops of packify and packifyInto are identical (or packifyInto delegates to "
    "packify with the same fmt/fields/size/reverse); duality: the mask (2**bfl - 1) and shift amount (bfp - bfl) "
    "used with << when packing equal those used with >> when unpacking, and both walk bfp down by bfl from "
    "8*size; packify serialises with bytify(strict=True) and unpackify reads with unbytify; packifyInto "
    "zero-extends the buffer to offset+size *before* the slice store b[offset:offset+len(bp)] = bp (a slice "
    "store beyond the end would append at the wrong offset) and returns size; bytify/unbytify treat `reverse` "
    "symmetrically; one-bit fields pack truthiness.")
NOT_DECIDED = "the numeric round trip itself over all formats and values (the property mentions a proof on a model: a different family)"


def _field_loop(fn):
    """the loop over the bit field lengths of the format: `for .. in [enumerate(]fmt.split()[)]`, the split possibly hoisted"""
    hoisted = {st.targets[0].id for st in fn.body if isinstance(st, ast.Assign) and len(st.targets) == 1 and
               isinstance(st.targets[0], ast.Name) and src(st.value) == "fmt.split()"}
    for n in fn.body:
        if isinstance(n, ast.For):
            it = src(n.iter)
            if "fmt.split()" in it or any(it in (h, "enumerate(%s)" % h) for h in hoisted):
                return n
    return None


def check(ctx):
    ctx.rule("T7-pack", "packify and packifyInto share one field loop (or delegation)")
    ctx.rule("T6-dual", "pack mask/shift == unpack mask/shift; bfp walks down by bfl from 8*size in both")
    ctx.rule("T1-extend", "packifyInto: buffer extended to offset+size before b[offset:offset+len(bp)] = bp")
    ctx.rule("T9-bytify", "bytify/unbytify reverse symmetry")
    pk = ctx.fn("aid.byting", "packify")
    pi = ctx.fn("aid.byting", "packifyInto")
    up = ctx.fn("aid.byting", "unpackify")
    lp, li, lu = _field_loop(pk), _field_loop(pi), _field_loop(up)
    if lp is None or lu is None:
        raise AnchorError("field loops of packify/unpackify not found")
    if li is not None:
        ctx.check(ast.dump(lp) == ast.dump(li), "T7-pack", li, "packifyInto field loop == packify field loop",
                  "packing into a buffer no longer produces the same bits as packing into a new bytearray")
    else:
        calls = [n for n in ast.walk(pi) if isinstance(n, ast.Call) and call_name(n) == "packify"]
        ok = len(calls) == 1
        if ok:
            c = calls[0]
            got = [src(a) for a in c.args] + ["%s=%s" % (k.arg, src(k.value)) for k in c.keywords]
            ok = got in (["fmt", "fields", "size", "reverse"], ["fmt=fmt", "fields=fields", "size=size", "reverse=reverse"])
        ctx.check(ok, "T7-pack", pi, "packifyInto delegates to packify(fmt, fields, size, reverse)", "the two packers must produce the same bytes")
    t = src(lp)
    dual = "fields[i] & 2 ** bfl - 1" in t and "bits <<= bfp - bfl" in t and "bfp -= bfl" in t and "n |= bits" in t
    tu = src(lu)
    dual = dual and "mask = 2 ** bfl - 1 << bfp - bfl" in tu and "bits = n & mask" in tu and "bits >>= bfp - bfl" in tu and "bfp -= bfl" in tu
    ctx.check(dual, "T6-dual", lu, "pack: (v & (2**bfl-1)) << (bfp-bfl); unpack: (n & ((2**bfl-1) << (bfp-bfl))) >> (bfp-bfl)",
              "the unpacker must read each field from exactly the bit positions the packer wrote it to")
    for f in (pk, up):
        init = [n for n in ast.walk(f) if isinstance(n, ast.Assign) and dotted(n.targets[0]) == "bfp"]
        ctx.check(bool(init) and src(init[0].value).replace(" ", "") in ("8*size", "size*8"), "T6-dual", f, "%s: bfp starts at 8 * size" % f.name, "")
    ctx.check("bytify(n=n, size=size, reverse=reverse, strict=True)" in src(pk), "T6-dual", pk, "packify -> bytify(n, size, reverse, strict=True)", "")
    ctx.check("unbytify(b)" in src(up) or "unbytify(b, reverse" in src(up), "T6-dual", up, "unpackify -> unbytify(b)", "")
    one = [n for n in ast.walk(lp) if isinstance(n, (ast.If, ast.IfExp)) and src(n.test) == "bfl == 1"]
    ctx.check(bool(one) and ("if fields[i]" in src(one[0]) or "bool(fields[i])" in src(one[0])), "T6-dual", lp,
              "one-bit fields pack the truthiness of the value", "")
    V = FuncView(ctx, pi)
    stores = [n for n in V.cfg.nodes if any(isinstance(x, ast.Subscript) and isinstance(x.ctx, ast.Store) and dotted(x.value) == "b" for x in V.cfg.walk_node(n))]
    V.need(stores, "slice store into b in packifyInto")
    ext = V.call_nodes("b.extend")
    gt = V.tests(lambda t: src(t).replace("(", "").replace(")", "").replace(" ", "") == "lenb<offset+size")
    ok = bool(ext) and bool(gt) and V.dominated_by_edge(ext, gt[0], "T") and V.dominated(stores, gt)
    if ok:
        c = [c for n, c in V.calls("b.extend")][0]
        ok = src(c.args[0]).replace(" ", "").replace("0x00", "0") in ("[0]*(offset+size-len(b))",)
        ok = ok and V.cfg.always_reaches([gt[0].id], [e.id for e in ext] + [b for b, lab in V.cfg.succ[gt[0].id] if lab == "F"], ends=[stores[0].id])
    ctx.check(ok, "T1-extend", stores[0].ast, "if len(b) < offset + size: b.extend([0]*(offset+size-len(b))) before the slice store",
              "without the zero extension a slice store that starts beyond the end of the buffer is clamped by python: the packed "
              "bytes are appended at len(b) instead of at offset and the gap is not zero filled")
    sub = [x for x in V.cfg.walk_node(stores[0]) if isinstance(x, ast.Subscript) and isinstance(x.ctx, ast.Store)][0]
    sl = sub.slice
    okb = isinstance(sl, ast.Slice) and src(sl.lower) == "offset" and src(sl.upper).replace(" ", "") in ("offset+len(bp)", "offset+size")
    ctx.check(okb, "T1-extend", sub, "slice is b[offset:offset+len(bp)]", "the packed bytes replace exactly size bytes at offset without disturbing others")
    rets = [n for n in V.cfg.nodes if n.kind == "return"]
    ctx.check(bool(rets) and all(src(V.sym(r.ast.value, r)) in ("size", "len(bp)") or dotted(r.ast.value) == "size" for r in rets), "T1-extend", pi, "returns size", "")
    by = ctx.fn("aid.byting", "bytify")
    ub = ctx.fn("aid.byting", "unbytify")
    tb, tub = src(by), src(ub)
    ok = "b.insert(0, n & 255)" in tb and "n >>= 8" in tb and "if reverse:\n        b.reverse()" in tb and \
        "if not reverse:\n        b.reverse()" in tub and "n <<= 8" in tub and "n += b.pop()" in tub
    ctx.check(ok, "T9-bytify", by, "bytify builds MSB first and reverses iff reverse; unbytify reverses iff not reverse and pops LSB-last",
              "the byte-order variants must be mirror images and bytify/unbytify mutual inverses")
    # decoders and encoders work on their own copy: what the caller passed (a receive buffer, a packed field) is left as it was
    ctx.rule("T4-args", "byting functions other than packifyInto never mutate a caller's argument in place")
    from ..rules import param_mutations
    m = ctx.repo.mod("aid.byting")
    k = 0
    for f in [x for x in m.tree.body if isinstance(x, ast.FunctionDef)]:
        if f.name == "packifyInto":
            continue        # writes into the caller's buffer by contract
        k += 1
        V = FuncView(ctx, f)
        bad = param_mutations(V)
        ctx.check(not bad, "T4-args", bad[0][0].ast if bad else f, "%s works on its own copy of its arguments%s" % (f.name, (": " + bad[0][2]) if bad else ""),
                  "the argument may be the caller's live buffer (or the shared mutable default): e.g. reversing it in place makes a "
                  "second decode of the same bytes return different fields")
    ctx.floor("T4-args:functions", k, 8)
    # integers <-> bytes are unsigned: a struct fast path must use unsigned codes
    ctx.rule("T9-unsigned", "struct codes used by aid.byting are the unsigned ones (B H I L Q), whether written in place or kept in a table")
    tables = {st.targets[0].id: st.value for st in m.tree.body if isinstance(st, ast.Assign) and len(st.targets) == 1 and
              isinstance(st.targets[0], ast.Name) and isinstance(st.value, (ast.Dict, ast.Tuple, ast.List))}
    ns = 0
    for f in [x for x in m.tree.body if isinstance(x, ast.FunctionDef)]:
        for c in [x for x in ast.walk(f) if isinstance(x, ast.Call) and (call_name(x) or "").startswith("struct.")]:
            if not c.args:
                continue
            ns += 1
            fmt_e = c.args[0]
            texts = [x.value for x in ast.walk(fmt_e) if isinstance(x, ast.Constant) and isinstance(x.value, str)]
            for nm in [x.id for x in ast.walk(f) if isinstance(x, ast.Name) and x.id in tables]:     # tables the function reads codes from
                texts += [x.value for x in ast.walk(tables[nm]) if isinstance(x, ast.Constant) and isinstance(x.value, str)]
            signed = sorted({ch for t_ in texts for ch in t_ if ch in "bhilqn"})
            ctx.check(not signed, "T9-unsigned", c, "%s: %s uses struct codes %s" % (f.name, src(c)[:50], sorted(set("".join(texts)))),
                      "a signed code (%s) decodes the top bit as a sign: unbytify(bytify(n)) comes back negative for n >= 2**(8*size-1)" % ",".join(signed))
    ctx.ok("T9-unsigned", "ioflo/aid/byting.py", "%d struct calls" % ns)
