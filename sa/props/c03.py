"""C03 - scheduler stops when nothing runs and aborts every remaining tasker."""
import ast

from ..model import AnchorError, call_name, dotted, src, parent
from ..rules import FuncView, suffix_match, defect_scope
from .c02 import _send_may_raise, _enclosing_for

EXPLANATION = (
    "Stop conditions and the abort sweep of Skedder.run decided on its CFG (finally bodies inlined "
    "per continuation): `more` is reset per tick and set only from RUNNING/STARTED statuses; the two "
    "stop tests sit between the tasker loop and the stamp advance; every way out of the tick loop "
    "(normal, break, re-raised exception) passes the sweep, which pops each ready entry once and "
    "sends ABORT once (StopIteration tolerated); the catch-all handlers re-raise.  "
    "Framer.makeRunner: on STOP/ABORT a started or running framer calls exitAll before its status "
    "is overwritten; exitAll exits the *full* outline of the active frame bottom-up then "
    "deactivates; Frame.exit exits auxiliaries before its own exit actions.  Internal-error "
    "detectors over Skedder.run and every makeRunner.")
NOT_DECIDED = ("what happens to the tasker that itself raised or was interrupted mid-run (it is popped, "
               "hence no longer scheduled); bid histories; crash-point enumeration (runtime)")


def _is_running_test(t):
    """status in (RUNNING, STARTED) -- any spelling (normalised by sa/normalize N1), self.status or local"""
    from ..rules import member_test
    m = member_test(t)
    return bool(m) and m[0] in ("status", "self.status") and m[1] == {"RUNNING", "STARTED"}


def check(ctx):
    ctx.rule("T1-more", "`more` is cleared at the start of every tick and set only under a "
             "RUNNING/STARTED status test; `if not ready: break` and `if not more: break` dominate "
             "the stamp advance and follow the tasker loop")
    ctx.rule("T2-sweep", "every path out of the tick loop passes the abort sweep; per sweep "
             "iteration exactly one popleft and one send(ABORT)")
    ctx.rule("T10-reraise", "except Exception / SystemExit handlers end in a bare raise")
    ctx.rule("T1-exitall", "makeRunner STOP and ABORT/else branches: running status => exitAll before "
             "status is overwritten")
    ctx.rule("T3-exit", "Framer.exitAll: exit(full outline copy) then deactivate; Framer.exit reverses "
             "before iterating; Frame.exit exits auxes first")
    ctx.rule("T9-entered", "the list exitAll exits derives from active.outline (full entered set), "
             "not from .actives which a conditional aux truncates")

    fn = ctx.fn("skedding", "Skedder.run")
    V = FuncView(ctx, fn, may_raise=_send_may_raise)
    cfg = V.cfg
    pops = V.need(V.calls("ready.popleft"), "ready.popleft()")
    tick_for = None
    for n, c in pops:
        f = _enclosing_for(n.ast, fn)
        if f is not None and tick_for is None and any(
                isinstance(x, ast.Call) and isinstance(x.func, ast.Attribute) and x.func.attr == "send" and
                any(isinstance(a, ast.Attribute) and a.attr == "desire" for a in x.args) for x in ast.walk(f)):
            tick_for = f         # the loop that sends each tasker its desired control
    if tick_for is None:
        alt = [n for n in ast.walk(fn) if isinstance(n, ast.For) and any(
            isinstance(x, ast.Attribute) and x.attr == "desire" for x in ast.walk(n))]
        if alt:
            ctx.bad("T2-sweep", alt[0], "for %s in %s: ... send(tasker.desire)" % (src(alt[0].target), src(alt[0].iter)),
                    "the tick loop iterates over a copy instead of popping `ready` one entry at a time: when the tick ends "
                    "early (exception from an action, keyboard interrupt) the taskers that have not run yet are not in "
                    "`ready`, so the abort sweep in the finally clause never aborts them")
            return
        raise AnchorError("Skedder.run: tick loop not found")
    hdr = [n for n in cfg.nodes if n.kind == "for" and n.ast is tick_for][0]
    body_ids = {n.id for n in V.body_nodes(tick_for)}
    whiles = [n for n in cfg.nodes if n.kind == "test" and isinstance(n.ast, ast.While)
              and tick_for in list(ast.walk(n.ast)) and n.copy == 0]
    W = V.one(whiles, "while loop around the tick")
    wbody = {n.id for n in V.body_nodes(W.ast)}

    # T1-more
    more_stores = [n for n in V.stores("more")]
    V.need(more_stores, "assignments to more")
    resets = [n for n in more_stores if isinstance(n.ast, ast.Assign) and isinstance(n.ast.value, ast.Constant)
              and n.ast.value.value is False]
    sets = [n for n in more_stores if n not in resets]
    ctx.check(bool(resets) and all(n.id in wbody and n.id not in body_ids for n in resets) and
              V.dominated([hdr], resets, start=W), "T1-more", resets[0].ast if resets else fn,
              "more = False before tasker loop in every tick",
              "`more` must be cleared at the start of each tick, otherwise the skedder never stops "
              "after the last tasker stops")
    rtests = [n for n in V.tests(_is_running_test) if n.id in body_ids]
    V.need(rtests, "status == RUNNING or status == STARTED test in tick body")
    for s in sets:
        ok = isinstance(s.ast, ast.Assign) and isinstance(s.ast.value, ast.Constant) and s.ast.value.value is True \
            and any(V.dominated_by_edge([s], t, "T") for t in rtests)
        ctx.check(ok, "T1-more", s.ast, src(s.ast), "`more` may only be set to True under "
                  "status in (RUNNING, STARTED)")
    # every tasker that stays scheduled this tick (re-queued on `ready`, whether it ran or was not yet due) must have its
    # status looked at: a started tasker that is merely not due keeps the skedder alive
    requeues = [n for n, c in V.calls(("ready.append", "self.ready.append")) if n.id in body_ids]
    V.need(requeues, "ready.append(...) in the tick body")
    for rq in requeues:
        nxt = [b for b, _ in cfg.succ[rq.id]]
        r = cfg.reachable(nxt, removed_nodes=[t.id for t in rtests]) if nxt else set()
        ctx.check(hdr.id not in r, "T1-more", rq.ast, "re-queued tasker's status feeds `more`: %s ... if status in (RUNNING, STARTED)" % src(rq.ast)[:60],
                  "a tasker that remains scheduled (e.g. started but not yet due this tick) reaches the end of the iteration "
                  "without the RUNNING/STARTED test: the skedder can stop ('No running or started taskers') while that tasker "
                  "is still started, aborting it mid-mission")
    aug = [n for n in cfg.nodes if isinstance(n.ast, ast.AugAssign) and dotted(n.ast.target) == "self.stamp"
           and n.copy == 0]
    A = V.one(aug, "self.stamp += self.period")

    def not_test(name):
        def f(t):
            return isinstance(t, ast.UnaryOp) and isinstance(t.op, ast.Not) and suffix_match(dotted(t.operand), name)
        return f
    for name in ("ready", "more"):
        ts = [n for n in V.tests(not_test(name)) if n.id in wbody and n.id not in body_ids and n.copy == 0]
        V.need(ts, "`if not %s:` stop test" % name)
        t = ts[0]
        brk = [b for b, lab in cfg.succ[t.id] if lab == "T"]
        reach_t = cfg.reachable(brk[0], removed_nodes=[W.id]) if brk else set()
        has_break = any(cfg.nodes[i].kind == "break" for i in reach_t) and A.id not in reach_t and hdr.id not in reach_t
        ctx.check(has_break, "T1-more", t.ast, "if %s: break" % src(t.ast.test),
                  "when %s the tick loop must be left (break) without advancing the stamp"
                  % ("no tasker remains scheduled" if name == "ready" else "no tasker is started or running"))
        ctx.check(V.dominated_by_edge([A], t, "F") and
                  not (cfg.reachable(cfg.entry.id, removed_edges=cfg.edges_from(hdr.id, "done")) & {t.id}),
                  "T1-more", t.ast, "stop test `%s` after tasker loop, before stamp advance" % src(t.ast.test),
                  "the stop test must be evaluated after all taskers ran and before the next tick begins")

    # the status tested for `more` is the status of the tasker handled in *this* iteration, on every path through it
    st_tests = [t for t in cfg.nodes if t.kind == "test" and t.id in body_ids and any(
        isinstance(x, ast.Name) and x.id == "status" and isinstance(x.ctx, ast.Load) for x in cfg.walk_node(t))]
    V.need(st_tests, "test on status in the tick loop")
    sdefs = V._def_nodes("status") & body_ids
    first = [b for b, lab in cfg.succ[hdr.id] if lab == "iter"]
    stale = None
    for t in st_tests:
        for p in cfg.paths(first[0], [t.id], max_visits=1, limit=500):
            # an assignment whose right-hand side raised (the path leaves it on an exception edge) has not assigned
            done = [a for a, b in zip(p, p[1:]) if a in sdefs and not all(l == "exc" for x, l in cfg.succ[a] if x == b)]
            if not done:
                stale = p
    ctx.check(stale is None, "T1-more", st_tests[0].ast, "every path through a tick-loop iteration assigns `status` before it is tested",
              "on the path %s `status` still holds the previous tasker's value (or nothing at all in the first iteration: "
              "UnboundLocalError ends the run with a surprise exception)" % (V.path_text(stale) if stale else ""))
    # T2-sweep
    sweep_hdrs = [n for n in cfg.nodes if n.kind == "for" and n.ast is not tick_for and
                  any(isinstance(x, ast.Call) and suffix_match(call_name(x), "ready.popleft")
                      for x in ast.walk(n.ast)) and _in_finally(n.ast, fn)]
    V.need(sweep_hdrs, "abort sweep loop inside finally")
    ctx.floor("T2-sweep:finally-copies", len(sweep_hdrs), 2)
    ok = cfg.always_reaches([W.id], [h.id for h in sweep_hdrs], ends=[cfg.exit.id, cfg.raise_exit.id])
    ctx.paths += 1
    ctx.check(ok, "T2-sweep", sweep_hdrs[0].ast, "every exit of the tick loop passes the abort sweep "
              "(%d inlined finally copies)" % len(sweep_hdrs),
              "some way out of Skedder.run (normal end, break, or a re-raised exception) bypasses the "
              "loop that aborts the remaining taskers")
    # also exceptions raised inside the tick body (any statement) must reach the sweep: the try with the
    # finally must enclose the while loop
    tr = _enclosing_try_with_finally(W.ast, fn)
    ctx.check(tr is not None and sweep_hdrs[0].ast in list(ast.walk(tr)) and
              any(sweep_hdrs[0].ast in list(ast.walk(s)) for s in tr.finalbody),
              "T2-sweep", W.ast, "while loop enclosed by try ... finally: <sweep>",
              "the abort sweep must be the finally clause of a try that encloses the whole tick loop so "
              "that an exception raised from any action still aborts the remaining taskers")
    for h in sweep_hdrs:
        sb = {n.id for n in cfg.nodes if n.copy == h.copy and id(n.ast) in {id(x) for x in ast.walk(h.ast)} and n is not h}
        it = h.ast.iter
        ctx.check(isinstance(it, ast.Call) and call_name(it) == "range" and src(it.args[0]).replace("self.", "") == "len(ready)",
                  "T2-sweep", h.ast, "for ... in %s" % src(it), "sweep must visit each ready entry once")
        start = [b for b, lab in cfg.succ[h.id] if lab == "iter"]
        if not start:
            raise AnchorError("sweep loop has no body")
        for what, pats in (("popleft", ("ready.popleft",)), ("send(ABORT)", ("runner.send",))):
            def pred(n, pats=pats):
                return n.id in sb and any(isinstance(x, ast.Call) and suffix_match(call_name(x), pats)
                                          for x in cfg.walk_node(n))
            # count over paths from header (iter edge) back to header
            paths = cfg.paths(h.id, [h.id], max_visits=2, labels_block=("done",))
            ctx.paths += len(paths)
            counts = {}
            for p in paths:
                if len(p) < 2:
                    continue
                k = sum(1 for i in p[1:-1] if pred(cfg.nodes[i]))
                counts.setdefault(k, p)
            for k, p in counts.items():
                ctx.check(k == 1, "T2-sweep", h.ast, "sweep iteration with %d %s: %s" % (k, what, V.path_text(p)),
                          "each remaining tasker must be popped once and sent exactly one ABORT")
        for n, c in V.calls("runner.send"):
            if n.id in sb:
                ctx.check(len(c.args) == 1 and dotted(c.args[0]) == "ABORT", "T2-sweep", c, src(c),
                          "the sweep must send ABORT")
                # StopIteration tolerated
                tol = any(cfg.nodes[b].kind == "except" for b, lab in cfg.succ[n.id])
                ctx.check(tol, "T2-sweep", c, "send(ABORT) inside try/except StopIteration",
                          "a tasker whose generator already ended must not abort the sweep")
                # ... nor may a tasker that fails while aborting (an exit action that raises): the try that holds the send
                # has a handler for Exception whose body stays in the loop (no raise / break / return)
                broad = False
                pt = getattr(c, "_parent", None)
                while pt is not None and pt is not fn and not broad:
                    if isinstance(pt, ast.Try) and any(c in list(ast.walk(b)) for b in pt.body):
                        for hh in pt.handlers:
                            names = {"BaseException"} if hh.type is None else \
                                {(dotted(x) or "").split(".")[-1] for x in (hh.type.elts if isinstance(hh.type, ast.Tuple) else [hh.type])}
                            if names & {"Exception", "BaseException"} and not any(
                                    isinstance(x, (ast.Raise, ast.Break, ast.Return)) for b in hh.body for x in ast.walk(b)):
                                broad = True
                    pt = getattr(pt, "_parent", None)
                ctx.check(broad, "T2-sweep", c, "send(ABORT) inside a try whose `except Exception` keeps the sweep going",
                          "an exception raised by one tasker while it handles the final ABORT (an exit action that raises) ends the "
                          "sweep: the taskers behind it are never sent ABORT and never exit their frames")

    # T10-reraise
    for h in ast.walk(fn):
        if isinstance(h, ast.ExceptHandler) and h.type is not None and dotted(h.type) in ("Exception", "SystemExit", "BaseException"):
            last = h.body[-1] if h.body else None
            jumps = [x for s in h.body for x in ast.walk(s) if isinstance(x, (ast.Return, ast.Break, ast.Continue))]
            deferred = False
            if h.name and not jumps and not any(isinstance(x, ast.Raise) for s_ in h.body for x in ast.walk(s_)):
                # the exception is kept (`failure = ex`, first one wins) and raised once the loop it interrupted has finished
                kept = {t.id for s_ in h.body for x in ast.walk(s_) if isinstance(x, ast.Assign) and dotted(x.value) == h.name
                        for t in x.targets if isinstance(t, ast.Name)}
                for k_ in kept:
                    rs = [x for x in ast.walk(fn) if isinstance(x, ast.Raise) and dotted(x.exc) == k_]
                    for r_ in rs:
                        pr = getattr(r_, "_parent", None)
                        if isinstance(pr, ast.If) and src(pr.test) in ("%s is not None" % k_, k_) and not pr.orelse:
                            deferred = True
            ctx.check((isinstance(last, ast.Raise) and last.exc is None and not jumps) or deferred, "T10-reraise", h,
                      "except %s: ... raise" % dotted(h.type),
                      "an exception raised from an action must be re-raised after the sweep, not swallowed")
    ki = [h for h in ast.walk(fn) if isinstance(h, ast.ExceptHandler) and h.type is not None and dotted(h.type) == "KeyboardInterrupt"]
    ctx.check(bool(ki) and any(isinstance(x, ast.Break) for x in ast.walk(ki[0])), "T10-reraise",
              ki[0] if ki else fn, "except KeyboardInterrupt: break", "keyboard interrupt ends the run through the sweep")

    # ---- Framer.makeRunner
    mr = ctx.fn("framing", "Framer.makeRunner")
    M = FuncView(ctx, mr)
    mc = M.cfg
    ctl = {}
    for name in ("RUN", "READY", "START", "STOP"):
        ts = M.tests(lambda t, name=name: isinstance(t, ast.Compare) and len(t.ops) == 1 and isinstance(t.ops[0], ast.Eq)
                     and {dotted(t.left), dotted(t.comparators[0])} == {"control", name})
        ctl[name] = M.one(ts, "control == %s test" % name)
    yields = [n for n in mc.nodes if any(isinstance(x, ast.Yield) for x in mc.walk_node(n))]
    M.need(yields, "yield")
    exits = M.need(M.call_nodes("self.exitAll"), "self.exitAll() calls in makeRunner")
    ctx.floor("T1-exitall:sites", len(exits), 2)
    rts = M.tests(_is_running_test)
    status_stores = M.stores("self.status")
    for region, guards in (("STOP", [(ctl["STOP"], "T")]),
                           ("ABORT/else", [(ctl[k], "F") for k in ("RUN", "READY", "START", "STOP")])):
        tests = [t for t in rts if all(M.dominated_by_edge([t], g, lab) for g, lab in guards)
                 and (region != "STOP" or True)]
        if region == "ABORT/else":
            tests = [t for t in tests if not M.dominated_by_edge([t], ctl["STOP"], "T")]
        else:
            tests = [t for t in tests if M.dominated_by_edge([t], ctl["STOP"], "T")]
        # exitAll() runs in this branch exactly for a framer that has entered frames (STARTED or RUNNING), however the test is spelled
        from ..rules import path_condition, formula_equiv
        rstart = [b for b, lab in mc.succ[ctl["STOP"].id] if lab == ("T" if region == "STOP" else "F")]
        inreg = mc.reachable(rstart[0], removed_nodes=[y.id for y in yields]) | {rstart[0]} if rstart else set()
        ex_reg = [e for e in exits if e.id in inreg]
        pcs = ("or", [path_condition(M, e, start=rstart) for e in ex_reg])
        okf = bool(ex_reg) and (formula_equiv(pcs, "status == RUNNING or status == STARTED") or
                                formula_equiv(pcs, "self.status == RUNNING or self.status == STARTED"))
        ctx.check(okf, "T1-exitall", (ex_reg[0].ast if ex_reg else mr), "%s branch: exitAll() iff status is RUNNING or STARTED" % region,
                  "a framer that is STARTED has entered its frames and run their enter actions just like a RUNNING one: if the %s "
                  "branch exits frames only for one of the two states, the other keeps its frames entered when the run returns"
                  % region)
        if not tests:
            if okf:
                M.need(tests, "running-status test in %s branch" % region)
            continue
        t = tests[0]
        tsucc = [b for b, lab in mc.succ[t.id] if lab == "T"]
        ok = mc.always_reaches([t.id], [e.id for e in exits] + [b for b, lab in mc.succ[t.id] if lab == "F"],
                               ends=[y.id for y in yields])
        ctx.paths += 1
        ctx.check(ok, "T1-exitall", t.ast, "%s branch: running => exitAll()" % region,
                  "a started/running framer that is %s must exit all its entered frames (exitAll) before "
                  "the run returns" % ("stopped" if region == "STOP" else "aborted"))
        # exitAll precedes the status overwrite on that branch
        ex_here = [e for e in exits if M.dominated_by_edge([e], t, "T")]
        ctx.check(bool(ex_here), "T1-exitall", t.ast, "exitAll under running test in %s branch" % region,
                  "exitAll must be guarded by the running-status test of its own branch")
        for e in ex_here:
            later = [s for s in status_stores if s.id in mc.reachable(e.id, removed_nodes=[y.id for y in yields])]
            before = [s for s in status_stores if M.dominated_by_edge([s], t, "T") and
                      e.id in mc.reachable(s.id, removed_nodes=[y.id for y in yields]) and s.id != e.id]
            ctx.check(bool(later) and not before, "T1-exitall", e.ast, "%s: exitAll then self.status = ..." % region,
                      "status must be overwritten only after the frames were exited")
    # abort=True only on STOP (done stays False on stop)
    # ---- Framer.exitAll / exit / Frame.exit
    ea = ctx.fn("framing", "Framer.exitAll")
    E = FuncView(ctx, ea)
    ex = E.need(E.calls("self.exit"), "self.exit(...) in exitAll")
    de = E.need(E.call_nodes("self.deactivate"), "self.deactivate() in exitAll")
    ok, p = E.order_on_paths(E.cfg.entry, [E.cfg.exit], [{n.id for n, _ in ex}, {n.id for n in de}])
    ctx.check(ok and E.always_then([E.cfg.entry], [n for n, _ in ex]) and E.always_then([E.cfg.entry], de),
              "T3-exit", ea, "exitAll: exit(...) then deactivate() on every path",
              "exitAll must exit the frames and then clear the active outline")
    for n, c in ex:
        a = E.sym(c.args[0], n) if c.args else None
        text = src(a) if a is not None else ""
        has_outline = a is not None and any(isinstance(x, ast.Attribute) and x.attr == "outline" for x in ast.walk(a))
        has_actives = a is not None and any(isinstance(x, ast.Attribute) and x.attr == "actives" for x in ast.walk(a))
        ctx.check(has_outline and not has_actives, "T9-entered", c, "self.exit(%s)" % text,
                  "exitAll exits `.actives`, which a running conditional auxiliary truncates to the main "
                  "frame's head: frames suspended below the main frame were entered but are never exited "
                  "when the framer is stopped or aborted (must be derived from active.outline)")
        is_copy = isinstance(a, ast.Subscript) or (isinstance(a, ast.Call) and call_name(a) in ("list", "copy.copy"))
        ctx.check(is_copy or isinstance(a, ast.IfExp), "T3-exit", c, "exit() gets a copy: %s" % text,
                  "Framer.exit reverses its argument in place; passing the outline itself would corrupt it")
    fe = ctx.fn("framing", "Framer.exit")
    _reverse_then_loop(ctx, fe, "exits", "exit")
    fre = ctx.fn("framing", "Framer.rexit")
    _reverse_then_loop(ctx, fre, "rexits", "rexit")
    fx = ctx.fn("framing", "Frame.exit")
    X = FuncView(ctx, fx)
    auxx = X.need(X.call_nodes("aux.exitAll"), "aux.exitAll() in Frame.exit")
    acts = [n for n in X.cfg.nodes if n.kind == "for" and suffix_match(dotted(n.ast.iter), "self.exacts")]
    X.need(acts, "loop over self.exacts in Frame.exit")
    auxloops = [n for n in X.cfg.nodes if n.kind == "for" and suffix_match(dotted(n.ast.iter), "self.auxes")]
    X.need(auxloops, "loop over self.auxes in Frame.exit")
    ctx.check(X.dominated(acts, auxloops) and not (set(X.ids(auxloops)) & X.reach(acts[0])),
              "T3-exit", fx, "Frame.exit: auxes exited before own exit actions",
              "auxiliaries of a frame must be exited (bottom-up) before the frame's own exit actions")

    exceptions_reach_the_scheduler(ctx)

    # ---- defect scope
    entries = [fn, mr]
    for c in ctx.repo.all_classes():
        m = c.methods.get("makeRunner")
        if m is not None and m is not mr:
            entries.append(m)
    defect_scope(ctx, "D-scope", entries, max_depth=2, floor=6,
                 label="scope: Skedder.run and every makeRunner (depth 2)")


def _reverse_then_loop(ctx, fn, arg, meth):
    """bottom-up iteration of a top-down list: `arg.reverse()` once before `for frame in arg`, or
    `for frame in reversed(arg)` / `arg[::-1]` with no in-place reversal at all.  Returns "inplace" or "copy"."""
    V = FuncView(ctx, fn)
    rev = V.call_nodes(arg + ".reverse")
    calls = V.need(V.call_nodes("frame." + meth), "frame.%s()" % meth)
    loops = [n for n in V.cfg.nodes if n.kind == "for" and dotted(n.ast.iter) == arg]
    rloops = [n for n in V.cfg.nodes if n.kind == "for" and src(n.ast.iter).replace(" ", "") in ("reversed(%s)" % arg, "%s[::-1]" % arg)]
    if rloops and not loops:
        ctx.check(not rev, "T3-exit", fn, "%s: iterates reversed(%s) (no in-place reversal)" % (fn.name, arg),
                  "frames must be %sed bottom-up exactly once: reversing the list in place as well would undo it" % meth)
        return "copy"
    V.need(loops, "for frame in %s" % arg)
    ctx.check(bool(rev) and V.dominated(loops, rev) and not (set(V.ids(rev)) & V.reach(loops[0])) and len(rev) == 1,
              "T3-exit", fn, "%s: %s.reverse() exactly once before iterating" % (fn.name, arg),
              "frames must be %sed bottom-up: the top-down list is reversed once before the loop" % meth)
    return "inplace"


def _in_finally(node, fn):
    p = parent(node)
    c = node
    while p is not None and p is not fn:
        if isinstance(p, ast.Try) and c in p.finalbody:
            return True
        c, p = p, parent(p)
    return False


def _enclosing_try_with_finally(node, fn):
    p = parent(node)
    c = node
    while p is not None and p is not fn:
        if isinstance(p, ast.Try) and p.finalbody and c in p.body:
            return p
        c, p = p, parent(p)
    return None


ACTION_CHAIN = [("framing", "Framer"), ("framing", "Frame"), ("acting", "Act"), ("acting", "Actor"), ("tasking", "Tasker")]
ACTION_CALLS = {"enter", "exit", "recur", "precur", "renter", "rexit", "segue", "enterAll", "exitAll", "change", "activate",
                "action", "actor", "act", "send", "checkEnter", "checkStart"}


def exceptions_reach_the_scheduler(ctx):
    """an exception raised by an action travels up through Act.__call__, the Frame/Framer context methods and the runner
    generator to Skedder.run (which re-raises it after the sweep): nothing on that chain may catch it and carry on"""
    ctx.rule("T10-propagate", "no handler on the chain runner -> Framer/Frame context methods -> Act.__call__ -> actor swallows an "
             "exception: broad handlers (bare / Exception / BaseException) re-raise; narrow ones do not enclose a call of an action")
    k = 0
    for modn, cn in ACTION_CHAIN:
        C = ctx.cls(modn, cn)
        for mname, f in sorted(C.methods.items()):
            k += 1
            for t in ast.walk(f):
                if not isinstance(t, ast.Try):
                    continue
                inner = {x.func.attr if isinstance(x.func, ast.Attribute) else x.func.id if isinstance(x.func, ast.Name) else ""
                         for st in t.body for x in ast.walk(st) if isinstance(x, ast.Call)}
                for h in t.handlers:
                    names = [dotted(e) for e in (h.type.elts if isinstance(h.type, ast.Tuple) else [h.type])] if h.type is not None else [None]
                    broad = any(n in (None, "Exception", "BaseException") for n in names)
                    last = h.body[-1] if h.body else None
                    jumps = [x for s_ in h.body for x in ast.walk(s_) if isinstance(x, (ast.Return, ast.Break, ast.Continue))]
                    reraises = isinstance(last, ast.Raise) and not jumps
                    if broad:
                        ctx.check(reraises, "T10-propagate", h, "%s.%s: except %s re-raises" % (cn, mname, names),
                                  "an exception raised by an action (enter, exit, recur, precur, transition .. act) must reach "
                                  "Skedder.run, which aborts the remaining taskers and re-raises it; a handler that logs it and carries "
                                  "on makes the run continue as if nothing had happened")
                    elif inner & ACTION_CALLS and not (names == ["StopIteration"] or names == ["GeneratorExit"]):
                        ctx.check(reraises, "T10-propagate", h, "%s.%s: except %s around %s re-raises" % (cn, mname, names, sorted(inner & ACTION_CALLS)),
                                  "a handler around the call of an action catches what the action raised")
    ctx.floor("T10-propagate:methods", k, 60)
