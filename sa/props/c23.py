"""C23 - log rotation and flushing never lose or duplicate retained records (ordering clauses)."""
import ast

from ..model import AnchorError, call_name, const_str, dotted, src
from ..rules import FuncView, suffix_match, defect_scope
from . import _framing

EXPLANATION = (
    "Ordering clauses on the CFGs of the logging functions: Log.flush = file.flush() then os.fsync(fileno), "
    "unconditionally for an open file (no early return, no other guard); Log.close = flush then close; "
    "Logger.log writes the logs before testing the flush period and updates flushStamp only after flush(); "
    "Log.cycle = flush -> size guard (return before any rename while below the threshold) -> close -> rename chain "
    "iterating k descending (paths[k] -> paths[k+1]: older copies move first, nothing is overwritten) -> on a "
    "failed rename reopen (append, no truncation) and return -> truncate ('w+') -> write header -> reopen; "
    "Log.reopen builds paths = [path] + [root NN ext for 1..keep] and opens with 'a+'; ocfn tries O_EXCL|O_CREAT "
    "first and falls back to plain open on EEXIST.")
NOT_DECIDED = ("crash-at-every-tick durability and contiguity of the record stream need executing against a "
               "filesystem; what the OS does between flush and fsync")


def check(ctx):
    # an internal error (a TypeError from a malformed call, say) inside flush()/cycle() is swallowed by the `except TypeError`
    # clauses of Logger.log that exist for stamps that are None: the flush then silently never happens
    ctx.rule("D-scope", "D1 undefined names, D3 unknown self attributes, D4 signature mismatches, D5 format strings, D6, D8 over Log and Logger")
    defect_scope(ctx, "D-scope", [m for m in ctx.cls("logging", "Log").methods.values()] + [m for m in ctx.cls("logging", "Logger").methods.values()],
                 max_depth=1, floor=30, label="scope: Log and Logger methods")
    ctx.rule("T3-flush", "Log.flush: only guard is the open-file test; file.flush() then os.fsync(file.fileno()) on that branch")
    ctx.rule("T3-close", "Log.close flushes before closing; Logger.log: logs -> flush test -> flush -> flushStamp")
    ctx.rule("T3-cycle", "Log.cycle ordering and the descending rename chain")
    ctx.rule("T9-paths", "Log.reopen path table and append mode; ocfn exclusive create with EEXIST fallback")
    L = ctx.cls("logging", "Log")
    fl = L.own_method("flush")
    F = FuncView(ctx, fl)
    ff = F.need(F.call_nodes("self.file.flush"), "self.file.flush()")
    fs = F.need(F.call_nodes("os.fsync"), "os.fsync(...)")
    # the only condition on flushing is "the file is open", in any spelling (nested, merged, or as an early return of the
    # complement); nothing else may stand between the flush and the fsync
    guard_ok = all(F.facts(n) == {"self.file", "not self.file.closed"} for n in ff)
    c = [c for n, c in F.calls("os.fsync")][0]
    ok = guard_ok and F.dominated(fs, ff) and F.cfg.always_reaches([ff[0].id], [fs[0].id]) and src(c.args[0]) == "self.file.fileno()"
    ctx.check(ok, "T3-flush", fl, "Log.flush: if file open: file.flush(); os.fsync(file.fileno()) - no other condition, no early return",
              "a flush that is skipped or stops at the userspace buffer loses records that were written before the flush when the "
              "process dies")
    # nothing in Log.flush reads attributes that could short-circuit it (e.g. stamps)
    attrs = {x.attr for x in ast.walk(fl) if isinstance(x, ast.Attribute) and isinstance(x.value, ast.Name) and x.value.id == "self"}
    ctx.check(attrs <= {"file"}, "T3-flush", fl, "Log.flush depends only on self.file (reads %s)" % sorted(attrs),
              "flush must not be made conditional on bookkeeping state (stamps, dirty flags) that can disagree with the buffer")
    cl = L.own_method("close")
    C = FuncView(ctx, cl)
    a = C.need(C.call_nodes("self.flush"), "self.flush() in Log.close")
    b = C.need(C.call_nodes("self.file.close"), "self.file.close()")
    ctx.check(C.dominated(b, a), "T3-close", cl, "Log.close: flush() before file.close()", "close does not necessarily fsync")
    lg = ctx.fn("logging", "Logger.log")
    G = FuncView(ctx, lg, exc="calls")
    lp = G.need(_framing.loops_over(G, "self.logs"), "loop over self.logs")
    fc = G.need(G.call_nodes("self.flush"), "self.flush() in Logger.log")
    fst = [n for n in G.stores("self.flushStamp") if G.cfg.reachable(fc[0].id) & {n.id}]
    from ..rules import _atom, formula_equiv as _feq
    t = [x for x in G.cfg.nodes if x.kind == "test" and _feq(_atom(G.sym(x.ast.test, x)), "self.store.stamp - self.flushStamp >= self.flushPeriod")]
    ok = bool(t) and G.dominated_by_edge(fc, t[0], "T") and not (G.cfg.reachable(G.cfg.entry.id, removed_edges=G.cfg.edges_from(lp[0].id, "done")) & {t[0].id})
    good = [n for n in G.stores("self.flushStamp") if G.dominated_by_edge([n], t[0], "T")] if t else []
    ok = ok and bool(good) and all(G.dominated([n], fc) for n in good)
    ctx.check(ok, "T3-close", lg, "Logger.log: all logs written, then flush when the period elapsed, flushStamp updated after flush()",
              "records written in this run must be part of the flush that follows them")
    # flushStamp is the logger's claim "everything up to here is on disk": outside the stamps-are-None handler it may
    # only be advanced after a flush of *every* log (Logger.flush) on that path
    hb = {id(x) for h in ast.walk(lg) if isinstance(h, ast.ExceptHandler) for x in ast.walk(h)}
    allst = [n for n in G.stores("self.flushStamp") if id(n.ast) not in hb]
    ctx.check(bool(allst) and all(G.dominated([n], fc) for n in allst), "T3-close", lg,
              "every advance of flushStamp (outside the TypeError arm) is preceded by self.flush()",
              "advancing flushStamp without flushing every log suppresses the next periodic flush: records written before the "
              "logger's last claimed flush are not on disk after a crash")
    lcy = ctx.fn("logging", "Logger.cycle")
    LC = FuncView(ctx, lcy)
    lpc = LC.need(_framing.loops_over(LC, "self.logs"), "loop over self.logs in Logger.cycle")
    inl = {n.id for n in LC.body_nodes(lpc[0].ast)}
    leaves = [n for n in LC.cfg.nodes if n.kind in ("return", "break", "raise") and n.id in inl]
    ctx.check(not leaves and bool(LC.call_nodes("log.cycle")), "T3-close", lcy, "Logger.cycle visits every log (no early exit from the loop)",
              "a log that is below its size threshold must not stop the later logs from being flushed and rotated")
    lfl = ctx.fn("logging", "Logger.flush")
    ctx.check("log.flush()" in src(lfl) and "for log in self.logs" in src(lfl), "T3-close", lfl, "Logger.flush flushes every log", "")
    cy = L.own_method("cycle")
    Y = FuncView(ctx, cy, exc="calls")
    cfg = Y.cfg
    pf = Y.need(Y.tests(lambda t: src(t) == "self.paths"), "`if self.paths`")
    fl0 = Y.need(Y.call_nodes("self.flush"), "self.flush() in cycle")
    sz = Y.need(Y.tests(lambda t: src(t).replace(" ", "") == "sizeandos.path.getsize(self.path)<size"), "size guard")
    clo = Y.need(Y.call_nodes("self.close"), "self.close() in cycle")
    ren = Y.need(Y.call_nodes("os.rename"), "os.rename")
    trn = Y.need([n for n, c in Y.calls("ocfn") if len(c.args) >= 2 and const_str(c.args[1]) == "w+"], "truncate ocfn(path, 'w+')")
    hw = Y.need([n for n, c in Y.calls("self.file.write") if src(c.args[0]) == "self.header"], "header write")
    reo = Y.need(Y.call_nodes("self.reopen"), "self.reopen()")
    ok = Y.dominated(sz, fl0) and Y.dominated_by_edge(clo, sz[0], "F") and Y.dominated(ren, clo) and Y.dominated(trn, ren) is not None
    ok = ok and Y.dominated(trn, clo) and Y.dominated(hw, trn)
    rets_t = [n for n in cfg.nodes if n.kind == "return" and Y.dominated_by_edge([n], sz[0], "T")]
    ok = ok and bool(rets_t) and all(not (cfg.reachable(r.id) & set(Y.ids(ren + trn))) for r in rets_t)
    ctx.check(ok, "T3-cycle", cy, "cycle: flush -> size guard returns before any rename -> close -> renames -> truncate -> header",
              "a file is rotated only when it has reached the size threshold, and nothing is renamed or truncated before the data was flushed")
    lps = [n for n in cfg.nodes if n.kind == "for" and id(ren[0].ast) in {id(x) for x in ast.walk(n.ast)}]
    it = src(lps[0].ast.iter).replace(" ", "") if lps else ""
    body = src(lps[0].ast) if lps else ""
    c = [c for n, c in Y.calls("os.rename")][0]
    by_index = it == "reversed(range(len(self.paths)-1))" and [src(x) for x in c.args] == ["old", "new"] and \
        "old = self.paths[k]" in body and "new = self.paths[k + 1]" in body
    # or over the adjacent pairs (paths[k], paths[k+1]) taken from the end
    by_pairs = it in ("reversed(list(zip(self.paths[:-1],self.paths[1:])))", "reversed(list(zip(self.paths,self.paths[1:])))") and \
        bool(lps) and isinstance(lps[0].ast.target, ast.Tuple) and [src(x) for x in c.args] == [src(e) for e in lps[0].ast.target.elts]
    ok = bool(lps) and (by_index or by_pairs)
    ctx.check(ok, "T3-cycle", lps[0].ast if lps else cy, "rename chain: for k descending: paths[k] -> paths[k+1]",
              "renaming in ascending order would overwrite the next older copy before it moved: retained records are lost")
    ft = Y.tests(lambda t: src(t) == "not cycled")
    # the handler(s) of a failed rename, as CFG nodes
    rtry = [t for t in ast.walk(cy) if isinstance(t, ast.Try) and any(id(ren[0].ast) in {id(y) for y in ast.walk(b)} for b in t.body)]
    hnodes = [n for n in cfg.nodes if n.kind == "except" and rtry and any(n.ast is h for h in rtry[0].handlers)]
    flagless = not Y.stores("cycled") and bool(hnodes)
    if flagless:
        # no flag: the handler itself leaves the function - nothing it can reach truncates, and every way out reopens for append
        after = set()
        for h in hnodes:
            after |= cfg.reachable(h.id)
        re1 = [r for r in reo if r.id in after]
        ok = bool(re1) and not (after & set(Y.ids(trn))) and not (after & set(Y.ids(ren))) and \
            all(cfg.always_reaches([h.id], Y.ids(re1)) for h in hnodes)
    else:
        re1 = [r for r in reo if ft and Y.dominated_by_edge([r], ft[0], "T")]
        ok = bool(ft) and bool(re1) and Y.dominated_by_edge(trn, ft[0], "F")
    ctx.check(ok, "T3-cycle", cy, "failed rename => reopen (append) and no truncation", "on a failed rotation the current file must be kept and appended to")
    copies = [c for n, c in Y.calls(("shutil.copyfile", "shutil.copy", "shutil.copy2", "shutil.copyfileobj", "shutil.move"))]
    ctx.check(not copies, "T3-cycle", cy, "rotation moves files with os.rename only (no copy-then-truncate)",
              "copying the current file to the first rotate copy and truncating it afterwards leaves every record in both files "
              "when the process dies (or the truncation fails) in between: retained records are duplicated")
    # the flag means "every rename succeeded": True before the chain, only ever cleared, and cleared in the handler of a failed rename
    fstores = Y.stores("cycled")
    inloop = [n for n in fstores if lps and id(n.ast) in {id(x) for x in ast.walk(lps[0].ast)}]
    before = [n for n in fstores if n not in inloop]
    hnds = [h for h in ast.walk(cy) if isinstance(h, ast.ExceptHandler)]
    in_rename_handler = lambda n: any(id(n.ast) in {id(x) for x in ast.walk(h)} for h in hnds
                                      if any(id(ren[0].ast) in {id(y) for y in ast.walk(t)} for t in ast.walk(cy)
                                             if isinstance(t, ast.Try) and h in t.handlers))
    okf = bool(before) and all(isinstance(n.ast, ast.Assign) and isinstance(n.ast.value, ast.Constant) and n.ast.value.value is True for n in before) \
        and bool(inloop) and all(isinstance(n.ast, ast.Assign) and isinstance(n.ast.value, ast.Constant) and n.ast.value.value is False and in_rename_handler(n) for n in inloop) \
        and bool(lps) and Y.dominated([lps[0]], before)
    if flagless:
        okf = ok        # established above: a failed rename never reaches the truncation
    ctx.check(okf, "T3-cycle", cy, "`cycled` is True before the rename chain and is only cleared, by the handler of a failed rename",
              "if one rename fails after an older copy moved, the current file has not been moved away: truncating it ('w+') "
              "destroys every record in it; the flag guarding the truncation must mean *all* renames succeeded")
    re2 = [r for r in reo if r not in re1]
    ctx.check(bool(re2) and Y.dominated(re2, hw), "T3-cycle", cy, "after truncate + header: reopen for append", "")
    ro = L.own_method("reopen")
    R = FuncView(ctx, ro)
    op = [c for n, c in R.calls("ocfn")]
    main = [c for c in op if src(c.args[0]) == "self.path"]
    ok = len(main) == 1 and const_str(main[0].args[1]) == "a+"
    trial = [c for c in op if c not in main]
    ok = ok and all(const_str(c.args[1]) in ("r", "a+", "r+") for c in trial)
    ctx.check(ok, "T9-paths", ro, "Log.reopen opens the main file 'a+' and rotation copies without truncating", "reopening must never truncate existing records")
    t = src(ro)
    ok = "self.paths = [self.path]" in t and "for k in range(keep)" in t and "k += 1" in t and '"{0}{1:02}{2}".format(root, k, ext)' in t.replace("'", '"') \
        and "self.paths.append(path)" in t
    ctx.check(ok, "T9-paths", ro, "paths = [path] + [root + NN + ext for NN in 1..keep]", "the rotation chain must list the newest file first and keep exactly `keep` copies")
    oc = ctx.fn("filing", "ocfn")
    t = src(oc)
    ctx.check("os.O_EXCL | os.O_CREAT" in t.replace("os.O_CREAT | os.O_EXCL", "os.O_EXCL | os.O_CREAT") and "errno.EEXIST" in t and "open(filename, openMode)" in t,
              "T9-paths", oc, "ocfn: O_EXCL|O_CREAT first, EEXIST -> open(filename, openMode)", "atomic create-or-open without truncating an existing file")
    header_always_built(ctx)


def header_always_built(ctx):
    """Log.cycle starts every new main file with self.header; that text exists only after buildHeader() ran.  prepare() is the
    one place that runs it, once per (re)start: it must do so on every path - also when this run's own header is not written
    because the file is being reused."""
    from ..rules import path_condition, formula_equiv
    ctx.rule("T2-header", "Log.prepare calls buildHeader() unconditionally; Log.cycle writes self.header into the new main file")
    pr = ctx.cls("logging", "Log").own_method("prepare")
    V = FuncView(ctx, pr)
    bh = V.need(V.call_nodes("self.buildHeader"), "self.buildHeader() in Log.prepare")
    from ..rules import group_condition
    # no condition decided after the last point all paths share, and no normal exit of prepare() without it
    ok = formula_equiv(group_condition(V, bh), "True") and \
        V.cfg.exit.id not in V.cfg.reachable(V.cfg.entry.id, removed_nodes=[n.id for n in bh], labels_block=("exc",))
    ctx.check(ok, "T2-header", bh[0].ast, "Log.prepare builds the header on every path",
              "a Log that reuses an existing file (second life on the same directory) does not write its header now - but it still "
              "rotates later: every new main file (and every rotate copy made from it) then starts with an empty header")
    cy = ctx.cls("logging", "Log").own_method("cycle")
    C = FuncView(ctx, cy)
    wr = [n for n, c in C.attr_calls(("write",)) if c.args and src(C.sym(c.args[0], n)) == "self.header"]
    ctx.check(bool(wr), "T2-header", cy, "Log.cycle writes self.header into the reopened main file", "a rotated-in main file must start with the header")
