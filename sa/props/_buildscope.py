"""Call-graph scope of Builder.build with ioflo's dynamic dispatch modelled explicitly."""
import ast

from ..callgraph import closure, FuncT
from ..ioflo_model import actor_classes


def build_scope(ctx, max_depth=None):
    repo = ctx.repo
    B = repo.cls("building", "Builder")
    build = B.own_method("build")
    dispatch = B.own_method("dispatch")
    builders = [m for n, m in B.methods.items() if n.startswith("build") and n != "build"]
    actors = actor_classes(repo)
    actor_methods = []
    for c in actors:
        for mn in ("__init__", "_resolve", "_prepare", "_initio", "_prepio", "_resolvePath", "_expose"):
            m = c.methods.get(mn)
            if m is not None and mn != "_expose":
                actor_methods.append(m)
    tasker = repo.cls("tasking", "Tasker")
    tsubs = tasker.subclasses()
    pres = [c.methods[n] for c in tsubs for n in ("presolve",) if n in c.methods]
    ress = [c.methods[n] for c in tsubs for n in ("resolve",) if n in c.methods]
    Frame = repo.cls("framing", "Frame")
    Act = repo.cls("acting", "Act")
    Log = repo.cls("logging", "Log")
    q = repo.func_qual

    def extra(fn):
        name = q(fn)
        if fn is dispatch:
            return builders
        if fn is build:
            H = repo.cls("housing", "House")
            return [H.methods[n] for n in ("resolve", "orderTaskables") if n in H.methods]
        if name.endswith("House.presolvePresolvables"):
            return pres
        if name.endswith("House.resolveResolvables"):
            return ress
        if name.endswith("framing.py:Framer.presolve"):
            return [Frame.methods["presolve"]]
        if name.endswith("framing.py:Framer.resolve"):
            return [Frame.methods["resolve"]]
        if name.endswith("framing.py:Frame.resolve"):
            return [Act.methods["resolve"]]
        if name.endswith("acting.py:Act.resolve"):
            return actor_methods
        if name.endswith("logging.py:Logger.resolve"):
            return [m for n, m in Log.methods.items() if n in ("resolve",)]
        if name.endswith("acting.py:Transiter._resolve") or name.endswith("acting.py:Suspender._resolve") \
                or name.endswith("needing.py:NeedMarker._resolve"):
            return [Act.methods["resolve"]]
        return []

    def stop(fn):
        # console/logging helpers and pure-run-time methods are outside "building"
        rel = fn._module.relpath
        return rel.endswith("aid/consoling.py") or rel.endswith("base/consoling.py")

    return closure(repo, [build], extra_edges=extra, stop=stop, max_depth=max_depth, loose=True)
