"""Registry-binding rule shared by C12 and C47.

Tasker.Names / Frame.Names (and Counter) are *class attributes re-pointed per house / per
framer*.  Any function that touches them while the scheduler is running (i.e. reachable from an
actor's action method) must be preceded, on every call path from that action, by a call that
rebinds them for the right house/framer: house.assignRegistries() (Tasker/Store/Log) or
framer.assignFrameRegistry() (Frame)."""
import ast

from ..model import call_name, dotted, src, walk_no_nested, parent
from ..rules import FuncView, suffix_match
from ..callgraph import resolve_call_loose, FuncT, owner_class
from ..ioflo_model import actor_classes

BINDERS = {"house": ("assignRegistries",), "frame": ("assignFrameRegistry",)}
HOUSE_CLASSES = ("Framer", "Tasker", "Store", "Log", "Logger", "Server", "Monitor")


def _accesses(fn):
    """[(node, kind)] of X.Names / X.Counter accesses in fn, kind 'house'|'frame'"""
    out = []
    for n in walk_no_nested(fn):
        if isinstance(n, ast.Attribute) and n.attr in ("Names", "Counter"):
            d = dotted(n.value) or ""
            last = d.split(".")[-1]
            if last == "Frame":
                out.append((n, "frame"))
            elif last in HOUSE_CLASSES:
                out.append((n, "house"))
    return out


def _creates(repo, fn):
    """constructor calls Framer(...)/Frame(...) register a name: they are accesses too"""
    out = []
    for n in walk_no_nested(fn):
        if isinstance(n, ast.Call):
            d = (call_name(n) or "").split(".")[-1]
            if d == "Frame":
                out.append((n, "frame"))
            elif d == "Framer":
                out.append((n, "house"))
    return out


class Binding:
    def __init__(self, ctx):
        self.ctx = ctx
        self.repo = ctx.repo
        self.views = {}
        self.reported = set()
        self.checked_paths = 0
        self.accessors = 0

    def view(self, fn):
        q = self.repo.func_qual(fn)
        if q not in self.views:
            self.views[q] = FuncView(self.ctx, fn)
        return self.views[q]

    def binder_nodes(self, V, kind):
        return V.call_nodes(BINDERS[kind])

    def site_bound(self, V, node_ast, kind):
        """is the cfg node holding node_ast dominated by a binder call of this kind in V.fn"""
        targets = [n for n in V.cfg.nodes if any(x is node_ast for x in V.cfg.walk_node(n))]
        if not targets:
            return True
        b = self.binder_nodes(V, kind)
        if not b:
            return False
        return V.dominated(targets, b)

    def walk(self, root):
        """DFS over the (loosely resolved) call graph from an action method"""
        repo = self.repo
        seen = {}
        stack = [(root, {"house": False, "frame": False}, [repo.func_qual(root)])]
        while stack:
            fn, bound, path = stack.pop()
            q = repo.func_qual(fn)
            key = (q, bound["house"], bound["frame"])
            if key in seen or len(path) > 7:
                continue
            seen[key] = True
            V = self.view(fn)
            for node, kind in _accesses(fn) + _creates(repo, fn):
                self.accessors += 1
                self.checked_paths += 1
                ok = bound[kind] or self.site_bound(V, node, kind)
                if not ok:
                    k = (q, kind, src(node))
                    if k in self.reported:
                        continue
                    self.reported.add(k)
                    self.ctx.bad("T1-regbind", node, "%s in %s reached from %s" % (src(node), q.split(":")[1], path[0].split(":")[1]),
                                 "%s is a class-level registry re-pointed per %s; on the run-time call path %s it is "
                                 "touched without a preceding %s(), so with several %ss it addresses another %s's "
                                 "namespace" % (src(node).split("(")[0], "house" if kind == "house" else "framer",
                                                " -> ".join(p.split(":")[1] for p in path), BINDERS[kind][0],
                                                "house" if kind == "house" else "framer", "house" if kind == "house" else "framer"))
                else:
                    self.ctx.ok("T1-regbind", node, "%s in %s bound on path from %s" % (src(node)[:40], q.split(":")[1], path[0].split(":")[1]))
            for n in walk_no_nested(fn):
                if not isinstance(n, ast.Call):
                    continue
                for cal, _, _ in resolve_call_loose(repo, n, fn):
                    nb = dict(bound)
                    for kind in ("house", "frame"):
                        if not nb[kind] and self.binder_nodes(V, kind) and self.site_bound(V, n, kind):
                            nb[kind] = True
                    # the callee itself may be a binder
                    if cal.name in BINDERS["house"]:
                        continue
                    if cal.name in BINDERS["frame"]:
                        continue
                    stack.append((cal, nb, path + [repo.func_qual(cal)]))


def registry_binding(ctx):
    ctx.rule("T1-regbind", "every run-time access to Tasker/Framer/Store/Log .Names or Frame.Names (incl. "
             "constructing a Framer/Frame) reachable from an actor's action is dominated, on every call "
             "path, by assignRegistries() / assignFrameRegistry()")
    B = Binding(ctx)
    roots = []
    for c in actor_classes(ctx.repo):
        m = c.methods.get("action")
        if m is not None and c.module.name.startswith("ioflo.base"):
            roots.append(m)
    for r in roots:
        B.walk(r)
    ctx.floor("T1-regbind:roots", len(roots), 30)
    ctx.floor("T1-regbind:accesses", B.accessors, 3)
    ctx.extra["registry_binding"] = {"action_roots": len(roots), "accesses_checked": B.accessors}
