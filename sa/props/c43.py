"""C43 - angle wrapping stays in range and preserves the angle (structural clauses)."""
import ast

from ..model import AnchorError, call_name, const_str, dotted, src
from ..rules import FuncView, suffix_match, path_condition, formula_equiv

EXPLANATION = (
    "In wrap1 and wrap2 every modification of the angle is dominated by the `wrap != 0` test (a wrap of zero "
    "returns the angle unchanged) and every modification is a modulo by an expression built from wrap only (so the "
    "result differs from the input by whole multiples of the wrap/full turn); wrap1 folds with `% wrap`; wrap2 "
    "first folds with `% (wrap * 2)` and its half-turn test compares magnitudes (abs on both sides: the result is "
    "invariant to the sign of wrap, as documented) before the second fold `% (-wrap)` of (angle - wrap); "
    "delta(desired, actual, wrap) returns wrap2(desired - actual, wrap).")
NOT_DECIDED = "the range and congruence claims themselves for float operands (numeric); behaviour for NaN/inf"


def check(ctx):
    ctx.rule("T1-zero", "every store to `angle` in wrap1/wrap2 is under wrap != 0")
    ctx.rule("T9-mod", "every store to angle is a modulo whose modulus is built from wrap alone")
    ctx.rule("T9-symmetric", "wrap2's half-turn test compares abs(angle) with abs(wrap)")
    ctx.rule("T9-delta", "delta = wrap2(desired - actual, wrap)")
    for name in ("wrap1", "wrap2"):
        f = ctx.fn("aid.navigating", name)
        V = FuncView(ctx, f)
        z = V.tests(lambda t: isinstance(t, ast.Compare) and isinstance(t.ops[0], ast.NotEq) and dotted(t.left) == "wrap" and
                    isinstance(t.comparators[0], ast.Constant) and t.comparators[0].value == 0)
        stores = V.stores("angle")
        ok = bool(z) and bool(stores) and all(V.dominated_by_edge([s], z[0], "T") for s in stores)
        ctx.check(ok, "T1-zero", f, "%s: angle modified only if wrap != 0 (%d stores)" % (name, len(stores)), "a wrap of zero must return the angle unchanged")
        for s in stores:
            st = s.ast
            if isinstance(st, ast.AugAssign):
                isok = isinstance(st.op, ast.Mod)
                mod = st.value
            else:
                v = st.value
                isok = isinstance(v, ast.BinOp) and isinstance(v.op, ast.Mod)
                mod = v.right if isok else None
                if isok:
                    # left operand: angle shifted by a multiple of wrap
                    names = {n.id for n in ast.walk(v.left) if isinstance(n, ast.Name)}
                    isok = names <= {"angle", "wrap"}
            if isok and mod is not None:
                names = {n.id for n in ast.walk(mod) if isinstance(n, ast.Name)}
                isok = names == {"wrap"}
            ctx.check(isok, "T9-mod", st, "%s: %s" % (name, src(st)), "the wrapped angle must differ from the input by whole turns: the only "
                      "allowed change is a modulo by a multiple of wrap")
        rets = [n for n in V.cfg.nodes if n.kind == "return"]
        ctx.check(bool(rets) and all(dotted(r.ast.value) == "angle" for r in rets), "T9-mod", f, "%s returns angle" % name, "")
    w2 = ctx.fn("aid.navigating", "wrap2")
    V = FuncView(ctx, w2)
    cmps = [t for t in V.cfg.nodes if t.kind == "test" and isinstance(t.ast.test, ast.Compare) and
            {n.id for n in ast.walk(t.ast.test) if isinstance(n, ast.Name)} >= {"angle", "wrap"}]
    ok = bool(cmps)
    for t in cmps:
        c = t.ast.test
        sides = [c.left] + list(c.comparators)
        ok = ok and all(isinstance(s_, ast.Call) and call_name(s_) == "abs" for s_ in sides)
    ctx.check(ok, "T9-symmetric", w2, "wrap2 half-turn test: %s" % (src(cmps[0].ast.test) if cmps else "?"),
              "the half-turn test compares signed values: for a negative wrap the first fold leaves the angle in (2*wrap, 0] "
              "and a signed comparison selects the wrong half, so the result leaves [-|wrap|, +|wrap|] (the function documents "
              "invariance to the sign of wrap)")
    # the second fold moves the angle by half turns ((angle - wrap) % -wrap): it is a whole turn only strictly beyond the half turn
    second = [s_ for s_ in V.stores("angle") if not (isinstance(s_.ast, ast.AugAssign) and "2" in src(s_.ast.value)) and "-" in src(s_.ast)]
    V.need(second, "second fold of wrap2")
    pc2 = ("or", [path_condition(V, s_, start=[V.cfg.entry.id], by_value=False) for s_ in second])
    ctx.check(formula_equiv(pc2, "wrap != 0 and abs(angle) > abs(wrap)") or formula_equiv(pc2, "wrap != 0.0 and abs(angle) > abs(wrap)"),
              "T9-symmetric", second[0].ast, "wrap2 folds a second time exactly when |angle| > |wrap| (strictly)",
              "at exactly half a turn the second fold subtracts half a turn, not a whole one: wrap2(180) becomes 0")
    first = [s for s in V.stores("angle") if isinstance(s.ast, ast.AugAssign) and src(s.ast.value).replace(" ", "") in ("wrap*2.0", "wrap*2", "2.0*wrap", "2*wrap")]
    ctx.check(bool(first) and all(V.dominated(cmps, first) for _ in [0]), "T9-symmetric", w2, "wrap2 folds to the full circle (% (wrap * 2)) before the half-turn test", "")
    d = ctx.fn("aid.navigating", "delta")
    D = FuncView(ctx, d)
    rets = [n for n in D.cfg.nodes if n.kind == "return"]
    ok = bool(rets)
    for r in rets:
        v = src(D.sym(r.ast.value, r)).replace(" ", "")
        ok = ok and v in ("wrap2(desired-actual,wrap)", "wrap2(angle=desired-actual,wrap=wrap)", "wrap2(desired-actual,wrap=wrap)")
    ctx.check(ok, "T9-delta", d, "delta returns wrap2(desired - actual, wrap)", "the short rotation between two headings is the two-sided wrap of their difference")
