"""C41 - CRC helpers compute the standard CRC-16 and CRC-64 checksums (parameter clause)."""
import ast

from ..model import AnchorError, call_name, const_str, dotted, src

EXPLANATION = (
    "Parameter clause: the integer constants reaching the bit loops are those of the catalogue entries "
    "CRC-16/GENIBUS (poly 0x1021, init 0xffff, xorout 0xffff, MSB first: test mask 0x8000, data bit 0x80, 8 "
    "iterations, left shifts) and CRC-64/WE (poly 0x42f0e1eba9ea3693, init and xorout all ones, MSB first; as "
    "two 32-bit halves with the carry from low to high, or as one 64-bit register); both functions are pure "
    "integer bit arithmetic: no true division, no float conversion, no right shift of the register (not "
    "reflected); the 64-bit result is returned as (high32, low32).")
NOT_DECIDED = "the checksum of any particular byte string (numeric)"

INT_OPS = (ast.LShift, ast.RShift, ast.BitAnd, ast.BitOr, ast.BitXor, ast.Add, ast.Sub, ast.Mod, ast.FloorDiv)


def _consts(fn):
    return {n.value for n in ast.walk(fn) if isinstance(n, ast.Constant) and isinstance(n.value, int) and not isinstance(n.value, bool)}


def check(ctx):
    ctx.rule("T9-params", "constants of crc16 / crc64 equal the catalogue parameters")
    ctx.rule("T9-integer", "only integer bit operators; no Div, no float(); register shifted left only")
    c16o = ctx.fn("aid.checking", "crc16")
    c64o = ctx.fn("aid.checking", "crc64")
    from ..rules import propagate_constants
    mt = ctx.repo.mod("aid.checking").tree
    # literals kept in locals or module constants are put back in place: the rules are about the values that reach the bit loops
    c16, c64 = propagate_constants(c16o, mt), propagate_constants(c64o, mt)
    for a_, b_ in ((c16, c16o), (c64, c64o)):
        a_._module = getattr(b_, "_module", None)
        for x in ast.walk(a_):
            if not hasattr(x, "_module") and not isinstance(x, (ast.expr_context, ast.operator, ast.boolop, ast.cmpop, ast.unaryop)):
                try:
                    x._module = a_._module
                except Exception:
                    pass
    k = _consts(c16)
    ctx.check({0x1021, 0xffff, 0x8000, 0x80} <= k, "T9-params", c16, "crc16 constants include poly 0x1021, 0xffff, 0x8000, 0x80 (%s)" % sorted(hex(x) for x in k if x > 8),
              "CRC-16/GENIBUS: polynomial 0x1021, initial and final XOR 0xFFFF, not reflected")
    t = src(c16)
    ok = "crc = 65535" in t.replace("crc = 0xffff", "crc = 65535") and "crc ^ 65535" in t and "crc << 1" in t and "crc & 32768" in t and "byte & 128" in t and ("i < 8" in t or "in range(8)" in t)
    ctx.check(ok, "T9-params", c16, "crc16: init 0xffff, MSB-first loop of 8, final xor 0xffff", "")
    k = _consts(c64)
    split = {0x42f0e1eb, 0xa9ea3693, 0xffffffff, 0x80000000} <= k
    whole = {0x42f0e1eba9ea3693, 0xffffffffffffffff, 0x8000000000000000} <= k
    ctx.check(split or whole, "T9-params", c64, "crc64 constants are those of CRC-64/WE (%s form)" % ("32+32" if split else "64-bit" if whole else "unrecognised"),
              "CRC-64/WE: polynomial 0x42f0e1eba9ea3693, init and xorout all ones, not reflected")
    if split:
        t = src(c64)
        ok = "crctop = crctop | botbit" in t and "crcbot & 2147483648" in t and "crctop & 2147483648" in t and \
            "crctop = crctop ^ 1123082731" in t and "crcbot = crcbot ^ 2850698899" in t and "return (crctop, crcbot)" in t and \
            "crctop ^ 4294967295" in t and "crcbot ^ 4294967295" in t
        ctx.check(ok, "T9-params", c64, "crc64: carry from low half into high half, both halves xored with their polynomial half, final xor, (top, bot)", "")
    for f in (c16, c64):
        bad = []
        for n in ast.walk(f):
            if isinstance(n, (ast.BinOp, ast.AugAssign)) and not isinstance(n.op, INT_OPS):
                bad.append(src(n)[:60])
            if isinstance(n, ast.Call) and call_name(n) in ("float", "round", "math.floor", "divmod", "pow"):
                bad.append(src(n)[:60])
            if isinstance(n, (ast.BinOp, ast.AugAssign)) and isinstance(n.op, ast.RShift):
                bad.append("right shift: " + src(n)[:50])
        ctx.check(not bad, "T9-integer", f, "%s uses only integer bit arithmetic" % f.name if not bad else "%s: %s" % (f.name, bad[0]),
                  "a CRC computed through true division or float conversion loses the low bits of a 64-bit register (a double has 53 "
                  "bits): the result is wrong for the values whose rounding carries")
    rets = [n for n in ast.walk(c64) if isinstance(n, ast.Return)]
    ctx.check(len(rets) == 1 and isinstance(rets[0].value, ast.Tuple) and len(rets[0].value.elts) == 2, "T9-params", c64, "crc64 returns a (high, low) pair", "")
    # crc16 renders the checksum as exactly two bytes, most significant first, for every value (leading zero byte kept)
    r16 = [n for n in ast.walk(c16) if isinstance(n, ast.Return) and n.value is not None]
    ok = bool(r16)
    for r in r16:
        v = r.value
        fixed = isinstance(v, ast.Call) and call_name(v) == "struct.pack" and v.args and const_str(v.args[0]) in ("!H", ">H") and len(v.args) == 2
        to_bytes = isinstance(v, ast.Call) and isinstance(v.func, ast.Attribute) and v.func.attr == "to_bytes" and \
            len(v.args) >= 1 and src(v.args[0]) == "2" and ("'big'" in src(v) or '"big"' in src(v))
        sized = isinstance(v, ast.Call) and "bytify" in (call_name(v) or src(v.func)) and \
            any(k.arg == "size" and src(k.value) == "2" for x in ast.walk(v) if isinstance(x, ast.Call) for k in x.keywords)
        ok = ok and (fixed or to_bytes or sized)
    ctx.check(ok, "T9-params", c16, "crc16 returns a fixed two-byte big-endian rendering (struct.pack('!H', crc) or equivalent)",
              "a variable-width rendering drops the leading zero byte of checksums below 0x100 (1 input in 256, e.g. the empty packet)")
