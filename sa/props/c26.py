"""C26 - a TCP server keeps one live connection entry per peer address."""
import ast

from ..model import AnchorError, call_name, const_str, dotted, src
from ..rules import FuncView, suffix_match, attr_writers, func_qual_of, defect_scope

EXPLANATION = (
    "Ownership: Server.ixes (and ServerTls.cxes) is written only by serviceAxes/serviceCxes/removeIx/__init__; "
    "replacement discipline: every `self.ixes[k] = v` is dominated by the stale-entry test (`k in self.ixes and "
    "self.ixes[k] is not v`) whose true branch shuts the old entry down (a real call); removeIx with shutclose "
    "closes the entry on every path on which the parameter is truthy (no extra condition) before deleting it; "
    "closeIx/closeAllIx close; internal-error detectors (subscripted methods, signatures) on those functions.")
NOT_DECIDED = "what the sockets do; liveness of entries between service calls"


def _own(C, name):
    return any(isinstance(b, ast.FunctionDef) and b.name == name for b in C.node.body)


def check(ctx):
    accepts_all_queued(ctx)
    ctx.rule("T4-ixes", "writers of .ixes / .cxes")
    ctx.rule("T1-replace", "ixes[k] = v preceded by: if k in ixes and ixes[k] is not v: shutdownIx(k)")
    ctx.rule("T2-remove", "removeIx(shutclose=True): entry.shutclose() on every such path, then del")
    allowed = {"Server.__init__", "Server.serviceAxes", "Server.removeIx", "ServerTls.serviceCxes", "ServerTls.__init__", "ServerTls.serviceAxes"}
    k = 0
    for attr in ("ixes", "cxes"):
        for node, kind in attr_writers(ctx.repo, attr):
            q = func_qual_of(ctx.repo, node)
            if "/aio/tcp/serving.py" not in q:
                # other modules may hold their own attribute of that name; writes through a Server's table elsewhere are reported
                recv = src(node.value)
                if recv == "self":
                    continue
            k += 1
            ctx.check(q.split(":")[1] in allowed, "T4-ixes", node, "%s of .%s in %s" % (kind, attr, q.split(":")[1]),
                      "the connection table is modified outside the accept/handshake/remove functions")
    ctx.floor("T4-ixes:writers", k, 5)
    # each accepted connection is entered (after the stale check) before the next one is taken off the queue: two accepts from
    # one address in the same pass must meet in the table, where the first is found and shut down
    ctx.rule("T2-same-iteration", "Server.serviceAxes: every (cs, ca) popped from .axes reaches `self.ixes[ca] = <its incomer>` in the same iteration")
    fa = ctx.cls("tcp.serving", "Server").own_method("serviceAxes")
    VA = FuncView(ctx, fa)
    pops = VA.need(VA.call_nodes("self.axes.popleft"), "self.axes.popleft() in serviceAxes")
    sts = [n for n in VA.cfg.nodes if any(isinstance(x, ast.Subscript) and isinstance(x.ctx, ast.Store) and src(VA.sym(x.value, n)) == "self.ixes"
                                          for x in VA.cfg.walk_node(n))]
    loops = [w for w in VA.cfg.nodes if w.kind in ("test", "for") and isinstance(w.ast, (ast.While, ast.For)) and
             id(pops[0].ast) in {id(x) for x in ast.walk(w.ast)}]
    okit = bool(sts) and bool(loops)
    if okit:
        w = max(loops, key=lambda x: getattr(x.ast, "lineno", 0))
        inside = {id(x) for x in ast.walk(w.ast)}
        okit = all(id(s_.ast) in inside for s_ in sts) and \
            w.id not in VA.cfg.reachable(pops[0].id, removed_nodes=[s_.id for s_ in sts], labels_block=("exc",))
    ctx.check(okit, "T2-same-iteration", fa, "serviceAxes enters each accepted connection before popping the next",
              "collecting the new connections first (e.g. in a dict keyed by address) and entering them afterwards loses all but the "
              "last of several accepts from one address in one pass: the earlier sockets are never tabled, shut down or closed")
    for cn, fname, var in (("Server", "serviceAxes", "incomer"), ("ServerTls", "serviceCxes", "cx")):
        f = ctx.cls("tcp.serving", cn).own_method(fname)
        V = FuncView(ctx, f)
        stores = [n for n in V.cfg.nodes if any(isinstance(x, ast.Subscript) and isinstance(x.ctx, ast.Store) and src(x.value) == "self.ixes"
                                                for x in V.cfg.walk_node(n))]
        V.need(stores, "self.ixes[...] = ... in %s.%s" % (cn, fname))
        for s_ in stores:
            sub = [x for x in V.cfg.walk_node(s_) if isinstance(x, ast.Subscript) and isinstance(x.ctx, ast.Store)][0]
            key, val = src(sub.slice), src(s_.ast.value)
            want = {"%s in self.ixes" % key, "self.ixes[%s] is not %s" % (key, val)}
            t = V.tests(lambda t: isinstance(t, ast.BoolOp) and isinstance(t.op, ast.And) and {src(v) for v in t.values} == want)
            sd = [n for n, c in V.calls(("self.shutdownIx", "self.closeIx", "self.removeIx")) if c.args and src(c.args[0]) == key]
            ok = bool(t) and V.dominated([s_], t) and bool(sd) and all(V.dominated_by_edge([n], t[0], "T") for n in sd)
            # the shutdown must be a call, on the true branch, before the store
            ok = ok and all(s_.id in V.cfg.reachable(n.id) for n in sd)
            tsucc = [b for b, lab in V.cfg.succ[t[0].id] if lab == "T"] if t else []
            ok = ok and bool(tsucc) and V.cfg.always_reaches([t[0].id], [n.id for n in sd] + [b for b, lab in V.cfg.succ[t[0].id] if lab == "F"], ends=[s_.id])
            # nothing else is done with the stale (possibly dead) entry on the way: an I/O call on it can raise and the new
            # connection, already taken off the accept queue, would never be entered
            if t:
                between = V.cfg.reachable([b for b, lab in V.cfg.succ[t[0].id] if lab == "T"], removed_nodes=[s_.id])
                for i in between:
                    for x in V.cfg.walk_node(V.cfg.nodes[i]):
                        if isinstance(x, ast.Call) and isinstance(x.func, ast.Attribute) and src(x.func.value) == "self.ixes[%s]" % key \
                                and x.func.attr not in ("shutdown", "shutclose", "close", "shutdownSend", "shutdownReceive"):
                            ok = False
                            ctx.note("%s.%s: %s on the stale entry before replacement" % (cn, fname, src(x)[:60]))
            ctx.check(ok, "T1-replace", s_.ast, "%s.%s: stale entry for %s shut down before self.ixes[%s] = %s" % (cn, fname, key, key, val),
                      "a new connection from an address that still has an entry replaces it without shutting the stale "
                      "connection down (or raises): the stale socket leaks")
    rm = ctx.cls("tcp.serving", "Server").own_method("removeIx")
    R = FuncView(ctx, rm)
    t = R.tests(lambda t: dotted(t) == "shutclose")
    closes = []
    for n, c in R.attr_calls(("shutclose", "close")):
        if n not in closes:
            closes.append(n)
    dels = [n for n in R.cfg.nodes if isinstance(n.ast, ast.Delete) and
            any("self.ixes" in src(R.sym(tg, n)) for tg in n.ast.targets)] + R.call_nodes(("self.ixes.pop",))
    ok = bool(t) and bool(closes) and bool(dels)
    if ok:
        ok = R.dominated_by_edge(closes, t[0], "T") and R.cfg.always_reaches(
            [t[0].id], [c.id for c in closes] + [b for b, lab in R.cfg.succ[t[0].id] if lab == "F"], ends=[R.cfg.exit.id])
        ok = ok and R.always_then([R.cfg.entry], dels, skip_exc=True) is not None
    ctx.check(ok, "T2-remove", rm, "removeIx: `if shutclose:` (the parameter alone) => entry.shutclose(); entry deleted",
              "removing an entry must close its socket whenever shutclose is requested; an extra condition on the close "
              "(e.g. skipping it for a cut-off connection) leaves the socket open after the entry is gone")
    # the entry closed is the one removed
    for n, c in R.attr_calls(("shutclose", "close")):
        recv = src(R.sym(c.func.value, n))
        ctx.check("self.ixes[ca]" in recv or "self.ixes.pop(ca)" in recv, "T2-remove", c,
                  "close applies to the entry being removed (%s)" % recv, "the closed socket must be the removed entry's")
    for name in ("closeIx", "closeAllIx"):
        f = ctx.cls("tcp.serving", "Server").own_method(name)
        ctx.check(".close()" in src(f), "T2-remove", f, "%s closes" % name, "")
    # shutclose(): the socket is closed on every path on which the entry forgets it (cs = None), also when shutdown raises
    ctx.rule("T2-shutclose", "Incomer/IncomerTls.shutclose: cs.close() on every path to `self.cs = None`, incl. a failing shutdown")
    for cn in ("Incomer", "IncomerTls"):
        m = ctx.cls("tcp.serving", cn).methods.get("shutclose")
        if m is None:
            raise AnchorError("%s.shutclose not found" % cn)
        K = FuncView(ctx, m, exc="calls")
        cl = [n for n, c in K.calls(("self.cs.close", "cs.close"))]
        forget = [n for n in K.stores("cs") if isinstance(n.ast, ast.Assign) and dotted(n.ast.targets[0]) == "self.cs"
                  and isinstance(n.ast.value, ast.Constant) and n.ast.value.value is None]
        ctx.check(bool(cl) and bool(forget) and K.dominated(forget, cl), "T2-shutclose", m,
                  "%s.shutclose: self.cs.close() precedes `self.cs = None` on every path (a shutdown() that raises included)" % cn,
                  "when the peer is already gone the socket shutdown raises; if that skips close(), the entry leaves the table "
                  "while its socket is never closed")
    # teardown of an entry that is already closed (closeIx leaves it in the table with cs None) must be a no-op, not an error
    ctx.rule("T2-closed", "Incomer teardown methods touch self.cs only under `if self.cs` (or every caller holds that guard)")
    k = 0
    smod = ctx.repo.mod("tcp.serving")
    ctx.consulted.add(smod.relpath)
    allfns = [fn for c in smod.tree.body if isinstance(c, ast.ClassDef) for fn in c.body if isinstance(fn, ast.FunctionDef)]
    for cn in ("Incomer", "IncomerTls"):
        C = ctx.cls("tcp.serving", cn)
        for mn in ("shutdown", "shutdownSend", "shutdownReceive", "shutclose", "close"):
            if not _own(C, mn):
                continue
            m = C.methods[mn]
            K = FuncView(ctx, m, exc="calls")
            for n in K.cfg.nodes:
                for c in K.cfg.walk_node(n):
                    if not (isinstance(c, ast.Call) and isinstance(c.func, ast.Attribute) and src(K.sym(c.func.value, n)) == "self.cs"):
                        continue
                    k += 1
                    ok = bool({"self.cs", "self.cs is not None"} & K.symfacts(n))
                    if not ok:      # guard held by every caller instead?
                        sites = [(f2, x) for f2 in allfns for x in ast.walk(f2) if isinstance(x, ast.Call) and
                                 isinstance(x.func, ast.Attribute) and x.func.attr == mn and
                                 not src(x.func.value).endswith((".cs", ".ss")) and src(x.func.value) not in ("cs", "ss", "super()")]
                        ok = bool(sites)
                        for f2, x in sites:
                            V2 = FuncView(ctx, f2, exc="calls")
                            nn = [q for q in V2.cfg.nodes if any(y is x for y in V2.cfg.walk_node(q))]
                            recv = src(x.func.value)
                            ok = ok and bool(nn) and bool({recv + ".cs", recv + ".cs is not None"} & V2.symfacts(nn[0]))
                    ctx.check(ok, "T2-closed", c, "%s.%s: %s only while the entry still has a socket" % (cn, mn, src(c)[:40]),
                              "an entry closed earlier (closeIx sets cs None but leaves it in the table) is torn down again when its address "
                              "re-connects or it is removed: the unguarded socket call raises AttributeError, the accept pass aborts, the "
                              "stale entry stays and the new connection is dropped")
    ctx.floor("T2-closed:sites", k, 3)
    S = ctx.cls("tcp.serving", "Server")
    T = ctx.cls("tcp.serving", "ServerTls")
    entries = [S.methods[m] for m in ("serviceAxes", "removeIx", "shutdownIx", "closeIx", "closeAllIx", "serviceConnects")] + \
        [T.methods[m] for m in ("serviceAxes", "serviceCxes", "serviceConnects")]
    defect_scope(ctx, "D-scope", entries, max_depth=1, floor=9, label="scope: Server/ServerTls connection table functions")


def accepts_all_queued(ctx):
    """every connection the listening socket hands over reaches the table: Acceptor.serviceAccepts queues each accepted (cs, ca)
    on .axes unconditionally, and Server / ServerTls take that method as it is (the stale-entry rule is applied later, in
    serviceAxes, where old and new meet)"""
    from ..rules import path_condition, formula_implies_f, formula_of, transparent_override
    ctx.rule("T6-accepts", "Acceptor.serviceAccepts: axes.append((cs, ca)) for every truthy cs; Server/ServerTls do not override it")
    A = ctx.cls("tcp.serving", "Acceptor")
    f = A.own_method("serviceAccepts")
    V = FuncView(ctx, f)
    ap = V.need(V.calls("self.axes.append"), "self.axes.append in Acceptor.serviceAccepts")
    acc = V.need(V.call_nodes("self.accept"), "self.accept() in Acceptor.serviceAccepts")
    ok = len(ap) == 1
    if ok:
        n, c = ap[0]
        a = V.sym(c.args[0], n) if c.args else None
        ok = isinstance(a, ast.Tuple) and len(a.elts) == 2
        pc = path_condition(V, n, start=[b for b, _ in V.cfg.succ[acc[0].id]])
        # nothing but the "no more connections" test stands between accept() and the queue
        ok = ok and formula_implies_f(formula_of("cs"), pc)
    ctx.check(ok, "T6-accepts", f, "every accepted connection is queued on .axes",
              "a connection that is accepted and then dropped (address already in the table, any other filter) never reaches "
              "serviceAxes: the stale entry for its address stays in the table and is never shut down, the new connection is lost")
    S = ctx.cls("tcp.serving", "Server")
    T = ctx.cls("tcp.serving", "ServerTls")
    for m in ("shutdownIx", "shutCloseIx", "closeIx", "removeIx"):
        if m in S.methods:
            ctx.check(not _own(T, m) or transparent_override(T.methods[m]), "T6-accepts", T.node, "ServerTls inherits Server.%s" % m,
                      "Server's stale-entry handling calls self.%s(ca) meaning the entry in .ixes: an override that looks the address "
                      "up elsewhere first (the handshake table) shuts down the new connection and leaves the stale one alone" % m)
    for cn in ("Server", "ServerTls"):
        C = ctx.cls("tcp.serving", cn)
        for m in ("serviceAccepts", "accept"):
            ctx.check(not _own(C, m) or transparent_override(C.methods[m]), "T6-accepts", C.node, "%s inherits Acceptor.%s" % (cn, m),
                      "an override of the accept path in the server class needs its own proof that every accepted connection "
                      "reaches the table")
