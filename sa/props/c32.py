"""C32 - malformed HTTP input only affects its own connection (error discipline)."""
import ast

from ..model import AnchorError, call_name, const_str, dotted, src, parent, walk_no_nested
from ..rules import transparent_override, FuncView, defect_scope
from .. import defects
from . import _http

EXPLANATION = (
    "Error discipline (T10) with entry Parsent.parseMessage (server Requestant and client Respondent): every "
    "explicit raise in the parse call graph is a subclass of httping.HTTPException - the only class parseMessage, "
    "Valet.serviceReqs and Patron.serviceResponse contain - and the modelled implicit sources are contained: no "
    "fixed-arity unpack of str.split without a separator guard, every int(text[, base]) of received text sits in "
    "a try that converts ValueError; parseMessage catches HTTPException and records errored/error; in "
    "Valet.serviceReqs both the exception arm and the errored arm close that connection only (closeConnection(ca)) "
    "and continue with the next; Patron.serviceResponse records an error instead of raising; internal-error "
    "detectors over the scope.")
NOT_DECIDED = "exceptions arising from runtime values beyond the modelled constructs; what the WSGI application raises"

REVIEWED = {
    ("parseBody", "ValueError"): "guarded by `self.length and self.length < 0`, and parseHead maps negative lengths to None: unreachable",
}


# library calls that raise on malformed text, and the handlers that contain each (frozen table; D-int generalised)
_VE = {"ValueError", "Exception", "BaseException"}
RAISING = {"int": _VE, "float": _VE, "codecs.lookup": {"LookupError", "Exception", "BaseException"},
           "codecs.getdecoder": {"LookupError", "Exception", "BaseException"}, "codecs.getencoder": {"LookupError", "Exception", "BaseException"},
           "codecs.getincrementaldecoder": {"LookupError", "Exception", "BaseException"},
           "base64.b64decode": _VE | {"Error"}, "binascii.unhexlify": _VE | {"Error"}, "bytes.fromhex": _VE, "bytearray.fromhex": _VE,
           "time.strptime": _VE, "datetime.strptime": _VE, "ipaddress.ip_address": _VE}
RAISING_ATTR = {"parsedate_to_datetime": _VE | {"TypeError"}}


def check(ctx):
    ctx.rule("T10-http", "every explicit raise in the parse call graph is an HTTPException subclass (reviewed exceptions frozen)")
    ctx.rule("D-int", "int()/float()/codecs.lookup()/.. (frozen table of library calls that raise on malformed text) of received text only inside a try that handles their exception")
    ctx.rule("D-unpack", "no unguarded fixed-arity unpack of str.split")
    ctx.rule("T1-contain", "parseMessage / serviceReqs / serviceResponse contain HTTPException per connection")
    repo = ctx.repo
    scope = _http.parse_scope(ctx)
    unbound_locals(ctx, scope)
    nr = 0
    for q, f in scope.items():
        if "/aio/http/" not in q:
            continue
        for n in walk_no_nested(f):
            if isinstance(n, ast.Raise) and n.exc is not None:
                e = n.exc.func if isinstance(n.exc, ast.Call) else n.exc
                if isinstance(e, ast.Name) and e.id[0].islower():
                    continue
                nr += 1
                last = (dotted(e) or "?").split(".")[-1]
                if (f.name, last) in REVIEWED:
                    ctx.ok("T10-http", n, "reviewed: %s in %s - %s" % (last, f.name, REVIEWED[(f.name, last)]))
                    continue
                ctx.check(_http.exc_is_http(repo, f._module, e), "T10-http", n, "raise %s in %s" % (dotted(e), q.split(":")[1]),
                          "an exception that is not an HTTPException escapes Parsent.parseMessage and the server/client service "
                          "loops: malformed input on one connection takes the whole service loop down")
            if isinstance(n, ast.Raise) and n.exc is None:
                # bare re-raise inside a handler: what is re-raised?
                h = parent(n)
                while h is not None and not isinstance(h, ast.ExceptHandler):
                    h = parent(h)
                if h is not None and h.type is not None:
                    nr += 1
                    ctx.check(_http.exc_is_http(repo, f._module, h.type), "T10-http", n, "re-raise of %s in %s" % (dotted(h.type), q.split(":")[1]),
                              "a caught %s is re-raised unchanged: it is not an HTTPException and escapes the service loop" % dotted(h.type))
    ctx.floor("T10-http:raises", nr, 15)
    for q, f in scope.items():
        if "/aio/http/" not in q:
            continue
        for c in [x for x in walk_no_nested(f) if isinstance(x, ast.Call) and x.args and not isinstance(x.args[0], ast.Constant)]:
            cn_ = call_name(c) or ""
            key = cn_ if cn_ in RAISING else ".".join(cn_.split(".")[-2:]) if ".".join(cn_.split(".")[-2:]) in RAISING else \
                cn_.split(".")[-1] if ("." in cn_ and cn_.split(".")[-1] in RAISING_ATTR) else None
            if key is None:
                continue
            accepted = RAISING.get(key) or RAISING_ATTR[key]
            p = parent(c)
            ok = False
            while p is not None and p is not f:
                if isinstance(p, ast.Try) and any(c in list(ast.walk(s)) for s in p.body):
                    for h in p.handlers:
                        names = [None] if h.type is None else [dotted(e) for e in (h.type.elts if isinstance(h.type, ast.Tuple) else [h.type])]
                        if any(n is None or (n or "").split(".")[-1] in accepted for n in names):
                            ok = True
                p = parent(p)
            ctx.check(ok, "D-int", c, "%s: %s" % (q.split(":")[1], src(c)[:80]),
                      "%s of received text outside a handler for %s raises it on malformed input: that is not an HTTPException and "
                      "it escapes the service loop" % (key, "/".join(sorted(accepted - {"Exception", "BaseException"}))))
    _http.fixed_arity_unpacks(ctx, "D-unpack", {q: f for q, f in scope.items() if "/aio/http/" in q})
    ctx.rule("D-decode", "received bytes are decoded with a total codec or inside a handler for the decode error")
    nd = _http.decode_discipline(ctx, "D-decode", scope)
    ctx.floor("D-decode:sites", nd, 6)
    ctx.rule("T-gen", "a closed line/leader/chunk generator is never resumed")
    ctx.rule("D-bakey", "bytearray slices of the receive buffer are not used as mapping keys")
    ctx.rule("D-valueerr", "urlsplit / .port of received text only inside a ValueError handler")
    ctx.floor("T-gen:sites", _http.generator_typestate(ctx, "T-gen", scope), 8)
    ctx.floor("D-bakey:keys", _http.bytearray_keys(ctx, "D-bakey", scope), 2)
    ctx.floor("D-valueerr:sites", _http.value_errors(ctx, "D-valueerr", scope), 2)
    pm = ctx.cls("aio.http.httping", "Parsent").own_method("parseMessage")
    hs = [h for h in ast.walk(pm) if isinstance(h, ast.ExceptHandler)]
    ok = len(hs) == 1 and dotted(hs[0].type) == "HTTPException" and "self.errored = True" in src(hs[0]) and "self.error = str(ex)" in src(hs[0])
    ctx.check(ok, "T1-contain", pm, "parseMessage: except HTTPException: errored = True; error = str(ex)", "a failed request is marked, not raised")
    for modn, cn in (("aio.http.serving", "Requestant"), ("aio.http.clienting", "Respondent")):
        c = ctx.cls(modn, cn)
        ctx.check("parseMessage" not in c.methods or transparent_override(c.methods["parseMessage"]), "T1-contain", c.node, "%s inherits Parsent.parseMessage" % cn, "an override would need its own containment")
    sr = ctx.cls("aio.http.serving", "Valet").own_method("serviceReqs")
    V = FuncView(ctx, sr, may_raise=lambda n: ["HTTPException"] if any(isinstance(x, ast.Call) and call_name(x) == "requestant.parse" for x in ast.walk(n)) else None)
    hs = [h for h in V.cfg.nodes if h.kind == "except"]
    cc = [n for n, c in V.calls("self.closeConnection") if src(c.args[0]) == "ca"]
    et = V.tests(lambda t: src(t) == "requestant.errored")
    ok = bool(hs) and bool(cc) and bool(et)
    if ok:
        in_h = [c for c in cc if c.id in V.cfg.reachable(hs[0].id)]
        in_e = [c for c in cc if V.dominated_by_edge([c], et[0], "T")]
        cont = [n for n in V.cfg.nodes if n.kind == "continue"]
        ok = bool(in_h) and bool(in_e) and all(any(k.id in V.cfg.reachable(c.id) for k in cont) for c in in_h + in_e)
        ok = ok and all(dotted(h.ast.type) == "httping.HTTPException" for h in hs)
    ctx.check(ok, "T1-contain", sr, "Valet.serviceReqs: exception arm and errored arm both closeConnection(ca) and continue",
              "a failed request must close its own connection only and the loop must go on to the other connections")
    sp = ctx.cls("aio.http.clienting", "Patron").own_method("serviceResponse")
    hs = [h for h in ast.walk(sp) if isinstance(h, ast.ExceptHandler)]
    SPV = FuncView(ctx, sp, exc="calls")
    inh = {id(x) for h in hs for x in ast.walk(h)}
    err = [n for n in SPV.stores("self.respondent.errored") if id(n.ast) in inh and isinstance(n.ast, ast.Assign) and
           isinstance(n.ast.value, ast.Constant) and n.ast.value.value is True]
    ok = bool(hs) and dotted(hs[0].type) == "httping.HTTPException" and bool(err) and not any(isinstance(x, ast.Raise) for x in ast.walk(hs[0]))
    ctx.check(ok, "T1-contain", sp, "Patron.serviceResponse records errored/error instead of raising", "a malformed response is recorded")
    # the containing service loops themselves (their error arms are exactly the never-tested paths)
    loops = [sr, sp] + [m for m in (ctx.cls("aio.http.serving", "Valet").own_method(n) for n in ("closeConnection", "serviceReps", "serviceAll")) if m is not None]
    found = defects.run(repo, [f for q, f in scope.items() if "/aio/http/" in q] + loops, ("D1", "D1b", "D3", "D4", "D5", "D5b", "D6"))
    for fd in found:
        ctx.bad(fd.rule, fd.node, fd.construct, fd.why)
    ctx.ok("D-scope", "ioflo/aio/http", "%d parse-scope functions without internal-error constructs" % len(scope))

    # the second server of the module (Porter with its Stewards) services requests the same way
    from ..callgraph import closure
    PO = ctx.cls("aio.http.serving", "Porter")
    ST = ctx.cls("aio.http.serving", "Steward")
    entries = [PO.own_method(m) for m in ("serviceAll", "serviceStewards", "serviceConnects", "closeConnection") if PO.own_method(m) is not None]
    entries += [m for m in ST.methods.values()]
    pscope = {q: f for q, f in closure(repo, entries, max_depth=2).items() if "/aio/http/serving.py" in q}
    for f in pscope.values():
        ctx.functions.add(repo.func_qual(f))
    ctx.floor("porter scope", len(pscope), 8)
    _http.decode_discipline(ctx, "D-decode", pscope)
    found = defects.run(repo, list(pscope.values()), ("D1", "D1b", "D3", "D4", "D5", "D5b", "D6"))
    for fd in found:
        ctx.bad(fd.rule, fd.node, fd.construct, fd.why)
    ss = PO.own_method("serviceStewards")
    V = FuncView(ctx, ss)
    rs = V.need(V.call_nodes("steward.respond"), "steward.respond() in Porter.serviceStewards")
    et = V.tests(lambda t: src(t) == "steward.requestant.errored")
    cc = [n for n, c in V.calls("self.closeConnection") if src(c.args[0]) == "ca"]
    ok = bool(et) and V.dominated_by_edge(rs, et[0], "F") and any(V.dominated_by_edge([c], et[0], "T") for c in cc)
    if ok:
        cont = [n for n in V.cfg.nodes if n.kind == "continue"]
        ok = any(V.dominated_by_edge([k], et[0], "T") for k in cont)
    ctx.check(ok, "T1-contain", ss, "Porter.serviceStewards: respond() only for a request that did not fail; failed => closeConnection(ca); continue",
              "a failed request has no method/url/version: responding to it raises out of serviceAll and the other connections are not served")

    # client side: what serviceResponse does with a parsed (possibly malformed) response, including following a redirect
    ctx.rule("D7-nullable", "a header looked up with .get() is dereferenced only under a presence check")
    PA = ctx.cls("aio.http.clienting", "Patron")
    RS = ctx.cls("aio.http.clienting", "Respondent")
    cscope = {repo.func_qual(f): f for f in (PA.own_method("serviceResponse"), PA.own_method("redirect"))}
    _http.value_errors(ctx, "D-valueerr", cscope)
    from .. import nullable
    hfuncs = [f for q, f in scope.items() if "/aio/http/" in q] + [PA.own_method("serviceResponse")]
    ctx.floor("D7-nullable:lookups", nullable.check(ctx, "D7-nullable", hfuncs), 6)
    # Patron.redirect reads the Location header without a check of its own: it is only reached under respondent.redirectant,
    # which parseHead may set only when a Location header is present
    ph = RS.own_method("parseHead")
    W = FuncView(ctx, ph)
    st = [n for n in W.cfg.nodes if isinstance(n.ast, ast.Assign) and src(n.ast.targets[0]) == "self.redirectant" and
          isinstance(n.ast.value, ast.Constant) and n.ast.value.value is True]
    lt = [t for t in W.cfg.nodes if t.kind == "test" and any(isinstance(x, ast.Call) and src(x).replace("'", '"') == 'self.headers.get("location")'
                                                              for x in ast.walk(t.ast.test))]
    ok = bool(st) and bool(lt) and all(any(W.dominated_by_edge([n], t, "T") for t in lt) for n in st)
    ctx.check(ok, "D7-nullable", ph, "Respondent.parseHead: redirectant = True only when headers.get('location') is truthy",
              "Patron.redirect dereferences the Location header unconditionally: a 3xx without Location (legal for 300) raises AttributeError "
              "out of Patron.serviceAll")
    sr2 = PA.own_method("serviceResponse")
    S2 = FuncView(ctx, sr2)
    rc = S2.call_nodes("self.redirect")
    rt = S2.tests(lambda t: "self.respondent.redirectant" in src(t) and "not" not in src(t))
    ctx.check(bool(rc) and bool(rt) and S2.dominated_by_edge(rc, rt[0], "T"), "D7-nullable", sr2,
              "Patron.serviceResponse calls redirect() only under respondent.redirectant", "")


REVIEWED_UNBOUND = {
    ("parseLine", "eol"): "eol is bound in the same loop iteration in which index becomes >= 0; it is read only under index >= 0",
    ("parseLeader", "eol"): "same search loop as parseLine",
}


def unbound_locals(ctx, scope):
    """D1c over the HTTP parse call graph: a local read on a path on which nothing bound it raises UnboundLocalError - not an
    HTTPException - out of parseMessage and the service loops (e.g. a header continuation line that uses the previous line's
    key when it is the first line of the block)"""
    from ..rules import possibly_unbound
    ctx.rule("D1c", "no local of the HTTP parsers is read on a path without a completed binding (reviewed exceptions listed)")
    n = 0
    for q, f in sorted(scope.items()):
        if "/aio/http/" not in q:
            continue
        V = FuncView(ctx, f, exc="calls")
        for u, name in possibly_unbound(V):
            if (f.name, name) in REVIEWED_UNBOUND:
                continue
            n += 1
            ctx.bad("D1c", u.ast, "%s reads `%s` in %s" % (q.split(":")[1], name, src(u.ast)[:50]),
                    "on some path to this statement `%s` has not been bound: UnboundLocalError escapes the parser, the exception is not an "
                    "HTTPException, so it leaves parseMessage and serviceAll and stops the other connections from being served" % name)
    if not n:
        ctx.ok("D1c", "ioflo/aio/http", "%d functions: every read local is bound on every path" % len(scope))
