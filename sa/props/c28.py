"""C28 - idle timeouts drop only idle connections."""
import ast

from ..model import AnchorError, call_name, const_str, dotted, src
from ..rules import FuncView, suffix_match

EXPLANATION = (
    "Override preservation (T12): every implementation of Incomer.receive/send (plain and TLS) restarts the idle "
    "timer (`if self.refreshable: self.refresh()`) on every path on which data was received / bytes were accepted "
    "- the refresh is dominated only by the data/result test (and refreshable), lies inside receive/send "
    "themselves so that every caller is covered, and refresh() restarts the timer; Valet/Porter close for "
    "idleness only under `ix.timeout > 0.0 and ix.timer.expired`; a persisted request sets its incomer's timeout "
    "to 0.0; the incomer timers are StoreTimers of the server's store.")
NOT_DECIDED = "timing against real schedules; whether the application keeps servicing the connection"


def check(ctx):
    ctx.rule("T12-refresh", "receive/send of Incomer and IncomerTls: refresh() on the data / bytes-sent path, guarded only by refreshable")
    ctx.rule("T1-idle", "closing for idleness is dominated by ix.timeout > 0.0 and ix.timer.expired")
    ctx.rule("T9-persist", "persisted => incomer.timeout = 0.0; timer = StoreTimer(store, duration=timeout)")
    for cn in ("Incomer", "IncomerTls"):
        C = ctx.cls("tcp.serving", cn)
        for meth, var in (("receive", "data"), ("send", "result")):
            f = C.own_method(meth)
            V = FuncView(ctx, f, exc="calls")
            rf = V.call_nodes("self.refresh")
            dt = V.tests(lambda t, var=var: dotted(t) == var)
            gt = V.tests(lambda t: dotted(t) == "self.refreshable")
            ok = bool(rf) and bool(dt) and bool(gt) and V.dominated_by_edge(rf, dt[0], "T") and V.dominated_by_edge(rf, gt[0], "T")
            if ok:
                # the only tests between the data test and the refresh are the refreshable test (and logging/wlog tests that rejoin)
                cfg = V.cfg
                ok = cfg.always_reaches([b for b, lab in cfg.succ[dt[0].id] if lab == "T"], [gt[0].id],
                                        ends=[cfg.exit.id]) and gt[0].id in cfg.reachable([b for b, lab in cfg.succ[dt[0].id] if lab == "T"][0])
                rets = [n for n in cfg.nodes if n.kind == "return" and n.id in cfg.reachable(dt[0].id)]
            ctx.check(ok, "T12-refresh", f, "%s.%s: if %s: ... if self.refreshable: self.refresh()" % (cn, meth, var),
                      "activity on the connection does not restart its idle period in %s.%s: an active connection is closed "
                      "at the idle timeout" % (cn, meth))
    rfm = ctx.cls("tcp.serving", "Incomer").own_method("refresh")
    ctx.check("self.timer.restart()" in src(rfm), "T12-refresh", rfm, "refresh() = timer.restart()", "refresh must restart the idle period")
    ini = ctx.cls("tcp.serving", "Incomer").own_method("__init__")
    t = src(ini)
    ctx.check("StoreTimer(self.store, duration=self.timeout)" in t.replace("timing.", "").replace("aiding.", "") or
              ("StoreTimer(" in t and "duration=self.timeout" in t), "T9-persist", ini,
              "Incomer.timer = StoreTimer(store, duration=timeout)", "the idle period is measured on the server's store clock")
    n = 0
    for cn in ("Valet", "Porter"):
        C = ctx.cls("http.serving", cn)
        f = C.own_method("serviceConnects")
        V = FuncView(ctx, f)
        t = V.tests(lambda t: src(t).replace("(", "").replace(")", "") == "ix.timeout > 0.0 and ix.timer.expired")
        closes = V.call_nodes(("self.closeConnection", "self.servant.removeIx", "self.servant.closeIx"))
        cut = V.tests(lambda t: dotted(t) == "ix.cutoff")
        idle = [c for c in closes if not (cut and V.dominated_by_edge([c], cut[0], "T"))]
        ok = bool(t) and bool(idle) and all(V.dominated_by_edge([c], t[0], "T") for c in idle)
        n += len(closes)
        ctx.check(ok, "T1-idle", f, "%s.serviceConnects closes only under ix.timeout > 0.0 and ix.timer.expired" % cn,
                  "a connection may be closed for idleness only when its own timeout is enabled and has elapsed")
    ctx.floor("T1-idle:closes", n, 2)
    cp = ctx.cls("http.serving", "Requestant").own_method("checkPersisted")
    P = FuncView(ctx, cp)
    t = P.tests(lambda t: dotted(t) == "self.persisted")
    st = [s for s in P.cfg.nodes if isinstance(s.ast, ast.Assign) and dotted(s.ast.targets[0]) == "self.incomer.timeout"]
    ok = bool(t) and len(st) == 1 and isinstance(st[0].ast.value, ast.Constant) and st[0].ast.value.value == 0.0 and P.dominated_by_edge(st, t[0], "T")
    ctx.check(ok, "T9-persist", cp, "persisted => self.incomer.timeout = 0.0", "connections kept alive by HTTP persistence are not dropped by the idle timer")
