"""C28 - idle timeouts drop only idle connections."""
import ast

from ..model import AnchorError, call_name, const_str, dotted, src
from ..rules import func_qual_of, FuncView, suffix_match

EXPLANATION = (
    "Override preservation (T12): every implementation of Incomer.receive/send (plain and TLS) restarts the idle "
    "timer (`if self.refreshable: self.refresh()`) on every path on which data was received / bytes were accepted "
    "- the refresh is dominated only by the data/result test (and refreshable), lies inside receive/send "
    "themselves so that every caller is covered, and refresh() restarts the timer; Valet/Porter close for "
    "idleness only under `ix.timeout > 0.0 and ix.timer.expired`; a persisted request sets its incomer's timeout "
    "to 0.0; the incomer timers are StoreTimers of the server's store.")
NOT_DECIDED = "timing against real schedules; whether the application keeps servicing the connection"


def check(ctx):
    incomers_built_refreshable(ctx)
    class_default_only_as_default(ctx)
    ctx.rule("T12-refresh", "receive/send of Incomer and IncomerTls: refresh() on the data / bytes-sent path, guarded only by refreshable")
    ctx.rule("T1-idle", "closing for idleness is dominated by ix.timeout > 0.0 and ix.timer.expired")
    ctx.rule("T9-persist", "persisted => incomer.timeout = 0.0; timer = StoreTimer(store, duration=timeout)")
    for cn in ("Incomer", "IncomerTls"):
        C = ctx.cls("tcp.serving", cn)
        for meth, var in (("receive", "data"), ("send", "result")):
            f = C.own_method(meth)
            V = FuncView(ctx, f, exc="calls")
            rf = V.call_nodes("self.refresh")
            dt = V.ptests(var)
            gt = V.ptests("self.refreshable")
            # the refresh runs exactly when data arrived / bytes were accepted and the connection is refreshable: those two
            # conditions and no other, and every such path gets to the refreshable test (logging branches rejoin)
            ok = bool(rf) and bool(dt) and bool(gt) and all(V.facts(r) == {var, "self.refreshable"} for r in rf)
            if ok:
                cfg = V.cfg
                t0, l0 = dt[0]
                start = [b for b, lab in cfg.succ[t0.id] if lab == l0]
                esc = cfg.reachable(start, removed_nodes=[g.id for g, _ in gt], labels_block=("exc", "raise")) if start else {cfg.exit.id}
                ok = cfg.exit.id not in esc
            ctx.check(ok, "T12-refresh", f, "%s.%s: if %s: ... if self.refreshable: self.refresh()" % (cn, meth, var),
                      "activity on the connection does not restart its idle period in %s.%s: an active connection is closed "
                      "at the idle timeout" % (cn, meth))
    rfm = ctx.cls("tcp.serving", "Incomer").own_method("refresh")
    ctx.check("self.timer.restart()" in src(rfm), "T12-refresh", rfm, "refresh() = timer.restart()", "refresh must restart the idle period")
    ini = ctx.cls("tcp.serving", "Incomer").own_method("__init__")
    t = src(ini)
    ctx.check("StoreTimer(self.store, duration=self.timeout)" in t.replace("timing.", "").replace("aiding.", "") or
              ("StoreTimer(" in t and "duration=self.timeout" in t), "T9-persist", ini,
              "Incomer.timer = StoreTimer(store, duration=timeout)", "the idle period is measured on the server's store clock")
    n = 0
    for cn in ("Valet", "Porter"):
        C = ctx.cls("http.serving", cn)
        f = C.own_method("serviceConnects")
        V = FuncView(ctx, f)
        closes = V.call_nodes(("self.closeConnection", "self.servant.removeIx", "self.servant.closeIx"))
        # every close that is not the cut-off close holds both conditions on every path to it (any spelling of the guard,
        # including a predicate method that returns exactly this conjunction)
        idle = [c for c in closes if "ix.cutoff" not in V.facts(c)]
        ok = bool(idle) and all({"ix.timeout > 0.0", "ix.timer.expired"} <= V.symfacts(c) for c in idle)
        n += len(closes)
        ctx.check(ok, "T1-idle", f, "%s.serviceConnects closes only under ix.timeout > 0.0 and ix.timer.expired" % cn,
                  "a connection may be closed for idleness only when its own timeout is enabled and has elapsed")
    ctx.floor("T1-idle:closes", n, 2)
    cp = ctx.cls("http.serving", "Requestant").own_method("checkPersisted")
    P = FuncView(ctx, cp)
    st = [s for s in P.cfg.nodes if isinstance(s.ast, ast.Assign) and dotted(s.ast.targets[0]) == "self.incomer.timeout"]
    # the timeout is disabled exactly under "this request is persisted": the guard is self.persisted, or a local that is what
    # self.persisted was just assigned from
    pst = [s for s in P.cfg.nodes if isinstance(s.ast, ast.Assign) and dotted(s.ast.targets[0]) == "self.persisted"]
    aliases = {"self.persisted"} | {dotted(s.ast.value) for s in pst if dotted(s.ast.value)}
    ok = len(st) == 1 and isinstance(st[0].ast.value, ast.Constant) and st[0].ast.value.value == 0.0 and \
        bool(P.facts(st[0]) & aliases) and P.facts(st[0]) <= aliases
    ctx.check(ok, "T9-persist", cp, "persisted => self.incomer.timeout = 0.0", "connections kept alive by HTTP persistence are not dropped by the idle timer")
    resolved_timeout_reaches_servant(ctx)


def resolved_timeout_reaches_servant(ctx):
    """Valet/Porter resolve their idle timeout (`self.timeout = timeout if timeout is not None else self.Timeout`) and hand it to
    the Server they create: what the servant gets must be the resolved value, not the raw (possibly None) argument, or the
    servant falls back to its own, different default and connections are dropped after that time"""
    ctx.rule("T5-config", "Valet/Porter.__init__ pass timeout=self.timeout (the resolved value) to the servant they construct")
    for cn in ("Valet", "Porter"):
        f = ctx.cls("aio.http.serving", cn).own_method("__init__")
        V = FuncView(ctx, f)
        k = 0
        for n in V.cfg.nodes:
            for c in V.cfg.walk_node(n):
                if isinstance(c, ast.Call) and any(kw.arg == "timeout" for kw in c.keywords) and \
                        any(kw.arg in ("ha", "eha", "bufsize") for kw in c.keywords):
                    k += 1
                    v = [kw.value for kw in c.keywords if kw.arg == "timeout"][0]
                    val = src(V.sym(v, n))
                    ctx.check(val in ("self.timeout", "timeout if timeout is not None else self.Timeout", "self.Timeout if timeout is None else timeout"),
                              "T5-config", c, "%s.__init__: servant(timeout=%s)" % (cn, val),
                              "the servant is given the raw argument: with no explicit timeout it uses Server.Timeout (1.0 s) while "
                              "%s.timeout reports the documented default - connections silent for longer than 1 s are dropped" % cn)
        ctx.floor("T5-config:%s" % cn, k, 1)


def class_default_only_as_default(ctx):
    """the class constant Timeout is the default for an unconfigured server and nothing else: it is read only where .timeout is
    resolved (`timeout if timeout is not None else self.Timeout`, in __init__); every timer duration comes from the resolved
    .timeout (or the incomer's own .timeout)"""
    ctx.rule("T5-default", "servers/incomers read the class constant .Timeout only in __init__; timer durations are never .Timeout")
    k = 0
    for modn in ("ioflo.aio.tcp.serving", "ioflo.aio.http.serving"):
        m = ctx.repo.modules.get(modn)
        if m is None:
            raise AnchorError("%s not found" % modn)
        ctx.use(m.tree)
        for x in ast.walk(m.tree):
            if isinstance(x, ast.Attribute) and x.attr == "Timeout" and isinstance(x.ctx, ast.Load):
                k += 1
                q = func_qual_of(ctx.repo, x)
                ctx.check(q.endswith(".__init__"), "T5-default", x, "%s read in %s" % (src(x), q.split(":")[1]),
                          "a timer re-armed with the class default instead of the configured timeout makes the configured idle "
                          "timeout ineffective for that connection: it is dropped after the default period of silence")
    ctx.floor("T5-default:reads", k, 4)


def incomers_built_refreshable(ctx):
    """an incomer refreshes its idle timer on traffic because its constructor default says so: the servers that build incomers
    leave that default alone (or pass True)"""
    ctx.rule("T5-refreshable", "Server/ServerTls build Incomer/IncomerTls without a refreshable= argument (or with the constant True)")
    k = 0
    for cn in ("Server", "ServerTls"):
        C = ctx.cls("tcp.serving", cn)
        for mn, f in sorted(C.methods.items()):
            for x in ast.walk(f):
                if isinstance(x, ast.Call) and (dotted(x.func) or "").split(".")[-1] in ("Incomer", "IncomerTls"):
                    k += 1
                    ctx.use(f)
                    kw = [kk for kk in x.keywords if kk.arg == "refreshable"]
                    ctx.check(not kw or (isinstance(kw[0].value, ast.Constant) and kw[0].value.value is True) and not any(kk.arg is None for kk in x.keywords),
                              "T5-refreshable", x, "%s.%s builds %s with the default refreshable" % (cn, mn, dotted(x.func)),
                              "a value handed through from the server (None when the option is not given) switches the refresh off: every "
                              "connection is closed one timeout after it was accepted, however busy it is")
    ctx.floor("T5-refreshable:sites", k, 2)
