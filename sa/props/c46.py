"""C46 - PID controller output and integrator stay within configured limits (bounded-write clause)."""
import ast

from ..model import AnchorError, call_name, const_str, dotted, src
from ..rules import FuncView, suffix_match, defect_scope
from ..callgraph import resolve_call

EXPLANATION = (
    "Bounded write (T9) in ControllerPid.action: on every path past the `lapse <= 0` guard the value last stored "
    "to self.output.value is min(ovmax, max(ovmin, .)) and to self.es.value is min(esmax, max(esmin, .)), with "
    "the *limit as the first argument* of the inner max and of the outer min (python's min/max return their first "
    "argument when the comparison is false, i.e. for NaN, so the limit wins); a clamp helper is followed into its "
    "body and must have the same shape; the error is navigating.wrap2(input - rsp, parm.wrap); the integrator "
    "reset (es = 0.0 and prsp = rsp) is dominated by abs(rsp - prsp) > parm.drsp.")
NOT_DECIDED = ("restart() writing 0.0 when 0 is outside [esmin, esmax] (a configuration question); numeric behaviour; "
               "that esmin <= esmax / ovmin <= ovmax are configured consistently")


def _clamp_shape(repo, fn_module, expr, lo, hi, fn=None, depth=0):
    """is expr == min(hi, max(lo, X)) with limits first; follows a helper function one level"""
    e = expr
    if isinstance(e, ast.Call) and call_name(e) == "min" and len(e.args) == 2 and src(e.args[0]) == hi:
        inner = e.args[1]
        if isinstance(inner, ast.Call) and call_name(inner) == "max" and len(inner.args) == 2 and src(inner.args[0]) == lo:
            return True, ""
        return False, "inner max does not have the lower limit as its first argument"
    if isinstance(e, ast.Call) and call_name(e) == "max" and len(e.args) == 2 and src(e.args[0]) == lo:
        inner = e.args[1]
        if isinstance(inner, ast.Call) and call_name(inner) == "min" and len(inner.args) == 2 and src(inner.args[0]) == hi:
            return True, ""
        return False, "inner min does not have the upper limit as its first argument"
    if depth == 0 and isinstance(e, ast.Call) and fn is not None:
        b = repo.resolve_expr(fn_module, e.func) if dotted(e.func) else None
        cands = [b.target] if b is not None and b.kind == "func" else []
        for cal in cands:
            params = [a.arg for a in cal.args.args]
            if len(params) != len(e.args):
                continue
            bind = {p: src(a) for p, a in zip(params, e.args)}
            rets = [n for n in ast.walk(cal) if isinstance(n, ast.Return) and n.value is not None]
            if len(rets) != 1:
                return False, "clamp helper %s has %d returns" % (cal.name, len(rets))
            plo = [p for p, a in bind.items() if a == lo]
            phi = [p for p, a in bind.items() if a == hi]
            if not plo or not phi:
                return False, "clamp helper is not given both limits"
            ok, why = _clamp_shape(repo, cal._module, rets[0].value, plo[0], phi[0], None, 1)
            return ok, ("helper %s: %s" % (cal.name, why)) if not ok else ""
    return False, "value is not min(upper, max(lower, x))"


def check(ctx):
    limited_shares_written_by_action_only(ctx)
    ctx.rule("T9-bounded", "last store to output.value / es.value is min(hi, max(lo, x)) with the limit first")
    ctx.rule("T9-error", "e = navigating.wrap2(input - rsp, parm.wrap)")
    ctx.rule("T1-reset", "integrator reset dominated by abs(rsp - prsp) > parm.drsp")
    f = ctx.fn("controlling", "ControllerPid.action")
    V = FuncView(ctx, f)
    cfg = V.cfg
    g = V.tests(lambda t: src(t) == "self.lapse <= 0.0")
    V.need(g, "`if self.lapse <= 0.0` guard")
    for attr, lo, hi in (("self.output.value", "self.parm.data.ovmin", "self.parm.data.ovmax"),
                         ("self.es.value", "self.parm.data.esmin", "self.parm.data.esmax")):
        stores = [n for n in V.stores(attr)]
        V.need(stores, "store to %s" % attr)
        # the stores that can be the last one before a normal exit past the guard
        lasts = [s for s in stores if cfg.exit.id in cfg.reachable(s.id, removed_nodes=[x.id for x in stores if x.id != s.id])]
        # reset store (0.0) is allowed only if a clamped store always follows
        for s in lasts:
            v = V.sym(s.ast.value, s, depth=3)
            ok, why = _clamp_shape(ctx.repo, f._module, v, lo, hi, f)
            if not ok:
                # try without substitution (call to helper with local names)
                raw = s.ast.value
                if isinstance(raw, ast.Name):
                    defs, entry = V.reaching_defs(s, raw.id)
                    if len(defs) == 1:
                        d = cfg.nodes[next(iter(defs))]
                        if isinstance(d.ast, ast.Assign):
                            ok, why = _clamp_shape(ctx.repo, f._module, d.ast.value, lo, hi, f)
            ctx.check(ok, "T9-bounded", s.ast, "%s = %s" % (attr, src(v)[:90]),
                      "the value written to %s is not bounded by its limits on every input: %s (with the value first, "
                      "min/max pass a NaN straight through both clamps)" % (attr, why))
        ctx.check(bool(lasts) and V.always_then([b for b, lab in cfg.succ[g[0].id] if lab == "F"], stores), "T9-bounded", f,
                  "every evaluation past the lapse guard writes %s" % attr, "a path that skips the clamped write leaves a stale or unclamped value")
    es = [n for n in cfg.nodes if isinstance(n.ast, ast.Assign) and dotted(n.ast.targets[0]) == "e"]
    ok = bool(es) and src(V.sym(es[0].ast.value, es[0])).replace(" ", "").replace("angle=", "").replace("wrap=", "").replace("self.rsp.value", "rsp") \
        == "navigating.wrap2(self.input.value-rsp,self.parm.data.wrap)"
    ctx.check(ok, "T9-error", es[0].ast if es else f, "e = navigating.wrap2(input - rsp, parm.wrap)", "the error uses the shortest wrapped difference when wrapping is configured")
    t = [x for x in V.cfg.nodes if x.kind == "test" and src(V.sym(x.ast.test, x)).replace(" ", "") in
         ("abs(self.rsp.value-self.prsp.value)>self.parm.data.drsp", "abs(rsp-prsp)>self.parm.data.drsp")]
    resets = [n for n in V.stores("self.es.value") if isinstance(n.ast.value, ast.Constant) and n.ast.value.value == 0.0]
    pr = [n for n in V.stores("self.prsp.value")]
    ok = bool(t) and bool(resets) and all(V.dominated_by_edge([r], t[0], "T") for r in resets) and bool(pr) and all(V.dominated_by_edge([r], t[0], "T") for r in pr)
    ok = ok and V.cfg.always_reaches([t[0].id], [r.id for r in resets] + [b for b, lab in cfg.succ[t[0].id] if lab == "F"])
    ctx.check(ok, "T1-reset", f, "abs(rsp - prsp) > drsp => es = 0.0 and prsp = rsp", "a set point change larger than the threshold resets the integrator")
    # the reset is seen by the accumulation: no local copy of the error sum taken *before* the reset is used after it
    ctx.rule("T1-stale", "a local copy of self.es.value / self.prsp.value read before the reset store is not used after it")
    for attr in ("self.es.value", "self.prsp.value"):
        writes = [n for n in V.stores(attr) if isinstance(n.ast, ast.Assign)]
        reads = [n for n in cfg.nodes if isinstance(n.ast, ast.Assign) and len(n.ast.targets) == 1 and isinstance(n.ast.targets[0], ast.Name)
                 and src(V.sym(n.ast.value, n)) == attr]
        bad = None
        for r in reads:
            x = r.ast.targets[0].id
            reads_x = lambda u: any(isinstance(z, ast.Name) and z.id == x and isinstance(z.ctx, ast.Load) for z in cfg.walk_node(u)) or \
                (isinstance(u.ast, ast.AugAssign) and isinstance(u.ast.target, ast.Name) and u.ast.target.id == x)
            redefs = [d for d in V._def_nodes(x) if d != r.id and not reads_x(cfg.nodes[d])]
            for w in writes:
                if w.id not in cfg.reachable(r.id, removed_nodes=redefs):
                    continue
                if src(V.sym(w.ast.value, w)) == attr or dotted(w.ast.value) == x:
                    continue            # writes the copy itself back
                after = cfg.reachable(w.id, removed_nodes=redefs)
                uses = [u for u in cfg.nodes if u.id in after and u.id != w.id and reads_x(u)]
                if uses:
                    bad = (r, w, uses[0])
        ctx.check(bad is None, "T1-stale", bad[2].ast if bad else f, "no stale local copy of %s is used after it was overwritten" % attr,
                  "the store `%s` is followed by a use of the copy read before it: the reset of the integrator (or of the previous set "
                  "point) has no effect on this evaluation" % (src(bad[1].ast) if bad else ""))
    defect_scope(ctx, "D-scope", [f], max_depth=1, floor=1, label="scope: ControllerPid.action")


def limited_shares_written_by_action_only(ctx):
    """the limits are enforced where action() stores: any other method of the controller that writes the output share (or gives the
    error sum anything but its reset value) publishes an unlimited value"""
    ctx.rule("T4-limited", "ControllerPid: .output.value is stored only by action(); .es.value elsewhere only as the constant 0.0 reset")
    C = ctx.cls("controlling", "ControllerPid")
    k = 0
    for mn, f in sorted(C.methods.items()):
        if mn == "action" or not any(b is f for b in C.node.body):
            continue
        ctx.use(f)
        for x in ast.walk(f):
            if isinstance(x, (ast.Assign, ast.AugAssign)):
                for t in (x.targets if isinstance(x, ast.Assign) else [x.target]):
                    d = src(t)
                    if d in ("self.output.value", "self.es.value") or d.startswith(("self.output[", "self.es[")):
                        k += 1
                        okw = d.startswith("self.es") and isinstance(x, ast.Assign) and isinstance(x.value, ast.Constant) and x.value.value == 0.0
                        ctx.check(okw, "T4-limited", x, "ControllerPid.%s: %s" % (mn, src(x)[:60]),
                                  "a value written here does not pass the ovmin/ovmax (esmin/esmax) clamp of action(): it stays outside the "
                                  "configured limits until the next update with a positive lapse")
            elif isinstance(x, ast.Call) and isinstance(x.func, ast.Attribute) and x.func.attr in ("update", "change") and \
                    src(x.func.value) in ("self.output", "self.es"):
                k += 1
                ctx.bad("T4-limited", x, "ControllerPid.%s: %s" % (mn, src(x)[:60]), "an unlimited value is published outside action()")
    ctx.floor("T4-limited:writes", k, 1)
