"""C01 - every ioflo module imports in a fresh interpreter, in any order."""
from ..importsim import Sim

EXPLANATION = (
    "Whole property decided statically for library modules: a source-level simulation of the "
    "import machinery (sa/importsim.py) executes `import ioflo` and then, from that state, a "
    "separate `import <m>` for every module the package import did not already load; every "
    "import statement must resolve (repo modules from the tree, stdlib modules and their names "
    "from the stdlib *source* of the repo interpreter), and every name / module.attribute chain "
    "evaluated at import time (class bases, decorators, defaults, module-level assignments and "
    "calls, bodies of repo functions called at import time) must be bound at that point of the "
    "sequence, including submodule attributes (pkg.sub needs pkg.sub imported by then) and "
    "partially initialised modules in import cycles.")
NOT_DECIDED = ("availability of optional third-party modules imported under try/except ImportError "
               "(pyserial, simplejson, msgpack, netifaces): a guarded import is allowed to fail; "
               "modules under */test/ (test code, not the library) are parsed but not claimed")
EXHAUSTIVE = True
ASSUMPTIONS = ["stdlib layout = the source tree of the interpreter running the check "
               "(/venv/bin/python, the repository's own interpreter)",
               "any import of an ioflo module executes ioflo/__init__.py first (Python's parent-"
               "package rule), so the only order freedom is which not-yet-loaded module is asked for"]


def check(ctx):
    repo = ctx.repo
    ctx.rule("IMP-resolve", "every import statement executed while importing a module resolves "
             "(module exists; imported name bound in the target, or is a submodule)")
    ctx.rule("IMP-bound", "every Name / module attribute chain evaluated at import time is bound "
             "at that point of the simulated import sequence")
    lib = [m for m in repo.modules.values() if not m.is_test]
    for m in lib:
        ctx.use(m)
    ctx.floor("library-modules", len(lib), 60)
    base = Sim(repo)
    base.import_repo("ioflo")
    sims = [("ioflo", base)]
    rest = [m for m in lib if base.state.get(m.name) != "done"]
    for m in sorted(rest, key=lambda x: x.name):
        s = base.clone()
        s.import_repo(m.name)
        sims.append((m.name, s))
    seen = set()
    nstmts = 0
    for entry, s in sims:
        nstmts += s.import_stmts
        for p in s.problems:
            if p.kind == "note":
                continue
            key = (p.module.relpath if p.module else "?", p.kind, p.construct)
            if key in seen:
                continue
            seen.add(key)
            mod = p.module
            func = (mod.relpath if mod else "?") + ":<module>"
            ctx.bad(p.kind, p.node if p.node is not None else func, p.construct,
                    "%s  [entry: import %s; import chain: %s]" % (p.why, entry, " -> ".join(p.chain)),
                    func=func)
    for entry, s in sims:
        loaded = [n for n in s.order]
        ctx.ok("IMP-resolve+IMP-bound", "entry import %s" % entry,
               "%d module bodies executed symbolically, %d import statements, %d import-time "
               "expressions checked" % (len(loaded), s.import_stmts, s.checked_exprs))
    ctx.extra["entries_simulated"] = len(sims)
    ctx.extra["modules_loaded_by_import_ioflo"] = len(base.order)
    ctx.extra["import_order_of_import_ioflo"] = base.order
    ctx.extra["stdlib_modules_in_must_load_closure"] = len(base.std_loaded)
    ctx.paths += len(sims)
    ctx.floor("entries", len(sims), 10)
    docstring_free_imports(ctx, lib)


def docstring_free_imports(ctx, lib):
    """every interpreter mode is a fresh interpreter too: under -OO (PYTHONOPTIMIZE=2) all __doc__ are None.  Code that runs at
    import time - module level statements and the same-module functions they call - must not treat a __doc__ as a string"""
    import ast
    ctx.rule("IMP-doc", "no import-time code dereferences a __doc__ (None under -OO) without testing it")
    n = 0
    for m in lib:
        tree = m.tree
        funcs = {f.name: f for f in tree.body if isinstance(f, ast.FunctionDef)}
        called = set()
        for st in tree.body:
            if isinstance(st, (ast.FunctionDef, ast.ClassDef)):
                # decorators and class bodies run at import time
                roots = list(st.decorator_list) + ([x for x in st.body if not isinstance(x, ast.FunctionDef)] if isinstance(st, ast.ClassDef) else [])
            else:
                roots = [st]
            for r in roots:
                for x in ast.walk(r):
                    if isinstance(x, ast.Call) and isinstance(x.func, ast.Name) and x.func.id in funcs:
                        called.add(x.func.id)
        scopes = [("<module>", [st for st in tree.body if not isinstance(st, (ast.FunctionDef, ast.ClassDef))])] + \
            [(fn, funcs[fn].body) for fn in sorted(called)]
        for where, body in scopes:
            for st in body:
                for x in ast.walk(st):
                    uses = None
                    if isinstance(x, ast.Attribute) and isinstance(x.value, ast.Attribute) and x.value.attr == "__doc__":
                        uses = x                    # f.__doc__.rstrip
                    elif isinstance(x, ast.BinOp) and any(isinstance(s_, ast.Attribute) and s_.attr == "__doc__" for s_ in (x.left, x.right)):
                        uses = x                    # f.__doc__ + "..."
                    elif isinstance(x, ast.Subscript) and isinstance(x.value, ast.Attribute) and x.value.attr == "__doc__":
                        uses = x
                    if uses is None:
                        continue
                    n += 1
                    guarded = False
                    p = getattr(uses, "_parent", None)
                    while p is not None and not isinstance(p, (ast.FunctionDef, ast.Module)):
                        if isinstance(p, (ast.If, ast.IfExp)) and "__doc__" in ast.unparse(p.test):
                            guarded = True
                        if isinstance(p, ast.BoolOp) and any("__doc__" in ast.unparse(v) for v in p.values[:-1]):
                            guarded = True
                        p = getattr(p, "_parent", None)
                    ctx.check(guarded, "IMP-doc", uses, "%s %s: %s" % (m.relpath, where, ast.unparse(uses)[:60]),
                              "under python -OO every __doc__ is None: this import-time expression raises AttributeError/TypeError and the "
                              "module (and with the eager package imports, `import ioflo`) cannot be imported in that interpreter mode")
    ctx.ok("IMP-doc", "library modules", "%d import-time uses of a __doc__ value" % n)
