"""C01 - every ioflo module imports in a fresh interpreter, in any order."""
from ..importsim import Sim

EXPLANATION = (
    "Whole property decided statically for library modules: a source-level simulation of the "
    "import machinery (sa/importsim.py) executes `import ioflo` and then, from that state, a "
    "separate `import <m>` for every module the package import did not already load; every "
    "import statement must resolve (repo modules from the tree, stdlib modules and their names "
    "from the stdlib *source* of the repo interpreter), and every name / module.attribute chain "
    "evaluated at import time (class bases, decorators, defaults, module-level assignments and "
    "calls, bodies of repo functions called at import time) must be bound at that point of the "
    "sequence, including submodule attributes (pkg.sub needs pkg.sub imported by then) and "
    "partially initialised modules in import cycles.")
NOT_DECIDED = ("availability of optional third-party modules imported under try/except ImportError "
               "(pyserial, simplejson, msgpack, netifaces): a guarded import is allowed to fail; "
               "modules under */test/ (test code, not the library) are parsed but not claimed")
EXHAUSTIVE = True
ASSUMPTIONS = ["stdlib layout = the source tree of the interpreter running the check "
               "(/venv/bin/python, the repository's own interpreter)",
               "any import of an ioflo module executes ioflo/__init__.py first (Python's parent-"
               "package rule), so the only order freedom is which not-yet-loaded module is asked for"]


def check(ctx):
    repo = ctx.repo
    ctx.rule("IMP-resolve", "every import statement executed while importing a module resolves "
             "(module exists; imported name bound in the target, or is a submodule)")
    ctx.rule("IMP-bound", "every Name / module attribute chain evaluated at import time is bound "
             "at that point of the simulated import sequence")
    lib = [m for m in repo.modules.values() if not m.is_test]
    for m in lib:
        ctx.use(m)
    ctx.floor("library-modules", len(lib), 60)
    base = Sim(repo)
    base.import_repo("ioflo")
    sims = [("ioflo", base)]
    rest = [m for m in lib if base.state.get(m.name) != "done"]
    for m in sorted(rest, key=lambda x: x.name):
        s = base.clone()
        s.import_repo(m.name)
        sims.append((m.name, s))
    seen = set()
    nstmts = 0
    for entry, s in sims:
        nstmts += s.import_stmts
        for p in s.problems:
            if p.kind == "note":
                continue
            key = (p.module.relpath if p.module else "?", p.kind, p.construct)
            if key in seen:
                continue
            seen.add(key)
            mod = p.module
            func = (mod.relpath if mod else "?") + ":<module>"
            ctx.bad(p.kind, p.node if p.node is not None else func, p.construct,
                    "%s  [entry: import %s; import chain: %s]" % (p.why, entry, " -> ".join(p.chain)),
                    func=func)
    for entry, s in sims:
        loaded = [n for n in s.order]
        ctx.ok("IMP-resolve+IMP-bound", "entry import %s" % entry,
               "%d module bodies executed symbolically, %d import statements, %d import-time "
               "expressions checked" % (len(loaded), s.import_stmts, s.checked_exprs))
    ctx.extra["entries_simulated"] = len(sims)
    ctx.extra["modules_loaded_by_import_ioflo"] = len(base.order)
    ctx.extra["import_order_of_import_ioflo"] = base.order
    ctx.extra["stdlib_modules_in_must_load_closure"] = len(base.std_loaded)
    ctx.paths += len(sims)
    ctx.floor("entries", len(sims), 10)
