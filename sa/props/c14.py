"""C14 - building any script terminates with success or a script error."""
import ast

from ..model import AnchorError, call_name, const_str, dotted, src, parent, walk_no_nested
from ..rules import FuncView, suffix_match, func_qual_of, MUTATORS
from .. import defects
from ._buildscope import build_scope
from . import _framing

EXPLANATION = (
    "Scope = call-graph closure of Builder.build with ioflo's dynamic dispatch modelled explicitly (dispatch x "
    "every build<Verb>, House.resolve -> presolve/resolve of every tasker class, Frame.resolve -> Act.resolve -> "
    "_resolve/_prepare/_initio/__init__ of every actor class). Over that scope: (T11) every while loop makes "
    "progress on every path back to its test (stores a tested variable, pops/reads from a tested container or "
    "file, or yields), link-chasing loops over .over rely on resolveOverLinks' visited-collection guard, which "
    "must test membership in a collection that grows every iteration; for loops do not grow the collection they "
    "iterate; (T10) every explicit raise in ioflo.base scope functions is a script-attributable error class; "
    "build() catches ResolveError/IOError and re-raises ParseError; (D1-D8, D12) no internal-error construct "
    "(undefined names, unknown self attributes, call-signature mismatches, malformed format strings, "
    "subscripted methods, complex values reaching max/min/int) in any scope function, error messages included.")
NOT_DECIDED = ("absence of TypeError/KeyError/IndexError arising from runtime *values* beyond the modelled "
               "constructs; wall-clock limits; sufficiency of the progress condition for termination (it is a "
               "necessary structural condition checked on every back path)")

ALLOWED_RAISES = {
    "ParseError": "script parse error", "ResolveError": "script resolve error", "CloneError": "script-attributable (clone name collides)",
    "RegisterError": "script-attributable (unknown actor name)", "ParameterError": "script-attributable (duplicate instance name)",
    "ValueError": "literal converters' value error and store path rejections (script-supplied paths)",
}
EXTRA_PROGRESS = {
    ("Builder.build", "line"): ({"nextTokens"}, "the path that does not read a new line consumes the parsed-ahead "
                                "nextTokens (reset to [] at the top of the iteration); with nextTokens empty the next "
                                "iteration must read a line; the rule accepts a back path that consults nextTokens "
                                "(flag correlation not modelled path-sensitively)"),
    ("Logger.createPath", "True"): ({"i"}, "retry counter i changes the candidate directory name each iteration; the "
                                    "loop ends at the first name that does not exist on disk"),
}
PROGRESS_CALLS = {"pop", "popleft", "remove", "clear", "readline", "read", "next", "popitem", "close"}


def _test_vars(test):
    out = set()
    for n in ast.walk(test):
        d = dotted(n) if isinstance(n, (ast.Name, ast.Attribute)) else None
        if d:
            out.add(d)
    return out


def loop_progress(ctx, V, w):
    """T11 on one while-loop test node w: every path T-edge ... back to w passes a progress node"""
    cfg = V.cfg
    tv = _test_vars(w.ast.test)
    const_true = isinstance(w.ast.test, ast.Constant) and bool(w.ast.test.value)

    def progress(n):
        for x in cfg.walk_node(n):
            if isinstance(x, (ast.Name, ast.Attribute)) and isinstance(x.ctx, (ast.Store, ast.Del)):
                d = dotted(x)
                if d and any(d == v or v.startswith(d + ".") or d.startswith(v + ".") for v in tv):
                    return True
            if isinstance(x, (ast.Yield, ast.YieldFrom)):
                return True
            if isinstance(x, ast.Call) and isinstance(x.func, ast.Attribute) and x.func.attr in PROGRESS_CALLS:
                recv = dotted(x.func.value)
                if const_true or (recv and any(recv == v or v.startswith(recv + ".") or recv.startswith(v + ".") for v in tv)) \
                        or x.func.attr in ("readline", "read"):
                    return True
            if n.kind == "for" and False:
                return False
        return False
    body = {id(x) for x in ast.walk(w.ast)}
    inside = {n.id for n in cfg.nodes if id(n.ast) in body and n.copy == w.copy}
    via = [n.id for n in cfg.nodes if n.id in inside and n is not w and progress(n)]
    extra = EXTRA_PROGRESS.get((V.qual.split(":")[1], src(w.ast.test)))
    if extra:
        for n in cfg.nodes:
            if n.id in inside and any(isinstance(x, ast.Name) and x.id in extra[0]
                                      for x in cfg.walk_node(n)):
                via.append(n.id)
        ctx.note("T11 reviewed progress variable for %s `while %s`: %s" % (V.qual, src(w.ast.test), extra[1]))
    outside = [n.id for n in cfg.nodes if n.id not in inside]   # a path that leaves the loop is not a back path
    starts = [b for b, lab in cfg.succ[w.id] if lab == "T"]
    ctx.paths += 1
    for s in starts:
        if s in via:
            continue
        r = cfg.reachable(s, removed_nodes=list(via) + outside)
        # does some node reached (inside the body, no progress yet) have an edge back to the test?
        if any(b == w.id for a in r for b, _ in cfg.succ[a]):
            return False
    return True


def check(ctx):
    repo = ctx.repo
    ctx.rule("T11-progress", "every while loop in scope makes progress on every path back to its test")
    ctx.rule("T11-acyclic", "resolveOverLinks refuses any revisit: its loop tests membership in a collection that "
             "is extended on every iteration; .over is written only by the frame hierarchy methods")
    ctx.rule("T11-for", "no for loop in scope appends to the collection it iterates")
    ctx.rule("T10-raises", "explicit raises in scope (ioflo.base) are ParseError/ResolveError/CloneError/"
             "RegisterError/ParameterError/ValueError; build() re-raises ParseError and turns ResolveError/IOError into False")
    ctx.rule("D-scope", "D1 undefined names, D3 unknown self attributes, D4 signature mismatches, D5 format "
             "strings, D6 subscripted methods, D8, D12 complex reaching max/min/int")
    scope = build_scope(ctx)
    ctx.floor("scope", len(scope), 250)
    transfer_fields_exist(ctx)
    # the outline is also changed through the Frame API (attach/detach/setUnder with its own loop check): same refusal duty
    FrameC = ctx.cls("framing", "Frame")
    for mn in ("attach", "detach", "checkLoop", "setUnder", "resolveOverLinks"):
        mf = FrameC.own_method(mn)
        scope.setdefault(repo.func_qual(mf), mf)
    base = {q: f for q, f in scope.items() if q.startswith("ioflo/base/")}
    for f in scope.values():
        ctx.functions.add(repo.func_qual(f))
        ctx.consulted.add(f._module.relpath)
    # ---- T11
    nwhile = 0
    for q, f in base.items():
        whiles = [n for n in walk_no_nested(f) if isinstance(n, ast.While)]
        fors = [n for n in walk_no_nested(f) if isinstance(n, ast.For)]
        if whiles:
            V = FuncView(ctx, f)
            for w in V.cfg.nodes:
                if w.kind == "test" and isinstance(w.ast, ast.While) and w.copy == 0:
                    nwhile += 1
                    ok = loop_progress(ctx, V, w)
                    ctx.check(ok, "T11-progress", w.ast, "while %s: in %s" % (src(w.ast.test)[:60], q.split(":")[1]),
                              "some path through the loop body returns to the test without changing anything the "
                              "test reads (no store to a tested variable, no pop/read from a tested container or "
                              "file, no yield): the loop cannot terminate on that path",
                              detail="while %s makes progress on every back path" % src(w.ast.test)[:60])
        for fo in fors:
            it = dotted(fo.iter)
            if not it:
                continue
            grow = [c for c in ast.walk(fo) if isinstance(c, ast.Call) and isinstance(c.func, ast.Attribute)
                    and c.func.attr in ("append", "insert", "extend", "add", "appendleft") and dotted(c.func.value) == it]
            if grow:
                ctx.bad("T11-for", fo, "for ... in %s: ... %s" % (it, src(grow[0])[:60]),
                        "the loop appends to the collection it iterates over: it may never end")
    ctx.ok("T11-for", "ioflo/base scope", "%d functions: no for loop grows its own iterable" % len(base))
    ctx.floor("T11-progress:while-loops", nwhile, 40)
    # acyclicity obligations
    ro = ctx.fn("framing", "Frame.resolveOverLinks")
    R = FuncView(ctx, ro)
    w = [n for n in R.cfg.nodes if n.kind == "test" and isinstance(n.ast, ast.While)]
    R.need(w, "climbing loop in resolveOverLinks")
    body = {id(x) for x in ast.walk(w[0].ast)}
    mem = [t for t in R.cfg.nodes if t.kind == "test" and id(t.ast) in body and isinstance(t.ast.test, ast.Compare)
           and isinstance(t.ast.test.ops[0], ast.In) and dotted(t.ast.test.left) == "over"]
    raises = [n for n in R.cfg.nodes if n.kind == "raise"]
    ok = bool(mem) and all(any(R.dominated_by_edge([r], t, "T") for r in raises) for t in mem)
    coll = {dotted(t.ast.test.comparators[0]) for t in mem}
    grows = [n for n in R.cfg.nodes if id(n.ast) in body and any(
        isinstance(x, ast.Call) and isinstance(x.func, ast.Attribute) and x.func.attr in ("append", "add") and
        dotted(x.func.value) in coll and x.args and dotted(x.args[0]) == "over" for x in R.cfg.walk_node(n))]
    ok = ok and bool(grows) and _framing.every_iteration_passes_while(R, w[0], grows) and \
        _framing.every_iteration_passes_while(R, w[0], mem)
    ctx.check(ok, "T11-acyclic", ro, "resolveOverLinks: `over in <visited>` => ResolveError on every iteration, visited grows every iteration",
              "the loop guard of resolveOverLinks only recognises a return to the starting frame (or nothing): a "
              "cycle of `in` links that does not pass through the first frame makes the climb, and every later "
              "outline trace, run forever")
    _framing.writers_in(ctx, "T11-acyclic", "over", {_framing.FR + "Frame.__init__", _framing.FR + "Frame.attach", _framing.FR + "Frame.detach",
                                                      _framing.FR + "Frame.clone", _framing.FR + "Frame.resolveOverLinks",
                                                      "ioflo/base/building.py:Builder.buildFrame", "ioflo/base/building.py:Builder.buildOver"},
                        3, "the over link (the trace loops rely on it being acyclic)")
    # order: outlines are traced only after over links were resolved
    fres = ctx.fn("framing", "Frame.resolve")
    ctx.check("resolveOverLinks" in src(fres), "T11-acyclic", fres, "Frame.resolve resolves over links (cycle check) for every frame",
              "trace loops would climb unchecked links")
    # ---- T10
    nr = 0
    for q, f in base.items():
        for n in walk_no_nested(f):
            if isinstance(n, ast.Raise) and n.exc is not None:
                e = n.exc.func if isinstance(n.exc, ast.Call) else n.exc
                d = dotted(e)
                if d is None:
                    continue
                last = d.split(".")[-1]
                if isinstance(n.exc, ast.Name) and last[0].islower():
                    continue  # re-raise of a caught exception object
                nr += 1
                ctx.check(last in ALLOWED_RAISES, "T10-raises", n, "raise %s in %s" % (d, q.split(":")[1]),
                          "an exception class that is not a script error escapes building")
    ctx.floor("T10-raises:sites", nr, 200)
    b = ctx.fn("building", "Builder.build")
    handlers = {dotted(h.type): h for h in ast.walk(b) if isinstance(h, ast.ExceptHandler) and h.type is not None}
    for cls, want in (("excepting.ResolveError", "return False"), ("IOError", "return False"), ("excepting.ParseError", "raise")):
        h = handlers.get(cls)
        ok = h is not None and ((want == "raise" and isinstance(h.body[-1], ast.Raise) and h.body[-1].exc is None) or
                                (want == "return False" and isinstance(h.body[-1], ast.Return) and
                                 isinstance(h.body[-1].value, ast.Constant) and h.body[-1].value.value is False))
        ctx.check(ok, "T10-raises", h if h is not None else b, "build(): except %s: ... %s" % (cls, want),
                  "build must report %s as a failed build" % cls)
    actor_typestate(ctx, scope)
    # ---- D-scope
    fns = list(scope.values())
    found = defects.run(repo, fns, ("D1", "D1b", "D3", "D4", "D5", "D5b", "D6", "D8"))
    found += complex_flow(repo, [f for q, f in scope.items() if q.startswith("ioflo/base/building.py")])
    badf = set()
    for fd in found:
        badf.add(func_qual_of(repo, fd.node))
        ctx.bad(fd.rule, fd.node, fd.construct, fd.why)
    for q, f in scope.items():
        if q not in badf:
            ctx.ok("D-scope", f, "no internal-error construct in %s" % q)
    first_of_possibly_empty(ctx, base)


def first_of_possibly_empty(ctx, fns):
    """D13: `list(X)[0]`, `X.values()[-1]`, `sorted(X)[0]` .. on a registry or script-dependent collection, without a test that
    it is non-empty on the way: a script that leaves the collection empty (a framer without frames, ..) gets IndexError
    instead of a build error"""
    ctx.rule("D13", "element [k] of a freshly listed collection is taken only under a test that the collection is non-empty")
    n = 0
    for q, f in sorted(fns.items()):
        hits = [x for x in ast.walk(f) if isinstance(x, ast.Subscript) and isinstance(x.ctx, ast.Load) and
                isinstance(x.slice, ast.Constant) and isinstance(x.slice.value, int) and isinstance(x.value, ast.Call) and
                ((call_name(x.value) in ("list", "tuple", "sorted") and len(x.value.args) == 1) or
                 (isinstance(x.value.func, ast.Attribute) and x.value.func.attr in ("values", "keys", "items") and not x.value.args))]
        if not hits:
            continue
        V = FuncView(ctx, f)
        for x in hits:
            n += 1
            inner = x.value.args[0] if x.value.args else x.value.func.value
            if isinstance(inner, ast.Call) and isinstance(inner.func, ast.Attribute) and inner.func.attr in ("values", "keys", "items"):
                inner = inner.func.value
            coll = src(inner)
            node = next((nd for nd in V.cfg.nodes if any(y is x for y in V.cfg.walk_node(nd))), None)
            fs = V.symfacts(node) if node is not None else set()
            guarded = any(coll in f_ and not f_.startswith("not ") for f_ in fs)
            ctx.check(guarded, "D13", x, "%s in %s" % (src(x)[:60], q.split(":")[1]),
                      "`%s` may be empty for some script (nothing on the way tests it): IndexError escapes the builder instead of a "
                      "ParseError/ResolveError naming the offending line" % coll)
    ctx.ok("D13", "ioflo/base scope", "%d element-of-listing sites" % n)


def _is_inst(e, target):
    return isinstance(e, ast.Call) and call_name(e) == "isinstance" and len(e.args) == 2 and src(e.args[0]) == target


def _implies(e, target, when):
    """does `e` being `when` (True/False) imply isinstance(target, ...)"""
    if when:
        if _is_inst(e, target):
            return True
        if isinstance(e, ast.BoolOp) and isinstance(e.op, ast.And):
            return any(_implies(v, target, True) for v in e.values)
        if isinstance(e, ast.UnaryOp) and isinstance(e.op, ast.Not):
            return _implies(e.operand, target, False)
        return False
    if isinstance(e, ast.UnaryOp) and isinstance(e.op, ast.Not):
        return _implies(e.operand, target, True)
    if isinstance(e, ast.BoolOp) and isinstance(e.op, ast.Or):
        return any(_implies(v, target, False) for v in e.values)
    return False


def actor_typestate(ctx, scope):
    """Act.actor is a name string until Act.resolve() replaced it by an Actor instance: every
    `<E>.actor.<attr>` in resolve-time code must be preceded by isinstance(<E>.actor, ...) (test or
    earlier operand of the same and/or chain), by <E>.resolve(), or by an assignment to <E>.actor"""
    ctx.rule("T1-actorstate", "every dereference <E>.actor.<attr> in build scope is dominated by isinstance(<E>.actor, Actor), "
             "<E>.resolve() or an assignment to <E>.actor")
    k = 0
    for q, f in scope.items():
        if not q.startswith("ioflo/base/"):
            continue
        sites = [n for n in walk_no_nested(f) if isinstance(n, ast.Attribute) and isinstance(n.value, ast.Attribute)
                 and n.value.attr == "actor" and isinstance(n.ctx, ast.Load)]
        sites += [n for c in ast.walk(f) if isinstance(c, (ast.GeneratorExp, ast.ListComp, ast.Lambda)) for n in ast.walk(c)
                  if isinstance(n, ast.Attribute) and isinstance(n.value, ast.Attribute) and n.value.attr == "actor"]
        if not sites:
            continue
        V = FuncView(ctx, f)
        for a in sites:
            k += 1
            target = src(a.value)            # '<E>.actor'
            recv = src(a.value.value)        # '<E>'
            # in-expression guard: earlier operand of an enclosing and/or chain
            ok = False
            c, p = a, parent(a)
            while p is not None and not isinstance(p, ast.stmt) and not ok:
                if isinstance(p, ast.BoolOp):
                    idx = [i for i, v in enumerate(p.values) if c is v or c in list(ast.walk(v))]
                    if idx:
                        prior = p.values[:idx[0]]
                        if isinstance(p.op, ast.And):
                            ok = any(_implies(v, target, True) for v in prior)
                        else:
                            ok = any(_implies(v, target, False) for v in prior)
                c, p = p, parent(p)
            nodes = [n for n in V.cfg.nodes if any(x is a for x in V.cfg.walk_node(n))]
            if not ok and nodes:
                for t in V.cfg.nodes:
                    if t.kind != "test":
                        continue
                    e = t.ast.test
                    if _implies(e, target, True) and V.dominated_by_edge(nodes, t, "T"):
                        ok = True
                    elif _implies(e, target, False) and V.dominated_by_edge(nodes, t, "F"):
                        ok = True
                    if ok:
                        break
            if not ok and nodes:
                pre = V.call_nodes(recv + ".resolve") + V.stores(target)
                pre = [x for x in pre if x.id != nodes[0].id]
                ok = bool(pre) and V.dominated(nodes, pre)
            if not ok and not nodes:
                ok = False
            ctx.check(ok, "T1-actorstate", a, "%s in %s" % (src(a), q.split(":")[1]),
                      "%s is still the actor's *name* (a str) until that act has been resolved; this dereference is "
                      "not guarded by isinstance(%s, Actor), %s.resolve() or an assignment: AttributeError while "
                      "building a valid script whose acts are resolved in a different order" % (target, target, recv))
    ctx.floor("T1-actorstate:sites", k, 6)


def complex_flow(repo, fns):
    """D12: a value produced by a *Num converter (may be complex) reaching max/min/int/float or an ordering
    comparison without abs()"""
    out = []
    for f in fns:
        for n in ast.walk(f):
            if isinstance(n, ast.Call) and call_name(n) in ("max", "min", "int", "float", "round"):
                for a in n.args:
                    for x in ast.walk(a):
                        if isinstance(x, ast.Call) and (call_name(x) or "").startswith("Convert2") and (call_name(x) or "").endswith("Num"):
                            # wrapped by abs() between?
                            p = parent(x)
                            wrapped = False
                            while p is not None and p is not n:
                                if isinstance(p, ast.Call) and call_name(p) in ("abs", "max", "min", "int", "float", "round"):
                                    wrapped = True   # abs() makes it real; a nearer sink is reported on its own
                                p = parent(p)
                            if not wrapped:
                                out.append(defects.Finding("D12", n, src(n), "%s may return a complex number (a literal such as 1j "
                                                           "converts); %s() of a complex raises TypeError instead of a parse error "
                                                           "(sibling clauses wrap the value in abs())" % (call_name(x), call_name(n))))
    return out


def transfer_fields_exist(ctx):
    """Builder.prepareSrcDstFields hands buildInit (and the put/copy/set builders) field lists it has made sure exist: the
    callers index the shares with them (`source[sf]`) without a check of their own"""
    from ..rules import path_condition, formula_implies_f, formula_of
    ctx.rule("T2-fields", "prepareSrcDstFields / prepareDataDstFields: every field name returned exists in its share afterwards "
             "(`share[field] = ..` whenever `field not in share`)")
    B = ctx.cls("building", "Builder")
    for mn, pairs in (("prepareSrcDstFields", (("srcFields", "src"), ("dstFields", "dst"))),
                      ("prepareDataDstFields", (("dstFields", "dst"),))):
        f = B.own_method(mn)
        V = FuncView(ctx, f)
        for lst, share in pairs:
            loops = [n for n in V.cfg.nodes if n.kind == "for" and src(V.sym(n.ast.iter, n)) == lst and isinstance(n.ast.target, ast.Name)]
            ok = False
            for lp in loops:
                var = lp.ast.target.id
                body = {b.id for b in V.body_nodes(lp.ast)}
                for n in V.cfg.nodes:
                    if n.id in body and isinstance(n.ast, ast.Assign) and any(
                            isinstance(t, ast.Subscript) and dotted(t.value) == share and dotted(t.slice) == var for t in n.ast.targets):
                        pc = path_condition(V, n)
                        if formula_implies_f(formula_of("%s not in %s" % (var, share)), pc):
                            ok = True
            ctx.check(ok, "T2-fields", f, "%s: for field in %s: if field not in %s: %s[field] = .." % (mn, lst, share, share),
                      "the builders read and write the shares with these field names right away (buildInit: `source[sf]`): a field "
                      "that was only warned about makes Builder.build raise KeyError, which is none of its documented errors")
