"""C30 - HTTP requests and WSGI responses survive the round trip (encoding clauses)."""
import ast

from ..model import AnchorError, call_name, const_str, dotted, src, parent
from ..rules import FuncView, defect_scope
from . import _http

EXPLANATION = (
    "Two encoding clauses: (i) percent-encoding order - every quote/quote_plus call in the HTTP client and "
    "helpers is applied to a single component (a key or a value) *before* joining; a call whose `safe` argument "
    "contains a structural separator (& = ? ;) - i.e. quoting an already joined string - is reported; the query "
    "and form encoders agree with the decoder (quote_plus <-> unquote_plus per value, split on & then on the "
    "first =); (ii) header case-insensitivity - headers are held in lodict on both sides (requester, requestant, "
    "responder, respondent), buildEnviron derives HTTP_* keys with replace('-', '_').upper(), content-type and "
    "content-length map to CONTENT_TYPE/CONTENT_LENGTH.")
EXPLANATION += (
    "  (iii) body framing - the chunked reader consumes `size CRLF data CRLF` incrementally: chunk data and the chunk "
    "end line are read only after the parser waited for those bytes (T1-consume/T1-wait/T1-scan on parseChunk, "
    "parseLine, parseLeader, parseBody), matching packChunk's writer framing; (iv) D1/D3/D4/D5/D6 defect scan over "
    "the query/header helper functions of httping used on the round trip.")
NOT_DECIDED = "value round trip for arbitrary paths, bodies and JSON (runtime)"

SEPARATORS = set("&=?;")


def check(ctx):
    methods_table_complete(ctx)
    percent_coding_agrees(ctx)
    ctx.rule("T7-quote", "no quote/quote_plus with a structural separator marked safe; values quoted before joining")
    ctx.rule("T7-query", "updateQargsQuery / Requester.build encode per value; parseQuery/unquoteQuery decode per value")
    ctx.rule("T6-lodict", "headers are lodicts on both sides; HTTP_* environ keys derived case-insensitively")
    repo = ctx.repo
    ctx.rule("T1-consume", "chunked / fixed-length body bytes are consumed only when complete")
    ctx.rule("T1-scan", "delimiter searches cover the whole unconsumed buffer")
    ctx.rule("T1-wait", "a buffer prefix is read only after that many bytes are present")
    ctx.rule("T6-chunk", "packChunk writes `hex(size) CRLF data CRLF`, the framing parseChunk reads")
    _http.delete_discipline(ctx, "T1-consume")
    _http.scan_offsets(ctx, "T1-scan")
    _http.wait_before_read(ctx, "T1-wait")
    pc = ctx.fn("aio.http.httping", "packChunk")
    ctx.use(pc)
    pieces = []
    for c in ast.walk(pc):
        if isinstance(c, ast.Call) and isinstance(c.func, ast.Attribute) and c.func.attr == "append" and c.args:
            a = c.args[0]
            consts = [x.value for x in ast.walk(a) if isinstance(x, ast.Constant) and isinstance(x.value, (str, bytes))]
            if isinstance(a, ast.Name):
                pieces.append(("name", a.id))
            else:
                pieces.append(("const", [k if isinstance(k, str) else k.decode("latin-1") for k in consts]))
    if len(pieces) < 3 or not any(isinstance(r, ast.Return) for r in ast.walk(pc)):
        raise AnchorError("packChunk no longer builds the chunk from appended pieces; the writer/reader framing rule needs re-reading")
    arg = pc.args.args[0].arg
    ok = len(pieces) == 3 and pieces[0][0] == "const" and any((":x}" in k or "%x" in k) and k.endswith("\r\n") for k in pieces[0][1]) and \
        pieces[1] == ("name", arg) and pieces[2][0] == "const" and "\r\n" in pieces[2][1]
    ctx.check(ok, "T6-chunk", pc, "packChunk: size in hex + CRLF, data, CRLF", "the reader parses the size line as hex and expects a bare CRLF after the data")
    hm = repo.mod("aio.http.httping")
    hm.ns
    helpers = [f for n_, f in hm.funcs.items() if n_ in ("updateQargsQuery", "unquoteQuery", "parseQuery", "packHeader", "packChunk",
                                                         "normalizeHostPort", "httpDate1123", "parseRequestLine", "parseStatusLine")]
    defect_scope(ctx, "D-scope", helpers, max_depth=1, floor=6, label="scope: httping round-trip helpers")
    n = 0
    for modn in ("aio.http.clienting", "aio.http.httping", "aio.http.serving"):
        m = repo.mod(modn)
        ctx.use(m)
        for c in [x for x in ast.walk(m.tree) if isinstance(x, ast.Call) and call_name(x) in ("quote", "quote_plus")]:
            n += 1
            safe = None
            if len(c.args) >= 2:
                safe = const_str(c.args[1])
            for k in c.keywords:
                if k.arg == "safe":
                    safe = const_str(k.value)
            bad = set(safe or "") & SEPARATORS
            ctx.check(not bad, "T7-quote", c, src(c)[:80],
                      "quote with %s marked safe is applied to an already joined string: a key or value that itself contains one of "
                      "these characters is sent unescaped and is split in the wrong place by the server" % sorted(bad))
    ctx.floor("T7-quote:calls", n, 3)
    uq = ctx.fn("aio.http.httping", "updateQargsQuery")
    t = src(uq)
    ctx.check("quote_plus(str(val))" in t and "'&'.join(qargParts)" in t and "unquote_plus(val)" in t and "queryPart.split('=', 1)" in t,
              "T7-query", uq, "updateQargsQuery: split on & then first =, unquote_plus(val); rebuild with quote_plus(val) joined by &", "")
    rb = ctx.cls("aio.http.clienting", "Requester").own_method("build")
    V = FuncView(ctx, rb)
    forms = [nn for nn in V.cfg.nodes if isinstance(nn.ast, ast.Assign) and dotted(nn.ast.targets[0]) == "formParts" and isinstance(nn.ast.value, ast.ListComp)]
    ok = bool(forms)
    for f_ in forms:
        elt = f_.ast.value.elt
        txt = src(elt)
        ok = ok and "quote_plus" in txt and txt.count("quote_plus") >= 2
    joined_quotes = [c for c in ast.walk(rb) if isinstance(c, ast.Call) and call_name(c) in ("quote", "quote_plus") and c.args and dotted(c.args[0]) == "form"]
    ctx.check(ok and not joined_quotes, "T7-query", rb, "Requester.build url-encodes each form key and value before joining with &",
              "form values containing & or = are corrupted when the joined body is quoted as a whole")
    for modn, cn, attr in (("aio.http.clienting", "Requester", "headers"), ("aio.http.serving", "Responder", "headers"), ("aio.http.httping", "Parsent", "headers")):
        c = ctx.cls(modn, cn)
        sts = [x for m_ in c.methods.values() for x in ast.walk(m_) if isinstance(x, ast.Assign) and dotted(x.targets[0]) == "self." + attr]
        def is_lod(v):
            if isinstance(v, ast.Call) and call_name(v) == "lodict":
                return True
            if isinstance(v, ast.IfExp):
                return is_lod(v.body) and is_lod(v.orelse)
            return isinstance(v, ast.Constant) and v.value is None
        ok = bool(sts) and all(is_lod(x.value) for x in sts) and any(not isinstance(x.value, ast.Constant) for x in sts)
        ctx.check(ok, "T6-lodict", c.node, "%s.%s is always a lodict (%d assignments)" % (cn, attr, len(sts)), "headers must be case-insensitive")
    for modn, cn in (("aio.http.serving", "Requestant"), ("aio.http.clienting", "Respondent")):
        ph = ctx.cls(modn, cn).own_method("parseHead")
        ctx.check("self.headers = lodict()" in src(ph) and "self.headers.update(headers)" in src(ph), "T6-lodict", ph, "%s.parseHead keeps headers in a lodict" % cn, "")
    pl = ctx.fn("aio.http.httping", "parseLeader")
    ctx.check("lodict()" in src(pl), "T6-lodict", pl, "parseLeader collects into a lodict", "")
    be = ctx.cls("aio.http.serving", "Valet").own_method("buildEnviron")
    B = FuncView(ctx, be)
    env = {}        # constant key -> value by value;  computed keys under "*"
    for n in B.cfg.nodes:
        if isinstance(n.ast, ast.Assign) and isinstance(n.ast.targets[0], ast.Subscript) and src(B.sym(n.ast.targets[0].value, n)) in ("environ", "odict()"):
            k = n.ast.targets[0].slice
            if const_str(k) is not None:
                env[const_str(k)] = src(B.sym(n.ast.value, n))
            else:
                env.setdefault("*", []).append((n, src(B.sym(k, n, depth=3))))
    loops = [h for h in B.cfg.nodes if h.kind == "for" and src(B.sym(h.ast.iter, h)) == "requestant.headers.items()"]
    okb = env.get("CONTENT_TYPE", "").startswith("requestant.headers.get('content-type'") and env.get("CONTENT_LENGTH") == "str(requestant.length)"
    okb = okb and bool(loops) and any(k.replace('"', "'") == "'HTTP_' + key.replace('-', '_').upper()" and
                                      id(n.ast) in {id(x) for x in ast.walk(loops[0].ast)} for n, k in env.get("*", []))
    ctx.check(okb, "T6-lodict", be, "buildEnviron: HTTP_<NAME> keys, CONTENT_TYPE, CONTENT_LENGTH", "a consistent WSGI environment")
    # JSON bodies: what json.dumps emits must survive the bytes conversion that follows it.  ns2b() encodes ISO-8859-1, so the
    # text must be pure ASCII (ensure_ascii left at its default) unless it is encoded as UTF-8 explicitly
    ctx.rule("T9-json", "json.dumps(.., ensure_ascii=False) is never converted to bytes with ns2b()/latin-1")
    nj = 0
    for modn in ("aio.http.clienting", "aio.http.serving", "aio.http.httping"):
        m = ctx.repo.mod(modn)
        ctx.use(m)
        for x in ast.walk(m.tree):
            if isinstance(x, ast.Call) and call_name(x) in ("json.dumps", "dumps"):
                nj += 1
                raw = any(k.arg == "ensure_ascii" and not (isinstance(k.value, ast.Constant) and k.value.value is True) for k in x.keywords)
                p = getattr(x, "_parent", None)
                latin = isinstance(p, ast.Call) and call_name(p) in ("ns2b",) or \
                    (isinstance(p, ast.Attribute) and p.attr == "encode" and isinstance(getattr(p, "_parent", None), ast.Call) and
                     any(const_str(a) and const_str(a).lower().replace("-", "") in ("iso88591", "latin1", "ascii") for a in p._parent.args))
                ctx.check(not (raw and latin), "T9-json", x, "json body keeps ensure_ascii (or is encoded as utf-8): %s" % src(p if isinstance(p, ast.Call) else x)[:70],
                          "non-ASCII characters in the JSON text are sent as Latin-1 bytes under `charset=utf-8` (undecodable by the peer) "
                          "or make the encoder raise UnicodeEncodeError: the body does not survive the round trip")
    ctx.floor("T9-json:sites", nj, 2)
    plus_decoders(ctx, "T7-query")


def plus_decoders(ctx, rule):
    """the encoders (updateQargsQuery, Requester.build) write spaces as `+` (quote_plus): a query decoder that does not turn
    `+` back into a space (plain unquote) may exist but must not be called on a request/redirect path (shared with C34)"""
    hm = ctx.repo.mod("aio.http.httping")
    ctx.use(hm)
    plain = set()
    for f in hm.tree.body:
        if isinstance(f, ast.FunctionDef) and "query" in f.name.lower():
            calls = {call_name(x) for x in ast.walk(f) if isinstance(x, ast.Call)}
            if "unquote" in calls and "unquote_plus" not in calls:
                plain.add(f.name)
    n = 0
    for modn in ("aio.http.clienting", "aio.http.serving", "aio.http.httping"):
        m = ctx.repo.mod(modn)
        ctx.use(m)
        for x in ast.walk(m.tree):
            if isinstance(x, ast.Call) and (call_name(x) or "").split(".")[-1] in plain:
                n += 1
                ctx.bad(rule, x, src(x)[:80], "this query decoder uses unquote (not unquote_plus): a `+` written by the encoder for a space "
                        "stays a literal plus and is re-encoded as %2B, so the query that arrives differs from the one sent")
    ctx.ok(rule, "ioflo/aio/http", "no call of a query decoder that keeps `+` literal (%s); %d call(s) found" % (sorted(plain) or "none defined", n))
    # (v) the response framing rules of C31 (content-length xor chunked, terminating chunk, re-armed responder): a response whose
    # framing is wrong does not reach the client with the same body
    from . import c31
    c31.responder_framing(ctx)
    response_owns_its_body(ctx)


def response_owns_its_body(ctx):
    """Respondent.parseBody refills one bytearray in place for every response; what Patron.serviceResponse puts into the
    response entry under 'body' (and 'headers') must therefore be a copy, or earlier responses change when later ones arrive"""
    from ..rules import _fresh
    ctx.rule("T4-alias", "Patron.serviceResponse stores copies of the respondent's body and headers in the response entry")
    f = ctx.cls("aio.http.clienting", "Patron").own_method("serviceResponse")
    V = FuncView(ctx, f)
    n = 0
    for nd in V.cfg.nodes:
        for t in V.cfg.walk_node(nd):
            if isinstance(t, ast.Tuple) and len(t.elts) == 2 and const_str(t.elts[0]) in ("body", "headers") and \
                    "respondent" in src(V.sym(t.elts[1], nd)):
                n += 1
                v = V.sym(t.elts[1], nd)
                ok = _fresh(v) or (isinstance(v, ast.Call) and (call_name(v) or "").split(".")[-1] in ("copy", "deepcopy", "bytes", "bytearray", "lodict", "odict"))
                ctx.check(ok, "T4-alias", t, "response[%r] = %s" % (const_str(t.elts[0]), src(v)[:50]),
                          "the respondent reuses (clears and refills in place) the object stored here: a response read after the next "
                          "one was parsed shows the later response's %s" % const_str(t.elts[0]))
    ctx.floor("T4-alias:entries", n, 2)
    chunked_before_length(ctx)


def chunked_before_length(ctx):
    """Transfer-Encoding: chunked decides the body framing before any length does (RFC 7230 3.3.3; parseHead forces length 0 for
    204/304/HEAD even when the response is chunked): the chunk reader runs iff .chunked, the fixed-length read only when not"""
    from ..rules import group_condition, formula_equiv
    ctx.rule("T3-framing-order", "parseBody: chunk parsing iff self.chunked; fixed-length read only if not chunked")
    for modn, cn in (("aio.http.clienting", "Respondent"), ("aio.http.serving", "Requestant")):
        f = ctx.cls(modn, cn).own_method("parseBody")
        V = FuncView(ctx, f)
        ch = V.need(V.call_nodes("httping.parseChunk"), "parseChunk(...) in %s.parseBody" % cn)
        ch = [min(ch, key=lambda n: getattr(n.ast, "lineno", 0))]      # entry into the chunk reader (later calls sit in its loops)
        fx = [n for n in V.cfg.nodes if isinstance(n.ast, ast.Assign) and dotted(n.ast.targets[0]) == "self.body" and
              src(n.ast.value) == "self.msg[:self.length]"]
        V.need(fx, "fixed-length read in %s.parseBody" % cn)
        # measured from the point both framings share (after the already-parsed / bad-length guards and the body reset)
        both = group_condition(V, ch + fx, by_value=False)
        from ..rules import formula_implies
        okc = formula_implies(group_condition_from(V, ch, ch + fx), "self.chunked")
        okf = formula_implies(group_condition_from(V, fx, ch + fx), "not self.chunked")
        ctx.check(okc and okf, "T3-framing-order", f, "%s.parseBody: chunks iff chunked; msg[:length] only when not chunked" % cn,
                  "a response that is chunked *and* has a (forced) length - 204/304/HEAD answered by a server that chunks everything - "
                  "leaves its terminating `0 CRLF CRLF` in the buffer: the next response on the connection starts with it and is garbled")


def group_condition_from(view, nodes, group):
    """condition of `nodes`, measured from the nearest common dominator of the larger `group`"""
    from ..rules import path_condition
    cfg = view.cfg
    ids = {n.id for n in group}
    cands = [d for d in cfg.nodes if d.id not in ids and all(n.id in cfg.reachable(d.id) and view.dominated([n], [d]) for n in group)]
    best = None
    for d in cands:
        if all(o.id == d.id or view.dominated([d], [o]) for o in cands):
            best = d
    start = [best.id] if best is not None else [cfg.entry.id]
    return ("or", [path_condition(view, n, start=start, by_value=False) for n in nodes])


_PCT_FUNCS = ("quote", "unquote", "quote_plus", "unquote_plus", "parse_qs", "parse_qsl", "urlencode")


def _pct_codec(x):
    """(function name, encoding named) for a percent-coding call that names a codec, else None"""
    if isinstance(x, ast.Call) and (dotted(x.func) or "").split(".")[-1] in _PCT_FUNCS:
        for k in x.keywords:
            if k.arg in ("encoding", "errors"):
                return (dotted(x.func), src(k.value))
        name = dotted(x.func).split(".")[-1]
        if name in ("unquote", "unquote_plus") and len(x.args) > 1:
            return (dotted(x.func), src(x.args[1]))
        if name in ("quote", "quote_plus") and len(x.args) > 2:
            return (dotted(x.func), src(x.args[2]))
    return None


def percent_coding_agrees(ctx):
    """client and server percent-code paths, query and form values with urllib's default codec (utf-8) on both sides; a call
    that names another codec on one side only turns every non-ASCII character into mojibake on the way through"""
    ctx.rule("T7-codec", "no quote/unquote/quote_plus/unquote_plus/parse_qs call in ioflo.aio.http names an encoding other than utf-8")
    probe = ast.parse("a = unquote(p, encoding='iso-8859-1')\nb = quote(p, '/', 'latin-1')\nc = unquote(p)")
    if sum(1 for x in ast.walk(probe) if _pct_codec(x)) != 2:
        raise AnchorError("T7-codec matcher no longer recognises its positive examples")
    k = 0
    for modn in ("ioflo.aio.http.clienting", "ioflo.aio.http.serving", "ioflo.aio.http.httping"):
        m = ctx.repo.modules.get(modn)
        if m is None:
            raise AnchorError("%s not found" % modn)
        ctx.use(m.tree)
        for x in ast.walk(m.tree):
            if isinstance(x, ast.Call) and (dotted(x.func) or "").split(".")[-1] in _PCT_FUNCS:
                k += 1
                c = _pct_codec(x)
                ctx.check(c is None or c[1].strip("'\"").lower().replace("_", "-") in ("utf-8", "utf8", "strict"), "T7-codec", x,
                          "%s uses the default codec" % src(x)[:60],
                          "the peer percent-codes with utf-8: a path or value decoded as latin-1 arrives as mojibake "
                          "(`/héllo` -> `/hÃ©llo`) although every byte was transported intact")
    ctx.floor("T7-codec:calls", k, 6)


HTTP_METHODS = {"GET", "HEAD", "PUT", "PATCH", "POST", "DELETE", "OPTIONS", "TRACE", "CONNECT"}


def methods_table_complete(ctx):
    """the client emits any method it is given; the server accepts only what httping.METHODS lists (parseRequestLine raises
    BadMethod otherwise): the table must list every method of the property"""
    from ..rules import module_assign
    ctx.rule("T6-methods", "httping.METHODS lists GET HEAD PUT PATCH POST DELETE OPTIONS TRACE CONNECT")
    hm = ctx.repo.mod("aio.http.httping")
    ctx.use(hm)
    v = module_assign(hm, "METHODS")
    got = {e.value for e in getattr(v, "elts", []) if isinstance(e, ast.Constant) and isinstance(e.value, str)} if v is not None else set()
    ctx.check(HTTP_METHODS <= got, "T6-methods", v if v is not None else hm.tree, "METHODS = %s" % sorted(got),
              "a request with a method missing from the table is rejected by the server's request-line parser (BadMethod): the WSGI "
              "application is never called and the client gets no response - missing: %s" % sorted(HTTP_METHODS - got))
