"""C18 - the data store tree stays well formed under any operation sequence."""
import ast

from ..model import AnchorError, call_name, const_str, dotted, src, walk_no_nested
from ..rules import FuncView, suffix_match
from . import _framing

EXPLANATION = (
    "Failure atomicity (T8) of Store.add/addNode/change: no CFG path `mutation ... raise` except the reviewed "
    "isinstance-after-setdefault idiom; empty-segment validation dominates the first creating call; existing "
    "entries are tested by membership/identity (`in`, `is None`), never by truthiness (empty nodes and field-less "
    "shares are falsy); sibling guard (T7): every descent loop over path levels refuses to index into a Share; "
    "all six path functions normalise with strip('.') + split('.'); nodes are named '.'.join(levels[:depth]) and "
    "create/createNode fall back to add/addNode only when the fetch returned None.")
NOT_DECIDED = "`returns the object most recently placed` over histories (needs dict semantics at runtime)"

MUTATORS = ("setdefault", "__setitem__", "update", "pop", "clear")


def _fresh_locals(fn):
    """locals that only ever hold a list/dict built in this function (split(), list(), a display, a slice): mutating them
    is not a mutation of the store"""
    defs = {}
    for x in ast.walk(fn):
        if isinstance(x, ast.Assign) and len(x.targets) == 1 and isinstance(x.targets[0], ast.Name):
            defs.setdefault(x.targets[0].id, []).append(x.value)
        elif isinstance(x, (ast.For, ast.comprehension)):
            for t in ast.walk(x.target):
                if isinstance(t, ast.Name):
                    defs.setdefault(t.id, []).append(None)
    params = {a.arg for a in fn.args.args + fn.args.kwonlyargs}

    def fresh(v):
        if v is None:
            return False
        if isinstance(v, (ast.List, ast.Dict, ast.ListComp, ast.DictComp)):
            return True
        if isinstance(v, ast.Name) and v.id in out:
            return True
        if isinstance(v, ast.Call) and (call_name(v) in ("list", "dict", "sorted") or
                                        (isinstance(v.func, ast.Attribute) and v.func.attr in ("split", "rsplit", "splitlines", "copy"))):
            return True
        if isinstance(v, ast.Subscript) and isinstance(v.slice, ast.Slice):
            return fresh(v.value) or (isinstance(v.value, ast.Name) and v.value.id in out)
        return False
    out = set()
    for _ in range(3):
        for name, vs in defs.items():
            if name not in params and vs and all(fresh(v) for v in vs):
                out.add(name)
    return out


def _mutation_nodes(V):
    out = []
    fresh = _fresh_locals(V.fn)
    for n in V.cfg.nodes:
        for x in V.cfg.walk_node(n):
            if isinstance(x, ast.Call) and isinstance(x.func, ast.Attribute) and x.func.attr in MUTATORS:
                if isinstance(x.func.value, ast.Name) and x.func.value.id in fresh:
                    continue
                out.append((n, x))
            elif isinstance(x, ast.Subscript) and isinstance(x.ctx, (ast.Store, ast.Del)):
                out.append((n, x))
            elif isinstance(x, ast.Call) and suffix_match(call_name(x), "changeStore"):
                out.append((n, x))
    return out


def check(ctx):
    names_kept_as_given(ctx)
    ctx.rule("T8-atomic", "Store.add/addNode/change: no path from a mutation of the tree to a raise (reviewed: "
             "isinstance test on the value setdefault just returned)")
    ctx.rule("T1-empty", "empty path segments are rejected before the first creating call")
    ctx.rule("T1-truthy", "existing entries are never tested by truthiness in the store's path functions")
    ctx.rule("T7-share-leaf", "each descent loop of add/addNode/change/fetch/fetchShare/fetchNode tests isinstance(.., Share)")
    ctx.rule("T7-normalise", "path functions split name.strip('.') on '.'")
    change_replaces_shares_only(ctx)
    ctx.rule("T4-lookup", "Store.fetch/fetchShare/fetchNode are pure lookups: they write nothing on the store (no memo of earlier results)")
    MUTS = {"setdefault", "update", "pop", "clear", "append", "extend", "insert", "remove", "popitem", "add", "discard", "__setitem__"}
    for lname in ("fetch", "fetchShare", "fetchNode"):
        lf = ctx.cls("storing", "Store").own_method(lname)
        bad = []
        for x in ast.walk(lf):
            if isinstance(x, (ast.Attribute, ast.Subscript)) and isinstance(x.ctx, (ast.Store, ast.Del)) and src(x).startswith("self."):
                bad.append(src(x)[:50])
            elif isinstance(x, ast.Call) and isinstance(x.func, ast.Attribute) and x.func.attr in MUTS and src(x.func.value).startswith("self."):
                bad.append(src(x)[:50])
        ctx.check(not bad, "T4-lookup", lf, "Store.%s writes nothing%s" % (lname, (": " + bad[0]) if bad else ""),
                  "a remembered lookup result outlives the entry it names: after change() replaces the share (or a later add "
                  "creates the path) the lookup keeps returning the old object, not the one most recently placed")
    ctx.rule("T9-names", "created nodes are named '.'.join(levels[:depth]); create/createNode add only on None")
    S = ctx.cls("storing", "Store")
    for name in ("add", "addNode", "change"):
        f = S.own_method(name)
        V = FuncView(ctx, f)
        cfg = V.cfg
        muts = _mutation_nodes(V)
        raises = [n for n in cfg.nodes if n.kind == "raise"]
        V.need(raises, "raise statements in Store.%s" % name)
        if name != "change":
            V.need([m for m in muts if "Node(" in src(m[0].ast)], "node-creating statement in Store.%s" % name)
        for mn, mx in muts:
            after = cfg.reachable(mn.id) - {mn.id}
            for r in raises:
                if r.id not in after:
                    ctx.ok("T8-atomic", r.ast, "Store.%s: `%s` not reachable after `%s`" % (name, src(r.ast)[:50], src(mx)[:40]))
                    continue
                # reviewed idioms (the mutation is the creation of a *Node*):
                #  1. raise under isinstance(<walked entry>, Share): a freshly created Node is never a Share
                #  2. raise under `tail in node`: a tail can pre-exist only in a pre-existing node; once a level was
                #     created by this call the last node is new and empty
                reviewed = False
                if "Node(" in src(mn.ast):
                    for t in cfg.nodes:
                        if t.kind != "test":
                            continue
                        e = t.ast.test
                        is1 = isinstance(e, ast.Call) and call_name(e) == "isinstance" and len(e.args) == 2 and src(e.args[1]) == "Share"
                        is2 = src(e) == "tail in node"
                        if (is1 or is2) and V.dominated_by_edge([r], t, "T"):
                            reviewed = True
                ctx.check(reviewed, "T8-atomic", r.ast, "Store.%s: `%s` reachable after mutation `%s`" % (name, src(r.ast)[:60], src(mx)[:50]),
                          "a rejected operation raises after the store tree was already modified: the store is not left unchanged",
                          detail="reviewed: raise under isinstance(<setdefault result>, Share): a freshly created Node is never a "
                                 "Share, so this raise fires only when nothing was created")
        # T1-empty
        if name in ("add", "addNode"):
            creators = [mn for mn, mx in muts if "Node(" in src(mn.ast)]
            def _is_empty_test(t):
                e = t.ast.test
                if isinstance(e, ast.UnaryOp) and isinstance(e.op, ast.Not):
                    e = e.operand
                if src(t.ast.test) == "not level":
                    return True
                if isinstance(e, ast.Call) and call_name(e) == "all" and len(e.args) == 1:
                    return ".split('.')" in src(V.sym(e.args[0], t)) or src(e.args[0]) == "levels"
                return False
            emp = [t for t in cfg.nodes if t.kind == "test" and _is_empty_test(t)]
            V.need(emp, "empty-segment test in Store.%s" % name)
            ok = any(V.dominated(creators, [t]) and not (set(V.ids(creators)) & cfg.reachable(cfg.entry.id, removed_nodes=[t.id]))
                     and any(V.dominated_by_edge([r], t, "T") for r in raises) and
                     not any(t.id in (cfg.reachable(c.id) - {c.id}) for c in creators) for t in emp)
            ctx.check(ok, "T1-empty", f, "Store.%s: empty segment rejected before any node is created" % name,
                      "a path with an empty segment (a..b) is rejected only after the nodes before the empty segment were "
                      "created: a rejected operation changes the store")
        # T1-truthy
        for t in cfg.nodes:
            if t.kind != "test":
                continue
            e = t.ast.test
            bare = e.operand if isinstance(e, ast.UnaryOp) and isinstance(e.op, ast.Not) else e
            if isinstance(bare, ast.Name) and bare.id in ("node", "child", "nos", "share", "existing", "entry"):
                ctx.bad("T1-truthy", t.ast, src(e), "an entry of the store tree is tested by truthiness: an empty Node and a "
                        "Share without fields are falsy, so an existing entry is treated as missing and overwritten")
        ctx.ok("T1-truthy", f, "Store.%s: no truthiness test on tree entries" % name)
    # sibling guard
    def _descent_loops(W):
        """loops that walk the levels of a dotted path: the iterable is, by value, <path>.strip('.').split('.') (or a slice of it)"""
        out = []
        for n in W.cfg.nodes:
            if n.kind != "for":
                continue
            it = n.ast.iter
            if isinstance(it, ast.Call) and call_name(it) == "enumerate" and it.args:
                it = it.args[0]
            v = src(W.sym(it, n)).replace('"', "'").replace(" ", "")
            if ".strip('.').split('.')" in v or "levels" in src(n.ast.iter):
                out.append((n, v))
        return out

    for name in ("add", "addNode", "change", "fetch", "fetchShare", "fetchNode"):
        f = S.own_method(name)
        V = FuncView(ctx, f)
        loops = _descent_loops(V)
        if not loops:
            # delegation: the walk lives in one sibling method of Store that is called with the path; judge the walk there
            cands = []
            for n_, c_ in [(n_, c_) for n_ in V.cfg.nodes for c_ in V.cfg.walk_node(n_) if isinstance(c_, ast.Call)]:
                if isinstance(c_.func, ast.Attribute) and dotted(c_.func.value) == "self" and c_.func.attr in S.methods and \
                        [src(a) for a in c_.args] + [src(k.value) for k in c_.keywords] == ["name"]:
                    cands.append(S.methods[c_.func.attr])
            cands = [c for c in cands if _descent_loops(FuncView(ctx, c))]
            if len({id(c) for c in cands}) == 1:
                f = cands[0]
                V = FuncView(ctx, f)
                loops = _descent_loops(V)
        V.need(loops, "descent loop in Store.%s" % name)
        h, itv = loops[0]
        inside = {id(x) for x in ast.walk(h.ast)}
        tests = [t for t in V.cfg.nodes if t.kind == "test" and id(t.ast) in inside and
                 isinstance(t.ast.test, ast.Call) and call_name(t.ast.test) == "isinstance" and src(t.ast.test.args[1]) == "Share"]
        ok = bool(tests) and _framing.every_iteration_passes(V, h, tests)
        ctx.check(ok, "T7-share-leaf", f, "Store.%s: every descent step tests isinstance(.., Share)" % name,
                  "the path walk indexes into a Share as if it were a node: a lookup below a share returns a field value or "
                  "raises TypeError, and an add below a share would turn it into a node")
        # the list the walk iterates is <name>.strip('.').split('.'), whatever local(s) carry it
        pname = f.args.args[1].arg if len(f.args.args) > 1 else "name"
        base = itv.split("[")[0] if itv.endswith("]") and ".split('.')[" in itv else itv
        ok = base in ("%s.strip('.').split('.')" % pname, "share.name.strip('.').split('.')")
        ctx.check(ok, "T7-normalise", f, "Store.%s walks %s" % (name, itv),
                  "leading/trailing dots must not change which entry a path denotes")
    for name in ("add", "addNode"):
        f = S.own_method(name)
        sd = [n for n in ast.walk(f) if isinstance(n, ast.Call) and isinstance(n.func, ast.Attribute) and n.func.attr == "byName"]
        ok = bool(sd) and all(len(c.args) == 1 and src(c).replace(" ", "") == "Node().byName('.'.join(levels[:depth]))" for c in sd)
        V = FuncView(ctx, f)
        inc = [n for n in V.cfg.nodes if isinstance(n.ast, ast.AugAssign) and dotted(n.ast.target) == "depth"]
        sdn = V.cfg.find(lambda x: isinstance(x, ast.Call) and isinstance(x.func, ast.Attribute) and x.func.attr == "byName")
        hdrs = [n for n in V.cfg.nodes if n.kind == "for" and
                any(id(c.ast) in {id(y) for y in ast.walk(n.ast)} for c in sdn)]
        enum = [h for h in hdrs if isinstance(h.ast.iter, ast.Call) and call_name(h.ast.iter) == "enumerate" and
                isinstance(h.ast.target, ast.Tuple) and dotted(h.ast.target.elts[0]) == "depth" and
                len(h.ast.iter.args) == 2 and src(h.ast.iter.args[1]) == "1"]
        if enum and not inc:
            pass        # depth counted by enumerate(levels[:-1], 1): one step per level by construction
        else:
            ok = ok and bool(inc) and bool(hdrs) and V.dominated(sdn, inc)
            # the depth counter advances exactly once per level walked, whether or not a node is created at that level
            for h in hdrs:
                paths = V.cfg.paths(h.id, [h.id], max_visits=2, labels_block=("done",))
                ctx.paths += len(paths)
                incs = {n.id for n in inc}
                ok = ok and bool(paths) and all(sum(1 for i in p[1:-1] if i in incs) == 1 for p in paths if len(p) > 2)
        ctx.check(ok, "T9-names", f, "Store.%s names new nodes '.'.join(levels[:depth]) with depth advanced first" % name,
                  "every node must record its own dotted path as its name")
    for name, fetch, adder in (("create", "self.fetchShare", "self.add"), ("createNode", "self.fetchNode", "self.addNode")):
        f = S.own_method(name)
        V = FuncView(ctx, f)
        t = V.tests(lambda t: isinstance(t, ast.Compare) and isinstance(t.ops[0], ast.IsNot) and src(t.comparators[0]) == "None")
        ad = V.call_nodes(adder)
        ok = bool(t) and bool(ad) and V.dominated_by_edge(ad, t[0], "F") and bool(V.call_nodes(fetch))
        ctx.check(ok, "T9-names", f, "Store.%s adds only when %s returned None (identity test)" % (name, fetch),
                  "create must return the existing entry, never replace it; empty containers are falsy so the test must be `is not None`")
    bn = ctx.fn("storing", "Node.byName")
    ctx.check("self.name = name" in src(bn) or "self._name = name" in src(bn), "T9-names", bn, "Node.byName stores the name", "")


def names_kept_as_given(ctx):
    """the store validates and places an entry by its .name (Store.add / change / addNode read share.name, node.name): the name
    an entry carries must be the one the caller asked for, so that an invalid request is seen as invalid"""
    ctx.rule("T9-rawname", "Share.__init__ / Node.__init__ keep the given name unchanged (self.name = name)")
    for cn, mname, attr in (("Share", "__init__", "self.name"), ("Node", "name", "self._name")):
        C = ctx.cls("storing", cn)
        f = C.methods.get(mname)      # Node.name: the property setter (the later definition of the name)
        if f is None or (cn == "Node" and len(f.args.args) != 2):
            raise AnchorError("%s.%s not found" % (cn, mname))
        ctx.use(f)
        V = FuncView(ctx, f)
        st = [n for n in V.stores(attr)]
        pname = f.args.args[1].arg if cn == "Node" else "name"
        ok = bool(st) and all(isinstance(n.ast, ast.Assign) and src(V.sym(n.ast.value, n)) == pname for n in st)
        ctx.check(ok, "T9-rawname", st[0].ast if st else f, "%s.%s: %s = name" % (cn, mname, attr),
                  "a name that is cleaned up on the way in (empty segments dropped, dots collapsed) passes the store's own check "
                  "for empty path segments: create('a..b') is accepted and files the share at a.b, while fetch('a..b') still "
                  "refuses the path")


def change_replaces_shares_only(ctx):
    """Store.change puts the share where a *share* of that name already is: the final placement is guarded by
    `tail in node` and `isinstance(node[tail], Share)` (replacing a node would drop its whole subtree)"""
    S = ctx.cls("storing", "Store")
    f = S.own_method("change")
    V = FuncView(ctx, f)
    puts = [n for n in V.cfg.nodes if isinstance(n.ast, ast.Assign) and isinstance(n.ast.targets[0], ast.Subscript) and
            dotted(n.ast.targets[0].value) == "node"]
    V.need(puts, "node[tail] = share in Store.change")
    ok = True
    for p in puts:
        fs = V.symfacts(p)
        key = src(p.ast.targets[0].slice)
        ok = ok and ("%s in node" % key) in fs and any(f_.startswith("isinstance(node[%s], Share)" % key) for f_ in fs)
    ctx.check(ok, "T7-share-leaf", f, "Store.change replaces only an existing *share* (tail in node and isinstance(node[tail], Share))",
              "changing a path that currently holds a node replaces the node and its whole subtree by the share: every share "
              "placed below it disappears from lookups")
