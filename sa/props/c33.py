"""C33 - server-sent events parse the same for any split and line ending (delimiter-selection clause)."""
import ast

from ..model import AnchorError, call_name, const_str, dotted, src
from ..rules import FuncView, defect_scope, path_condition, formula_equiv
from . import _http

EXPLANATION = (
    "One clause decided: delimiter selection in parseLine/parseLeader is position-minimal - the chosen index is the "
    "minimum over all candidate delimiters (first listed, i.e. longest, on ties) and not the first delimiter kind "
    "found - so CR, LF and CRLF may be mixed within a stream; EventSource uses parseLine with (CRLF, LF, CR); "
    "internal-error detectors over EventSource.")
NOT_DECIDED = ("a CR at the very end of a buffer followed by LF in the next receive (needs look-ahead state: recorded as "
               "known limitation, runtime split property); the SSE field semantics (id/event/data/retry)")


def check(ctx):
    received_bytes_not_rewritten(ctx)
    respondent_tracks_event_source(ctx)
    _http.driver_resumes_every_call(ctx, "T2-driver")
    ctx.rule("T9-eol", "chosen end of line = minimum index over all eols")
    ctx.rule("T6-eols", "EventSource.parseEvents reads lines with all three line endings")
    for fname in ("parseLine", "parseLeader"):
        if fname != "parseLine" and _http.delegates_to_parseLine(ctx, fname):
            continue
        f, h, ok, why = _http.eol_selection(ctx, fname)
        ctx.check(ok, "T9-eol", h.ast, "%s selects the earliest end of line" % fname,
                  "%s: with mixed line endings a CR-terminated line followed later by CRLF is read as one line containing the CR" % why)
    E = ctx.cls("aio.http.httping", "EventSource")
    pe = E.own_method("parseEvents")
    calls = [n for n in ast.walk(pe) if isinstance(n, ast.Call) and call_name(n) == "parseLine"]
    ok = bool(calls)
    hm_ = ctx.repo.mod("aio.http.httping")

    def val(x):
        # a module-level name bound once to a literal tuple stands for that tuple
        if isinstance(x, ast.Name):
            from ..rules import module_assign
            v = module_assign(hm_, x.id)
            if isinstance(v, (ast.Tuple, ast.List)):
                return v
        return x
    for c in calls:
        e = [k.value for k in c.keywords if k.arg == "eols"]
        ok = ok and (not e or src(val(e[0])).replace(" ", "") in ("(CRLF,LF,CR)",))
    pl = ctx.fn("aio.http.httping", "parseLine")
    d = pl.args.defaults
    ok = ok and any(src(val(x)).replace(" ", "") == "(CRLF,LF,CR)" for x in d)
    ctx.check(ok, "T6-eols", pe, "event lines end at CRLF, LF or CR", "")
    resume_rule(ctx)
    split_crlf(ctx)
    ctx.rule("T1-consume", "event-stream bytes are deleted only after a complete line was found")
    ctx.rule("T1-scan", "line searches cover the whole unconsumed buffer")
    ctx.rule("T1-wait", "a buffer prefix is read only after that many bytes are present")
    _http.delete_discipline(ctx, "T1-consume")
    ctx.rule("T4-consumers", "bytes are removed from the receive buffers only by the parser primitives")
    ctx.floor("T4-consumers:sites", _http.buffer_consumers(ctx, "T4-consumers"), 7)
    _http.scan_offsets(ctx, "T1-scan")
    _http.wait_before_read(ctx, "T1-wait")
    defect_scope(ctx, "D-scope", [m for m in E.methods.values()], max_depth=1, floor=5, label="scope: EventSource")


def resume_rule(ctx):
    """EventSource.parse resumes the event parser whenever there is one: whether new bytes arrived is for the parser to see"""
    ctx.rule("T2-resume", "EventSource.parse: next(self.parser) iff self.parser (no other condition decides whether the stream is looked at)")
    f = ctx.cls("aio.http.httping", "EventSource").own_method("parse")
    V = FuncView(ctx, f)
    nx = [n for n, c in V.calls("next") if c.args and src(V.sym(c.args[0], n)) == "self.parser"]
    V.need(nx, "next(self.parser) in EventSource.parse")
    pc = ("or", [path_condition(V, n, start=[V.cfg.entry.id]) for n in nx])
    ctx.check(formula_equiv(pc, "self.parser"), "T2-resume", nx[0].ast, "EventSource.parse: next(self.parser) under `self.parser` alone",
              "a receive that the extra condition judges uninteresting (same buffer length as before the previous parse, ..) is "
              "skipped: its events, retry and last-event-id are missing or late, depending on how the stream was cut into receives")


def split_crlf(ctx):
    """CR is a proper prefix of CRLF: a line that ends with CR as the last byte received may be half of a CRLF.  parseLine
    returns it at once (the stream may also really end its lines with CR), so parseEvents keeps one bit of look-ahead state:
    after such a line, the first byte of the next receive is dropped iff it is LF, and the state is cleared as soon as any byte
    has been seen."""
    ctx.rule("T9-crlf", "parseEvents: a LF that arrives right after a line ended by a trailing CR is dropped exactly once; the look-ahead "
             "flag is cleared by the first byte seen, whatever it is")
    f = ctx.cls("aio.http.httping", "EventSource").own_method("parseEvents")
    V = FuncView(ctx, f)
    cfg = V.cfg
    nx = V.need([n for n, c in V.calls("next")], "next(lineParser) in parseEvents")
    dels = [n for n in cfg.nodes if isinstance(n.ast, ast.Delete) and src(n.ast.targets[0]).replace(" ", "") in ("self.raw[:1]", "self.raw[0]", "self.raw[0:1]")]
    if not dels:
        ctx.bad("T9-crlf", f, "parseEvents keeps no look-ahead for a CRLF split between CR and LF",
                "lines are read with eols (CRLF, LF, CR): when a receive ends between the CR and the LF of one CRLF, the CR ends the line and "
                "the LF that arrives next is read as an empty line - the event is dispatched early or split in two, depending on where "
                "the stream was cut")
        return
    flags = set()
    for d in dels:
        for fct in V.facts(d):
            if fct.isidentifier() and fct not in ("True", "False", "None"):
                flags.add(fct)
    ok = len(flags) == 1
    flag = sorted(flags)[0] if flags else "?"
    if ok:
        pc = ("or", [path_condition(V, d, by_value=False) for d in dels])
        ok = formula_equiv(pc, "%s and self.raw and self.raw[:1] == LF" % flag)
        clears = [n for n in V.stores(flag) if isinstance(n.ast, ast.Assign) and isinstance(n.ast.value, ast.Constant) and n.ast.value.value is False
                  and any(w.kind == "test" and isinstance(w.ast, ast.While) and id(n.ast) in {id(x) for x in ast.walk(w.ast)} for w in cfg.nodes)]
        sets = [n for n in V.stores(flag) if isinstance(n.ast, ast.Assign) and isinstance(n.ast.value, ast.Constant) and n.ast.value.value is True]
        ok = ok and bool(clears) and formula_equiv(("or", [path_condition(V, c, by_value=False) for c in clears]), "%s and self.raw" % flag)
        # drop and clear come before the line parser is resumed in the same iteration
        ok = ok and all(any(x.id in cfg.reachable(d.id) for x in nx) for d in dels + clears) and \
            not any(d.id in cfg.reachable(x.id, removed_nodes=[w.id for w in cfg.nodes if w.kind == "test" and isinstance(w.ast, ast.While)]) for x in nx for d in dels)
        # set: the line just returned ended with CR and nothing follows it yet; `tail` is the last byte before resuming the parser
        ok = ok and bool(sets)
        for s_ in sets:
            fs = V.symfacts(s_)
            ok = ok and "not self.raw" in fs and any(x.replace(" ", "") in ("self.raw[-1:]==CR", "CR==self.raw[-1:]") for x in fs)
            tl = [n for n in cfg.nodes if isinstance(n.ast, ast.Assign) and src(n.ast.value).replace(" ", "") == "self.raw[-1:]"]
            ok = ok and bool(tl) and all(any(x.id in cfg.reachable(t.id) for x in nx) for t in tl)
    ctx.check(ok, "T9-crlf", dels[0].ast, "parseEvents: `%s` set after a line ended by a trailing CR; next receive: drop a leading LF, clear the flag on any byte" % flag,
              "the look-ahead state is wrong: a LF is dropped when it should not be (flag left set after other bytes arrived) or an empty "
              "line is read for the LF half of a split CRLF")


def respondent_tracks_event_source(ctx):
    """what a client sees of retry / last event id is the Respondent's copy: after every eventSource.parse() it is brought up to
    the event source's value whenever that differs - whether or not that parse call happened to dispatch an event"""
    from ..rules import path_condition, formula_implies_f, formula_of, FuncView as _FV
    ctx.rule("T2-sync", "Respondent.parseBody: after each eventSource.parse(), self.retry / self.leid are copied from the event source "
             "under no condition but `<es>.x is not None and self.x != <es>.x`")
    f = ctx.cls("http.clienting", "Respondent").own_method("parseBody")
    V = _FV(ctx, f)
    ps = V.need(V.call_nodes("self.eventSource.parse"), "self.eventSource.parse() in Respondent.parseBody")
    ok = True
    for p in ps:
        after = V.cfg.reachable([b for b, _ in V.cfg.succ[p.id]], removed_nodes=[q.id for q in ps])
        for attr in ("retry", "leid"):
            st = [n for n in V.stores("self." + attr) if n.id in after and isinstance(n.ast, ast.Assign)
                  and src(V.sym(n.ast.value, n)) == "self.eventSource." + attr]
            # the store belonging to this parse call: the first one reached
            st = [n for n in st if not any(m.id != n.id and n.id in V.cfg.reachable(m.id) and m.id not in V.cfg.reachable(n.id) for m in st)]
            cond = formula_of("self.eventSource.%s is not None and self.%s != self.eventSource.%s" % (attr, attr, attr))
            good = bool(st) and all(formula_implies_f(cond, path_condition(V, n, start=[b for b, _ in V.cfg.succ[p.id]])) for n in st)
            ok = ok and good
    ctx.check(ok, "T2-sync", f, "Respondent.retry / .leid follow the event source after every parse call",
              "an `id:` or `retry:` line that arrives in a receive which completes no event still changes the stream's last event id / "
              "retry: if the copy is made only when an event was dispatched, the value depends on where the bytes were split")


def _eol_rewrite(x):
    if isinstance(x, ast.Call) and isinstance(x.func, ast.Attribute) and x.func.attr in ("replace", "translate", "splitlines") :
        if x.func.attr == "splitlines":
            return True
        for a in x.args[:2]:
            t = src(a)
            if t in ("CRLF", "LF", "CR") or (isinstance(a, ast.Constant) and isinstance(a.value, (bytes, str)) and
                                             a.value in (b"\r\n", b"\n", b"\r", "\r\n", "\n", "\r")):
                return True
    return False


def received_bytes_not_rewritten(ctx):
    """line ends are interpreted by the line parser, which sees the buffer as it was received: rewriting CR / CRLF to LF on
    intake looks at each receive on its own - a CRLF cut between two receives becomes two line ends"""
    ctx.rule("T4-intake", "no replace()/splitlines() of line-end bytes in ioflo.aio.http.httping / clienting (received bytes reach the "
             "parser buffer unchanged)")
    probe = ast.parse("a = data.replace(CRLF, LF)\nb = d.replace(b'\\r', b'\\n')\nc = k.replace('-', '_')\nd = body.splitlines()")
    if sum(1 for x in ast.walk(probe) if _eol_rewrite(x)) != 3:
        raise AnchorError("T4-intake matcher no longer recognises its positive examples")
    k = 0
    for modn in ("ioflo.aio.http.httping", "ioflo.aio.http.clienting"):
        m = ctx.repo.modules.get(modn)
        if m is None:
            raise AnchorError("%s not found" % modn)
        ctx.use(m.tree)
        for x in ast.walk(m.tree):
            if isinstance(x, ast.Call):
                k += 1
                if _eol_rewrite(x):
                    ctx.bad("T4-intake", x, "%s" % src(x)[:70],
                            "normalising line ends per receive turns the two halves of a split CRLF into two line ends: the blank line "
                            "that results dispatches the event early - the same stream parses differently depending on the split")
    ctx.floor("T4-intake:calls", k, 100)
