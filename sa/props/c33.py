"""C33 - server-sent events parse the same for any split and line ending (delimiter-selection clause)."""
import ast

from ..model import AnchorError, call_name, const_str, dotted, src
from ..rules import FuncView, defect_scope, path_condition, formula_equiv
from . import _http

EXPLANATION = (
    "One clause decided: delimiter selection in parseLine/parseLeader is position-minimal - the chosen index is the "
    "minimum over all candidate delimiters (first listed, i.e. longest, on ties) and not the first delimiter kind "
    "found - so CR, LF and CRLF may be mixed within a stream; EventSource uses parseLine with (CRLF, LF, CR); "
    "internal-error detectors over EventSource.")
NOT_DECIDED = ("a CR at the very end of a buffer followed by LF in the next receive (needs look-ahead state: recorded as "
               "known limitation, runtime split property); the SSE field semantics (id/event/data/retry)")


def check(ctx):
    ctx.rule("T9-eol", "chosen end of line = minimum index over all eols")
    ctx.rule("T6-eols", "EventSource.parseEvents reads lines with all three line endings")
    for fname in ("parseLine", "parseLeader"):
        f, h, ok, why = _http.eol_selection(ctx, fname)
        ctx.check(ok, "T9-eol", h.ast, "%s selects the earliest end of line" % fname,
                  "%s: with mixed line endings a CR-terminated line followed later by CRLF is read as one line containing the CR" % why)
    E = ctx.cls("aio.http.httping", "EventSource")
    pe = E.own_method("parseEvents")
    calls = [n for n in ast.walk(pe) if isinstance(n, ast.Call) and call_name(n) == "parseLine"]
    ok = bool(calls)
    for c in calls:
        e = [k.value for k in c.keywords if k.arg == "eols"]
        ok = ok and (not e or src(e[0]).replace(" ", "") in ("(CRLF,LF,CR)",))
    pl = ctx.fn("aio.http.httping", "parseLine")
    d = pl.args.defaults
    ok = ok and any(src(x).replace(" ", "") == "(CRLF,LF,CR)" for x in d)
    ctx.check(ok, "T6-eols", pe, "event lines end at CRLF, LF or CR", "")
    resume_rule(ctx)
    ctx.rule("T1-consume", "event-stream bytes are deleted only after a complete line was found")
    ctx.rule("T1-scan", "line searches cover the whole unconsumed buffer")
    ctx.rule("T1-wait", "a buffer prefix is read only after that many bytes are present")
    _http.delete_discipline(ctx, "T1-consume")
    _http.scan_offsets(ctx, "T1-scan")
    _http.wait_before_read(ctx, "T1-wait")
    defect_scope(ctx, "D-scope", [m for m in E.methods.values()], max_depth=1, floor=5, label="scope: EventSource")


def resume_rule(ctx):
    """EventSource.parse resumes the event parser whenever there is one: whether new bytes arrived is for the parser to see"""
    ctx.rule("T2-resume", "EventSource.parse: next(self.parser) iff self.parser (no other condition decides whether the stream is looked at)")
    f = ctx.cls("aio.http.httping", "EventSource").own_method("parse")
    V = FuncView(ctx, f)
    nx = [n for n, c in V.calls("next") if c.args and src(V.sym(c.args[0], n)) == "self.parser"]
    V.need(nx, "next(self.parser) in EventSource.parse")
    pc = ("or", [path_condition(V, n, start=[V.cfg.entry.id]) for n in nx])
    ctx.check(formula_equiv(pc, "self.parser"), "T2-resume", nx[0].ast, "EventSource.parse: next(self.parser) under `self.parser` alone",
              "a receive that the extra condition judges uninteresting (same buffer length as before the previous parse, ..) is "
              "skipped: its events, retry and last-event-id are missing or late, depending on how the stream was cut into receives")
