"""C22 - each log rule records exactly the runs and updates it promises (rule tables and per-rule shape)."""
import ast

from ..model import AnchorError, call_name, const_str, dotted, src
from ..rules import FuncView, suffix_match, module_assign, defect_scope
from . import _framing

EXPLANATION = (
    "Rule tables: LogRuleValues/LogRuleNames are mutually inverse over the seven rules; assignRuleAction maps each "
    "rule constant to the method of the same name with `never` as fallback; buildLog looks the capitalised word up "
    "in LogRuleValues. Per-rule shape on each method's CFG: never writes nothing; once logs only under `stamp is "
    "None`; always logs unconditionally; update/change have the first-run arm (stamp is None => log; return) and "
    "otherwise log only under their comparison; streak/deck drain loops (`while value: ...pop()` into a "
    "left-appended deque, `while loggee.deck: pull()`) leave the source empty and emit in FIFO order with one "
    "file write per run; the header is written in prepare only under `stamp is None and first`, and cycle rewrites "
    "it after truncation; Logger.makeRunner START = reopen -> prepare -> log, RUN = log, STOP = final log, then "
    "(keep and reuse => cycle), then close.")
NOT_DECIDED = ("whether update's `loggee.stamp > self.stamp` captures an update made after the logger ran in the same "
               "tick (needs the tick history); change's field bookkeeping over histories")

RULES = ["NEVER", "ONCE", "ALWAYS", "UPDATE", "CHANGE", "STREAK", "DECK"]


def _dict_literal(node):
    if isinstance(node, ast.Dict):
        return {src(k): src(v) for k, v in zip(node.keys, node.values)}
    return None


def check(ctx):
    ctx.rule("T6-rules", "LogRuleNames/LogRuleValues inverse; assignRuleAction maps RULE -> self.<rule>; buildLog uses LogRuleValues")
    ctx.rule("T1-rule-shape", "per-rule method shapes (never/once/always/update/change/streak/deck)")
    ctx.rule("T2-drain", "streak/deck drain loops empty the source, keep FIFO order, write the file once")
    ctx.rule("T1-header", "header written only under `self.stamp is None and self.first` in prepare and after truncation in cycle")
    ctx.rule("T3-runner", "Logger.makeRunner control branches")
    gm = ctx.repo.mod("globaling")
    ctx.use(gm)
    names = _dict_literal(module_assign(gm, "LogRuleNames"))
    values = _dict_literal(module_assign(gm, "LogRuleValues"))
    ok = names is not None and values is not None and set(names) == set(RULES) and \
        all(values.get(v) == k for k, v in names.items()) and len(values) == len(names)
    consts = {}
    for r in RULES:
        v = module_assign(gm, r)
        consts[r] = v.value if isinstance(v, ast.Constant) else None
    ok = ok and len(set(consts.values())) == len(RULES) and None not in consts.values()
    ctx.check(ok, "T6-rules", module_assign(gm, "LogRuleValues"), "LogRuleNames and LogRuleValues are inverse over %s with distinct values" % RULES,
              "a rule word would select a different rule than the one named")
    L = ctx.cls("logging", "Log")
    ara = L.own_method("assignRuleAction")
    A = FuncView(ctx, ara)
    for r in RULES[1:]:
        t = A.tests(lambda t, r=r: src(t) == "self.rule == %s" % r)
        st = [n for n in A.stores("self.action") if t and A.dominated_by_edge([n], t[0], "T")]
        ctx.check(bool(t) and len(st) == 1 and src(st[0].ast.value) == "self." + r.lower(), "T6-rules", ara,
                  "rule %s -> self.%s" % (r, r.lower()), "log rule %s must run the %s action" % (r, r.lower()))
    fb = [n for n in A.stores("self.action") if src(n.ast.value) == "self.never"]
    ctx.check(len(fb) == 1, "T6-rules", ara, "fallback -> self.never", "an unknown rule must log nothing")
    bl = ctx.fn("building", "Builder.buildLog")
    t = src(bl)
    ctx.check("LogRuleValues" in t and ".capitalize()" in t, "T6-rules", bl, "buildLog looks up rule.capitalize() in LogRuleValues", "")
    ca = L.own_method("__call__")
    ctx.check("self.action(" in src(ca), "T6-rules", ca, "Log.__call__ runs self.action", "")

    def logcalls(V):
        return V.call_nodes(("self.log", "self.logStreak", "self.logDeck"))
    nv = L.own_method("never")
    N = FuncView(ctx, nv)
    ctx.check(not [c for n in N.cfg.nodes for c in N.cfg.calls_at(n)], "T1-rule-shape", nv, "never: no call at all", "never writes nothing")
    on = L.own_method("once")
    O = FuncView(ctx, on)
    t = O.tests(lambda t: src(t) == "self.stamp is None")
    lc = logcalls(O)
    ctx.check(bool(t) and len(lc) == 1 and O.dominated_by_edge(lc, t[0], "T"), "T1-rule-shape", on, "once: log() only if self.stamp is None", "once writes one record")
    al = L.own_method("always")
    Al = FuncView(ctx, al)
    lc = logcalls(Al)
    ctx.check(len(lc) == 1 and Al.always_then([Al.cfg.entry], lc) and not Al.tests(lambda t: True), "T1-rule-shape", al, "always: unconditional log()", "always writes one record per run")
    for name, guard in (("update", lambda t: src(t).replace("(", "").replace(")", "") == "loggee.stamp is not None and loggee.stamp > self.stamp"),
                        ("change", lambda t: dotted(t) == "change")):
        f = L.own_method(name)
        V = FuncView(ctx, f, exc="calls")
        t0 = V.tests(lambda t: src(t) == "self.stamp is None")
        lc = logcalls(V)
        first = [c for c in lc if t0 and V.dominated_by_edge([c], t0[0], "T")]
        rest = [c for c in lc if c not in first]
        g = V.tests(guard)
        rets = [n for n in V.cfg.nodes if n.kind == "return"]
        ok = bool(t0) and len(first) == 1 and bool(rest) and bool(g) and all(V.dominated_by_edge([c], g[0], "T") for c in rest) and \
            any(V.dominated_by_edge([r], t0[0], "T") and r.id in V.cfg.reachable(first[0].id) for r in rets)
        ctx.check(ok, "T1-rule-shape", f, "%s: first run logs and returns; afterwards log() only under its comparison" % name,
                  "%s must write a record at its first run and then only when the loggee was %sd" % (name, name))
    up = L.own_method("update")
    U = FuncView(ctx, up)
    lp = U.need(_framing.loops_over(U, "self.loggees.values"), "loop over loggees in update")
    # at most one log per run: the log call in the loop is followed by return
    lc = [c for c in logcalls(U) if id(c.ast) in {id(x) for x in ast.walk(lp[0].ast)}]
    ok = bool(lc) and all(not (lp[0].id in U.cfg.reachable(c.id)) for c in lc)
    ctx.check(ok, "T1-rule-shape", up, "update: at most one record per run (return after the first updated loggee)", "one record per run")
    ch = L.own_method("change")
    Cn = FuncView(ctx, ch, exc="calls")
    sets = Cn.call_nodes("setattr")
    flags = [n for n in Cn.stores("change") if isinstance(n.ast.value, ast.Constant) and n.ast.value.value is True]
    ok = bool(sets) and bool(flags) and len(sets) == len(flags) and all(
        any(s.id in Cn.cfg.reachable(f.id, removed_nodes=[h.id for h in Cn.cfg.nodes if h.kind == "for"]) for s in sets) for f in flags)
    ctx.check(ok, "T1-rule-shape", ch, "change: every detected difference updates the remembered value", "the next comparison is against the last logged value")
    # every loggee's fields are compared on every run after the first: `change` is about field values, not stamps (a field
    # can change without the share's stamp passing the log's: Share.change / share[f] = v / a write later in the same tick)
    outer = [n for n in Cn.cfg.nodes if n.kind == "for" and src(n.ast.iter).replace(" ", "") in ("self.fields.items()", "self.loggees.items()", "self.lasts.items()")]
    inner = [n for n in Cn.cfg.nodes if n.kind == "for" and dotted(n.ast.iter) == "fields"]
    Cn.need(outer, "loop over the log's loggees in change")
    Cn.need(inner, "loop over the loggee's fields in change")
    it = [b for b, lab in Cn.cfg.succ[outer[0].id] if lab == "iter"]
    skip = Cn.cfg.reachable(it, removed_nodes=[i.id for i in inner]) if it else {outer[0].id}
    stamp_tests = [n for n in Cn.cfg.nodes if n.kind == "test" and "stamp" in src(n.ast.test) and
                   id(n.ast) in {id(x) for x in ast.walk(outer[0].ast)}]
    ctx.check(outer[0].id not in skip and not stamp_tests, "T1-rule-shape", ch,
              "change: each run compares every logged field of every loggee (no loggee skipped, no stamp shortcut)",
              "a logged field that changed since the last record without the share stamp passing the log stamp is never recorded")
    # drains
    ls = L.own_method("logStreak")
    S = FuncView(ctx, ls, exc="raise")
    whiles = [n for n in S.cfg.nodes if n.kind == "test" and isinstance(n.ast, ast.While) and dotted(n.ast.test) == "value"]
    ctx.floor("T2-drain:streak-loops", len(whiles), 2)
    ok = True
    for w in whiles:
        body = src(w.ast)
        ok = ok and ("d.appendleft(value.pop())" in body or "d.appendleft(value.popitem())" in body) and len(w.ast.body) == 1
    emit = [n for n in S.cfg.nodes if n.kind == "test" and isinstance(n.ast, ast.While) and dotted(n.ast.test) == "d"]
    ok = ok and len(emit) == 1 and "d.popleft()" in src(emit[0].ast) and "d.pop()" not in src(emit[0].ast)
    wr = S.call_nodes("self.file.write")
    ok = ok and len(wr) == 1 and id(wr[0].ast) not in {id(x) for x in ast.walk(emit[0].ast)}
    ctx.check(ok, "T2-drain", ls, "logStreak: pop() from the right into appendleft (original order), popleft to emit, one write",
              "streak must log every queued element exactly once in FIFO order and leave the sequence empty")
    ld = L.own_method("logDeck")
    D = FuncView(ctx, ld)
    w = [n for n in D.cfg.nodes if n.kind == "test" and isinstance(n.ast, ast.While) and src(n.ast.test) == "loggee.deck"]
    pulls = D.call_nodes("loggee.pull")
    wr = D.call_nodes("self.file.write")
    ok = len(w) == 1 and len(pulls) == 1 and _framing.every_iteration_passes_while(D, w[0], pulls) and len(wr) == 1 and \
        id(wr[0].ast) not in {id(x) for x in ast.walk(w[0].ast)} and not D.call_nodes(("loggee.deck.pop", "loggee.push", "loggee.deck.append"))
    ctx.check(ok, "T2-drain", ld, "logDeck: while loggee.deck: entry = loggee.pull() ... one write after the loop",
              "deck must log every queued entry exactly once in FIFO order and leave the deck empty")
    # header
    pr = L.own_method("prepare")
    P = FuncView(ctx, pr)
    hw = [n for n, c in P.calls("self.file.write") if c.args and src(c.args[0]) == "self.header"]
    t = P.tests(lambda t: src(t) == "self.stamp is None and self.first")
    bh = P.call_nodes("self.buildHeader")
    ctx.check(len(hw) == 1 and bool(t) and P.dominated_by_edge(hw, t[0], "T") and bool(bh) and P.dominated(hw, bh), "T1-header", pr,
              "prepare writes the header once, only for a never-logged new file", "every new log file starts with one header (and a reused file gets no second one)")
    cy = L.own_method("cycle")
    Cy = FuncView(ctx, cy, exc="raise")
    tr = [n for n, c in Cy.calls("ocfn") if len(c.args) >= 2 and const_str(c.args[1]) == "w+"]
    hw = [n for n, c in Cy.calls("self.file.write") if c.args and src(c.args[0]) == "self.header"]
    ctx.check(len(tr) == 1 and len(hw) == 1 and Cy.dominated(hw, tr), "T1-header", cy, "cycle rewrites the header after truncating the main file", "each rotated-in file starts with the header")
    # runner
    mr = ctx.fn("logging", "Logger.makeRunner")
    M = FuncView(ctx, mr)

    def ctl(name):
        return M.one(M.tests(lambda t: src(t) == "control == %s" % name), "control == %s" % name)
    run, start, stop = ctl("RUN"), ctl("START"), ctl("STOP")
    yields = [n.id for n in M.cfg.nodes if any(isinstance(x, ast.Yield) for x in M.cfg.walk_node(n))]
    logs = M.call_nodes("self.log")
    ok = any(M.dominated_by_edge([c], run, "T") for c in logs)
    ro = [t for t in M.cfg.nodes if t.kind == "test" and src(t.ast.test) == "self.reopen()"]
    prep = M.call_nodes("self.prepare")
    sl = [c for c in logs if M.dominated_by_edge([c], start, "T")]
    ok = ok and bool(ro) and M.dominated_by_edge(prep, ro[0], "T") and bool(sl) and M.dominated(sl, prep)
    ctx.check(ok, "T3-runner", mr, "RUN = log(); START = reopen() -> prepare() -> log()", "")
    st_logs = [c for c in logs if M.dominated_by_edge([c], stop, "T")]
    cyc = M.call_nodes("self.cycle")
    cl = [c for c in M.call_nodes("self.close") if M.dominated_by_edge([c], stop, "T")]
    kt = M.tests(lambda t: src(t) == "self.keep and self.reuse")
    ok = bool(st_logs) and bool(cl) and M.dominated(cl, st_logs) and bool(kt) and M.dominated_by_edge(cyc, kt[0], "T") and \
        all(c.id in M.cfg.reachable(st_logs[0].id, removed_nodes=yields) for c in cyc) and \
        all(cl[0].id in M.cfg.reachable(c.id, removed_nodes=yields) for c in cyc)
    ctx.check(ok, "T3-runner", mr, "STOP = final log(), then cycle() if keep and reuse, then close()", "the last records must be logged and flushed before the files close")
    every_run_logs(ctx)
    from .c39 import order_comes_from_keys
    order_comes_from_keys(ctx, "T4-order")
    defect_scope(ctx, "D-scope", [m for m in L.methods.values()] + [m for m in ctx.cls("logging", "Logger").methods.values()],
                 max_depth=1, floor=30, label="scope: Log and Logger methods")


def every_run_logs(ctx):
    """each run of the logger (START, RUN, the final log of STOP) gives every Log its turn: the rule methods decide what is
    written, Logger.log decides nothing"""
    ctx.rule("T3-everyrun", "Logger.log: `for log in self.logs: log()` is reached on every call (no return, raise or test before it)")
    f = ctx.cls("logging", "Logger").own_method("log")
    V = FuncView(ctx, f)
    loops = [n for n in V.cfg.nodes if n.kind == "for" and src(V.sym(n.ast.iter, n)) == "self.logs"]
    calls = [n for n in V.cfg.nodes if any(isinstance(x, ast.Call) and isinstance(x.func, ast.Name) and loops and
                                           x.func.id == src(loops[0].ast.target) for x in V.cfg.walk_node(n))]
    ok = bool(loops) and bool(calls)
    if ok:
        before = V.cfg.reachable(V.cfg.entry.id, removed_nodes=[loops[0].id])
        ok = not any(V.cfg.nodes[i].kind in ("return", "raise", "test") for i in before) and V.cfg.exit.id not in before
    ctx.check(ok, "T3-everyrun", f, "Logger.log runs every Log on every call",
              "a run that is skipped (rate limit, status test) loses what only that run would have written: the `always` record of "
              "that tick, the final record of STOP, the elements queued for streak/deck since the last run")
