"""C02 - scheduler runs each due tasker once per tick, on its period, in order."""
import ast

from ..model import AnchorError, call_name, dotted, src
from ..rules import FuncView, suffix_match, check_writers, node_has_call, check_no_alias_escape

EXPLANATION = (
    "Structural clauses of the tick loop in Skedder.run decided on its CFG: the popped "
    "(tasker, retime, period) triple is re-queued exactly once per iteration to exactly one of "
    "ready/aborted on every path (incl. the StopIteration path); FIFO rotation (popleft/append, "
    "bound len(ready) taken before the loop); the due test and the catch-up arithmetic have the "
    "shape retime > stamp => skip, requeue (tasker, retime + tasker.period, tasker.period); "
    "stamp advance and changeStamp follow the tasker loop; ready/aborted are mutated only by "
    "Skedder; front/mid/back and slave filing of the three builders agree with orderTaskables.")
NOT_DECIDED = ("that float accumulation of stamp += period / retime += period with decimal periods "
               "lands on the ideal tick (numeric, runtime); behaviour of the taskers' own generators")


def _send_may_raise(node):
    for x in ast.walk(node):
        if isinstance(x, ast.Call) and suffix_match(call_name(x), "runner.send"):
            return ["StopIteration"]
    return None


def check(ctx):
    fn = ctx.fn("skedding", "Skedder.run")
    V = FuncView(ctx, fn, may_raise=_send_may_raise)
    cfg = V.cfg
    ctx.rule("T2-linear", "from ready.popleft() to the next loop iteration every path pushes the popped "
             "entry exactly once to exactly one of ready/aborted")
    ctx.rule("T9-fifo", "pop is popleft, requeue is append, loop bound is len(ready) read at the for header")
    ctx.rule("T9-due", "due test compares the popped retime with the tick stamp; not-due requeues the "
             "same triple; due requeues (tasker, retime + tasker.period, tasker.period)")
    ctx.rule("T3-tick", "stamp advance is after the tasker loop and every house store gets changeStamp")
    ctx.rule("T4-owner", "ready/aborted deques are mutated only inside Skedder; nothing pops aborted")
    ctx.rule("T6-order", "orderTaskables = fronts+mids+backs; builders file FRONT/BACK/else and SLAVE")

    # the tick loop: the for statement (first CFG copy = main body, not the finally sweep) whose
    # body pops ready and sends tasker.desire
    pops = V.need(V.calls("ready.popleft"), "ready.popleft() call")
    tick_for = None
    for n, c in pops:
        f = _enclosing_for(n.ast, fn)
        if f is not None and any(isinstance(x, ast.Attribute) and x.attr == "desire" for x in ast.walk(f)):
            tick_for, pop_node = f, n
            break
    if tick_for is None:
        # the loop that sends tasker.desire exists but does not pop its entries from ready one at a time
        alt = [n for n in ast.walk(fn) if isinstance(n, ast.For) and any(
            isinstance(x, ast.Attribute) and x.attr == "desire" for x in ast.walk(n))]
        if alt:
            ctx.bad("T2-linear", alt[0], "for %s in %s: ... send(tasker.desire)" % (src(alt[0].target), src(alt[0].iter)),
                    "the tick loop does not take its entries from the ready deque with popleft(): taskers not yet run in "
                    "this tick are held outside `ready` (so they are not scheduled if the tick ends early) and the "
                    "pop-once / push-once accounting of the tick cannot be established")
            return
        raise AnchorError("Skedder.run: tick loop (for ... ready.popleft() ... send(tasker.desire)) not found")
    hdr = [n for n in cfg.nodes if n.kind == "for" and n.ast is tick_for]
    V.need(hdr, "tick loop header")
    hdr = hdr[0]
    body_ids = {n.id for n in V.body_nodes(tick_for)}

    # T9-fifo
    it = tick_for.iter
    ok = isinstance(it, ast.Call) and call_name(it) == "range" and len(it.args) == 1 and \
        isinstance(it.args[0], ast.Call) and call_name(it.args[0]) == "len" and \
        suffix_match(dotted(it.args[0].args[0]), "ready")
    ctx.check(ok, "T9-fifo", tick_for, "for ... in %s" % src(it),
              "the per-tick loop bound must be the number of ready entries taken before the loop "
              "(range(len(ready))); otherwise a tasker can run twice or be skipped in a tick")
    # unpack target names
    st = pop_node.ast
    names = None
    if isinstance(st, ast.Assign) and isinstance(st.targets[0], ast.Tuple) and len(st.targets[0].elts) == 3 \
            and all(isinstance(e, ast.Name) for e in st.targets[0].elts):
        names = [e.id for e in st.targets[0].elts]
    ctx.check(names is not None, "T9-fifo", st, src(st), "popped entry must be unpacked into "
              "(tasker, retime, period)")
    if names is None:
        return
    T, R, P = names
    # (locals may be rebound before the requeue; values are compared after substituting each
    #  local's unique reaching definition, see FuncView.sym)

    def is_push(n):
        return n.id in body_ids and any(
            isinstance(x, ast.Call) and suffix_match(call_name(x), ("ready.append", "aborted.append",
                                                                   "ready.appendleft", "aborted.appendleft",
                                                                   "ready.extend", "aborted.extend",
                                                                   "ready.insert", "aborted.insert"))
            for x in cfg.walk_node(n))

    counts = V.counts_on_paths(pop_node, [hdr], is_push)
    for k, p in counts.items():
        ctx.check(k == 1, "T2-linear", pop_node.ast,
                  "path with %d re-queue(s): %s" % (k, V.path_text(p)),
                  "on this path through the tick body the popped tasker is re-queued %d times (must be "
                  "exactly once): it would %s" % (k, "be dropped from scheduling" if k == 0 else
                                                  "run more than once per tick"),
                  detail="path %s has exactly one push" % V.path_text(p))
    ctx.floor("T2-linear:paths", sum(1 for _ in counts), 1)
    # no other pop in the tick body
    others = [n for n, c in V.calls(("ready.popleft", "ready.pop", "aborted.popleft", "aborted.pop"))
              if n.id in body_ids and n is not pop_node]
    ctx.check(not others, "T2-linear", tick_for, "second pop in tick body", "only one entry may be "
              "popped per iteration")
    appl = [n for n, c in V.calls(("ready.appendleft", "aborted.appendleft", "ready.extend", "ready.insert",
                                   "ready.extendleft", "ready.rotate", "ready.reverse"))]
    ctx.check(not appl, "T9-fifo", fn, "appendleft/extend/insert/rotate on ready",
              "re-queue must be a tail append so that declared order is preserved by rotation")

    # T9-due: test node
    def due_test(t):
        return isinstance(t, ast.Compare) and len(t.ops) == 1 and {_nm(t.left), _nm(t.comparators[0])} == {R, "stamp"}
    tests = [n for n in V.tests(due_test) if n.id in body_ids]
    V.need(tests, "due test comparing %s with stamp" % R)
    tn = tests[0]
    t = tn.ast.test
    op = type(t.ops[0])
    left = _nm(t.left)
    # normalise to: skip_label = edge label on which the tasker is NOT run
    if (left == R and op in (ast.Gt,)) or (left == "stamp" and op in (ast.Lt,)):
        skip_label, run_label = "T", "F"
    elif (left == R and op in (ast.LtE,)) or (left == "stamp" and op in (ast.GtE,)):
        skip_label, run_label = "F", "T"
    else:
        ctx.bad("T9-due", tn.ast, src(t), "due test must be 'retime > stamp => not due' (strict): a "
                "tasker is due at the first tick whose stamp has reached its retime")
        skip_label = None
    if skip_label:
        ctx.ok("T9-due", tn.ast, "due test %s (skip on %s)" % (src(t), skip_label))
        sends = [n for n, c in V.calls("runner.send") if n.id in body_ids]
        V.need(sends, "runner.send in tick body")
        ctx.check(V.dominated_by_edge(sends, tn, run_label), "T9-due", sends[0].ast, src(sends[0].ast),
                  "tasker.runner.send must only execute when the due test says due")
        for n, c in V.calls("runner.send"):
            if n.id in body_ids:
                a = c.args[0] if c.args else None
                ctx.check(a is not None and dotted(a) == T + ".desire", "T9-due", c, src(c),
                          "the control sent must be the tasker's current desire read at send time "
                          "(last bid wins)")
        # requeue shapes
        for n, c in V.calls("ready.append"):
            if n.id not in body_ids:
                continue
            a = c.args[0] if c.args else None
            a = V.sym(a, n) if a is not None else None
            on_skip = V.dominated_by_edge([n], tn, skip_label)
            on_run = V.dominated_by_edge([n], tn, run_label)
            if on_skip:
                ok = isinstance(a, ast.Tuple) and [_nm(e) for e in a.elts] == [T, R, P]
                ctx.check(ok, "T9-due", c, src(c), "a tasker that is not due must be re-queued unchanged "
                          "as (tasker, retime, period)")
            elif on_run:
                ok = isinstance(a, ast.Tuple) and len(a.elts) == 3 and _nm(a.elts[0]) == T and \
                    _is_sum(a.elts[1], R, T + ".period") and dotted(a.elts[2]) == T + ".period"
                ctx.check(ok, "T9-due", c, src(c), "after a run the tasker must be re-queued as (tasker, "
                          "retime + tasker.period, tasker.period): next due time advances from the "
                          "previous due time by the tasker's *current* period (catch-up, no drift; a bid-"
                          "changed period applies from this reschedule)")
            else:
                ctx.bad("T9-due", c, src(c), "re-queue on ready is neither on the due nor on the not-due branch")
        for n, c in V.calls("aborted.append"):
            if n.id in body_ids:
                ctx.check(V.dominated_by_edge([n], tn, run_label), "T9-due", c, src(c),
                          "a tasker may be moved to aborted only after it was run")

    # T3-tick
    aug = [n for n in cfg.nodes if isinstance(n.ast, ast.AugAssign) and dotted(n.ast.target) == "self.stamp"
           and n.copy == 0]
    V.need(aug, "self.stamp += self.period")
    a = aug[0]
    ctx.check(isinstance(a.ast.op, ast.Add) and dotted(a.ast.value) == "self.period", "T3-tick", a.ast, src(a.ast),
              "tick stamp must advance by the skedder period")
    ctx.check(a.id not in body_ids and V.dominated(
        [a], []) is False and not (cfg.reachable(cfg.entry.id, removed_edges=cfg.edges_from(hdr.id, "done")) & {a.id}),
        "T3-tick", a.ast, src(a.ast), "stamp advance must come after the loop over all ready taskers")
    cs = [n for n, c in V.calls("store.changeStamp") if n.copy == 0]
    whiles = [n for n in cfg.nodes if n.kind == "test" and isinstance(n.ast, ast.While) and n.copy == 0]
    outer = [w for w in whiles if tick_for in list(ast.walk(w.ast))]
    V.need(outer, "enclosing while loop")
    # the re-stamp is a loop over self.houses (zero houses => nothing to stamp): the loop header
    # is the obligation point
    cs = [h for h in cfg.nodes if h.kind == "for" and h.copy == 0 and dotted(h.ast.iter) == "self.houses"
          and any(c.ast in list(ast.walk(h.ast)) for c in cs)]
    after = [n for n in cs if n.id in cfg.reachable(a.id, removed_nodes=[outer[0].id])]
    ctx.check(bool(after) and V.always_then([a], after, ends=[outer[0]]), "T3-tick", a.ast,
              "changeStamp after stamp advance", "every house store must be re-stamped after the tick "
              "stamp advances and before the next tick")
    ctx.check(hdr.id not in cfg.reachable(a.id, removed_nodes=[outer[0].id]), "T3-tick", a.ast,
              "no tasker runs between stamp advance and next tick", "tasker loop must not follow the "
              "stamp advance within the same tick")

    # T4-owner
    owner = {"ioflo/base/skedding.py:Skedder."}
    check_writers(ctx, "T4-owner", "ready", owner, floor=2, why="scheduling queue")
    check_writers(ctx, "T4-owner", "aborted", owner, floor=1, why="aborted queue")
    check_no_alias_escape(ctx, "T4-owner", "ready", owner, why="scheduling queue")
    check_no_alias_escape(ctx, "T4-owner", "aborted", owner, why="aborted queue")
    # local aliases inside Skedder.run count (ready = self.ready); ensure nothing pops 'aborted'
    bad = V.calls(("aborted.pop", "aborted.popleft", "aborted.remove", "aborted.clear"))
    ctx.check(not bad, "T4-owner", fn, "no pop/remove on aborted in Skedder.run",
              "an aborted tasker must never return to the ready queue")
    ar = ctx.fn("skedding", "Skedder.addReadyTask")
    VA = FuncView(ctx, ar)
    ap = VA.need(VA.calls("ready.append"), "ready.append in addReadyTask")
    rts = [n for n in VA.cfg.nodes if isinstance(n.ast, ast.Assign) and src(n.ast.value) == "tasker.store.stamp"]
    ctx.check(bool(rts), "T9-due", ar, "retime seeded from tasker.store.stamp",
              "first due time must be the store stamp at start (t0)")

    # T6-order
    ot = ctx.fn("housing", "House.orderTaskables")
    asg = [n for n in ast.walk(ot) if isinstance(n, ast.Assign) and dotted(n.targets[0]) == "self.taskables"]
    ok = bool(asg) and src(asg[0].value).replace(" ", "") == "self.fronts+self.mids+self.backs"
    ctx.check(ok, "T6-order", asg[0] if asg else ot, src(asg[0]) if asg else "no assignment to self.taskables",
              "taskables must be fronts + mids + backs in that order")
    for b in ("buildFramer", "buildServer", "buildLogger"):
        bf = ctx.fn("building", "Builder." + b)
        VB = FuncView(ctx, bf)
        _filing(ctx, VB, b)
    tw = check_writers(ctx, "T4-owner", "taskables", {"ioflo/base/housing.py:House."}, floor=2,
                       why="scheduled set of a house")


def _filing(ctx, V, b):
    def cmp_test(var, const):
        def f(t):
            return isinstance(t, ast.Compare) and len(t.ops) == 1 and isinstance(t.ops[0], ast.Eq) and \
                {_nm(t.left), _nm(t.comparators[0])} == {var, const}
        return f
    slave_t = V.need(V.tests(cmp_test("schedule", "SLAVE")), "schedule == SLAVE test in " + b)
    front_t = V.tests(cmp_test("order", "FRONT"))
    back_t = V.tests(cmp_test("order", "BACK"))
    if not front_t or not back_t:
        # the builder still files taskers, but not by comparing `order` with the FRONT / BACK constants
        filed = [x for x in ast.walk(V.fn) if isinstance(x, ast.Attribute) and x.attr in ("fronts", "mids", "backs")]
        if filed:
            V.ctx.bad("T6-order", filed[0], "%s files a tasker into fronts/mids/backs without testing order == FRONT / order == BACK" % b,
                      "filing by anything but the named constants (an index into a tuple of lists, arithmetic on the enum value) "
                      "depends on the numeric values of MID/FRONT/BACK, which are not in list order (MID = 0, FRONT = 1, BACK = 2): "
                      "`in front` taskers land in mids and default ones in fronts")
            return
        V.need(front_t, "order == FRONT test in " + b)
        V.need(back_t, "order == BACK test in " + b)
    tab = [("fronts.append", [(front_t[0], "T"), (slave_t[0], "F")]),
           ("backs.append", [(back_t[0], "T"), (front_t[0], "F"), (slave_t[0], "F")]),
           ("mids.append", [(back_t[0], "F"), (front_t[0], "F"), (slave_t[0], "F")]),
           ("slaves.append", [(slave_t[0], "T")])]
    for pat, guards in tab:
        ns = V.need(V.call_nodes(pat), "%s in %s" % (pat, b))
        for tn, lab in guards:
            ctx.check(V.dominated_by_edge(ns, tn, lab), "T6-order", ns[0].ast,
                      "%s in %s guarded by %s=%s" % (pat, b, src(tn.ast.test), lab),
                      "filing of a tasker into the house order lists must follow FRONT->fronts, "
                      "BACK->backs, else->mids, and SLAVE->slaves only (slaves are never taskable)")
    # nothing else is appended to the order lists in this builder
    for pat in ("fronts.insert", "mids.insert", "backs.insert", "taskables.append", "taskables.insert"):
        ctx.check(not V.calls(pat), "T6-order", V.fn, "no %s in %s" % (pat, b), "unexpected writer of order lists")


def _nm(e):
    return e.id if isinstance(e, ast.Name) else None


def _is_sum(e, a, b):
    if isinstance(e, ast.BinOp) and isinstance(e.op, ast.Add):
        l, r = dotted(e.left), dotted(e.right)
        return {l, r} == {a, b}
    return False


def _enclosing_for(node, fn):
    from ..model import parent
    p = parent(node)
    while p is not None and p is not fn:
        if isinstance(p, ast.For):
            return p
        p = parent(p)
    return None
