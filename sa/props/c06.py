"""C06 - frame enter and exit actions are properly bracketed and ordered."""
from . import _framing

EXPLANATION = ("Order of effects of a transition on every CFG path of Transiter.action, argument shapes "
               "(rexit gets a copy, renter the original), the split rule of Framer.ExEn, bottom-up exit / "
               "top-down enter loops, aux claim/start and exit/release pairing in Frame.enter/exit, the "
               "deactivize exit action installed by Suspender._resolve, and the entered-set rule: lists "
               "that reach Framer.exit must derive from the full outline.")
NOT_DECIDED = "the per-tick multiset of entered-not-exited frames over arbitrary programs (runtime)"


def check(ctx):
    _framing.per_tick_over_actives(ctx)
    _framing.outline_state(ctx)
    _framing.transition_order(ctx)
