"""C38 - exchanges time out and retransmit on schedule (constructor agreement and guard clauses)."""
import ast

from ..model import AnchorError, call_name, const_str, dotted, src
from ..rules import FuncView, suffix_match, defect_scope, peval
from .. import defects

EXPLANATION = (
    "Constructor agreement: every parameter of Exchange.__init__ is read by its body under the same name, every "
    "name the body reads is a parameter (D1), the documented keywords (timeout, redoTimeout) are accepted, and "
    "Exchanger/Exchangent forward **kwa unchanged; Exchange.process: the overall-timeout test precedes the redo "
    "test and returns after fail(); both tests are guarded by `> 0.0` (a timeout of zero never expires); the redo "
    "arm restarts the redo timer and re-sends self.tx exactly once; Exchanger/Exchangent.start restart both "
    "timers before the first send/respond; fail() marks failed and finishes.")
NOT_DECIDED = "timing against stamp schedules (runtime)"


def check(ctx):
    ctx.rule("D4-ctor", "Exchange.__init__ parameters == names its body reads; subclasses forward **kwa")
    ctx.rule("T3-process", "timeout test first (returns after fail), then redo test; both guarded by > 0.0; redo = restart + one send")
    ctx.rule("T3-start", "start restarts both timers before the first send")
    E = ctx.cls("exchanging", "Exchange")
    ini = E.own_method("__init__")
    params = [a.arg for a in ini.args.args[1:]]
    loads = {n.id for n in ast.walk(ini) if isinstance(n, ast.Name) and isinstance(n.ctx, ast.Load)}
    unused = [p for p in params if p not in loads]
    ctx.check(not unused, "D4-ctor", ini, "every parameter of Exchange.__init__ is used (%s)" % params,
              "parameter(s) %s are never read: the body reads a differently spelled name, so supplying the setting raises NameError "
              "and the documented keyword raises TypeError" % unused)
    for f in defects.undefined_names(ctx.repo, ini):
        ctx.bad(f.rule, f.node, f.construct, f.why)
    for kw in ("timeout", "redoTimeout", "tx", "rx", "device", "uid", "name"):
        ctx.check(kw in params, "D4-ctor", ini, "Exchange accepts keyword %s" % kw, "the documented setting %s cannot be passed" % kw)
    # what __init__ stores for given settings (partial evaluation: independent of how the defaulting is spelled)
    IV = FuncView(ctx, ini)
    okc, seen = True, {}
    for val, want in ((None, None), (0.0, "0.0"), (7.5, "7.5")):
        outs = peval(IV, {"timeout": val, "redoTimeout": val}, effects=True)
        okc = okc and len(outs) == 1
        for k, e, h, eff in outs:
            st = dict(x.split(" = ", 1) for x in eff if " = " in x)
            seen[val] = {k_: st.get(k_) for k_ in ("self.timeout", "self.redoTimeout", "self.timer", "self.redoTimer")}
            for attr, cls_default, timer in (("timeout", "self.Timeout", "timer"), ("redoTimeout", "self.RedoTimeout", "redoTimer")):
                w = cls_default if want is None else want
                okc = okc and st.get("self." + attr) == w and \
                    st.get("self." + timer) in ("StoreTimer(stack.stamper, duration=%s)" % d for d in ("self." + attr, w))
    ctx.check(okc, "D4-ctor", ini,
              "timeout/redoTimeout default to the class values only when None (0.0 is kept) and drive StoreTimers on the stack's stamper", "%s" % seen)
    for cn in ("Exchanger", "Exchangent"):
        c = ctx.cls("exchanging", cn)
        i2 = c.own_method("__init__")
        calls = [n for n in ast.walk(i2) if isinstance(n, ast.Call) and isinstance(n.func, ast.Attribute) and n.func.attr == "__init__"]
        ok = i2.args.kwarg is not None and bool(calls) and any(k.arg is None and dotted(k.value) == i2.args.kwarg.arg for k in calls[0].keywords)
        ctx.check(ok, "D4-ctor", i2, "%s.__init__ forwards **%s to Exchange.__init__" % (cn, i2.args.kwarg.arg if i2.args.kwarg else "?"), "settings would be dropped")
        # .. and leaves the two timeouts to Exchange.__init__: a subclass that names them hands them on as they were given
        W = FuncView(ctx, i2)
        for cnode, cc in [(n_, c_) for n_, c_ in W.attr_calls(("__init__",))]:
            for k in cc.keywords:
                if k.arg in ("timeout", "redoTimeout"):
                    v = W.sym(k.value, cnode)
                    ctx.check(isinstance(v, ast.Name) and v.id == k.arg and k.arg in {a.arg for a in i2.args.args + i2.args.kwonlyargs},
                              "D4-ctor", cc, "%s.__init__ passes %s on unchanged (%s)" % (cn, k.arg, src(v)),
                              "Exchange.__init__ is where `None means default` is decided: a subclass that converts or tests the value "
                              "first (`float(x) if x else None`) turns an explicit 0 - `never time out` / `never redo` - into the class "
                              "default")
    pr = E.own_method("process")
    V = FuncView(ctx, pr)
    fl = V.call_nodes("self.fail")
    rs = V.call_nodes("self.redoTimer.restart")
    sd = V.calls("self.send")
    redo = rs + [n for n, _ in sd]
    # by path conditions (any spelling: early return, if/elif, nested or merged guards)
    ok = bool(fl) and all({"self.timeout > 0.0", "self.timer.expired"} <= V.facts(f) for f in fl)
    # failing ends the step: nothing of the redo arm can follow fail() in the same call
    ok = ok and bool(redo) and not any(r.id in V.cfg.reachable(f.id) for f in fl for r in redo)
    # the overall timeout is looked at first: the redo arm runs only when it did not fire
    ok = ok and all(("not self.timer.expired" in V.facts(r) or "self.timeout <= 0.0" in V.facts(r) or
                     not any(r.id in V.cfg.reachable(f.id) for f in fl)) for r in redo)
    ok = ok and all(any(t.kind == "test" and "self.timer.expired" in src(t.ast.test) and V.dominated([r], [t]) for t in V.cfg.nodes) for r in redo)
    ctx.check(ok, "T3-process", pr, "process: `timeout > 0.0 and timer.expired` => fail() and nothing else - decided before the redo test",
              "an exchange must fail exactly when its overall timeout elapses first (no retransmission after failing), and a timeout "
              "of zero never expires")
    R = {"self.redoTimeout > 0.0", "self.redoTimer.expired"}

    def own(fs):      # conditions other than the (negated) overall-timeout test that may legitimately be on the path
        return {f for f in fs if "self.timer" not in f and "self.timeout" not in f}
    ok = len(rs) == 1 and len(sd) == 1 and own(V.core_facts(rs[0])) == R and \
        R <= own(V.core_facts(sd[0][0])) <= R | {"self.tx is not None"} and \
        src(sd[0][1].args[0]) == "self.tx" and V.dominated([sd[0][0]], rs)
    ctx.check(ok, "T3-process", pr, "redo arm: redoTimer.restart(); send(self.tx) once", "retransmit the latest message once each time the redo interval elapses")
    for cn, first in (("Exchanger", "self.send"), ("Exchangent", "self.respond")):
        st = ctx.cls("exchanging", cn).own_method("start")
        S = FuncView(ctx, st)
        a = S.call_nodes("self.timer.restart")
        b = S.call_nodes("self.redoTimer.restart")
        c_ = S.call_nodes(first)
        ctx.check(bool(a) and bool(b) and bool(c_) and S.dominated(c_, a) and S.dominated(c_, b), "T3-start", st,
                  "%s.start restarts both timers before %s" % (cn, first), "timeouts are measured from the start of the exchange")
    fa = E.own_method("fail")
    ctx.check("self.failed = True" in src(fa) and "self.finish()" in src(fa), "T3-process", fa, "fail: failed = True; finish()", "")
    defect_scope(ctx, "D-scope", [m for m in E.methods.values()], max_depth=0, floor=10, label="scope: Exchange methods")
