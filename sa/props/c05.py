"""C05 - a running framer's active frames are exactly its active frame's outline."""
from . import _framing

EXPLANATION = ("Ownership and value-shape clauses: who may write .actives/.active and with which values "
               "(full outline of the active frame, or the outline cut at a conditional aux's main frame), "
               "activate/deactivate/exitAll bookkeeping, and the construction of outline/head in the trace "
               "methods (climb .over from self, reverse, descend primary .under).")
NOT_DECIDED = ("equality of the lists at every tick of every program (runtime); correctness of the unders "
               "ordering produced by scripts")


def check(ctx):
    _framing.outline_state(ctx)
    # the conditional-aux cut: only on the non-completing first run, restore only on completion
    _framing.suspender(ctx)
