"""C19 - share stamps, fields and decks follow their documented rules."""
import ast

from ..model import AnchorError, call_name, const_str, dotted, src
from ..rules import FuncView, suffix_match, defect_scope, module_assign

EXPLANATION = (
    "Stamp discipline table per Share method, decided on each method's CFG: value/data setters, update and "
    "stampNow assign self.stamp from self.store.stamp on every normal path, with AttributeError -> None (no store "
    "=> no stamp); change/__setitem__/insert/setdefault/pop/popitem/clear/__delitem__ never assign the stamp; "
    "create stamps only under a flag that is set only where a new field was added, and every setattr in create "
    "is under `not hasattr`; Data.__setattr__ stores only existing keys or REO_IdentPub matches (pattern = public "
    "identifier); Deck.gulp appends only non-None, spew is popleft with IndexError -> None, push/pull alias "
    "append/popleft; internal-error detectors over Share and Deck.")
NOT_DECIDED = "insertion-order behaviour of the underlying odict under interleavings (see C39)"

STAMPING = ["value", "data", "update", "stampNow"]   # value/data: the property setters
NON_STAMPING = ["change", "__setitem__", "__delitem__", "insert", "setdefault", "pop", "popitem", "clear", "changeUnit", "createUnit"]


def _stamp_stores(V):
    return [n for n in V.cfg.nodes if isinstance(n.ast, ast.Assign) and dotted(n.ast.targets[0]) == "self.stamp"]


def _setter(ci, name):
    for st in ci.node.body:
        if isinstance(st, ast.FunctionDef) and st.name == name and any((dotted(d) or "").endswith(".setter") for d in st.decorator_list):
            return st
    raise AnchorError("Share.%s setter not found" % name)


def check(ctx):
    S = ctx.cls("storing", "Share")
    ctx.rule("T2-stamp", "stamping methods: every normal exit assigned self.stamp = self.store.stamp inside try, "
             "except AttributeError: self.stamp = None")
    ctx.rule("T1-nostamp", "non-stamping methods contain no assignment to self.stamp (nor call a stamping method)")
    ctx.rule("T1-create", "Share.create: every setattr under `not hasattr(self._data, k)`; stamp only under the update flag "
             "which is set only next to such a setattr")
    ctx.rule("T1-ident", "Data.__setattr__ stores only if key already present or REO_IdentPub.match(key); REO_IdentPub = ^[a-zA-Z]\\w*$")
    ctx.rule("T9-deck", "Deck.gulp/spew/push/pull")

    def may_raise_attr(node):
        for x in ast.walk(node):
            if isinstance(x, ast.Attribute) and src(x) == "self.store.stamp":
                return ["AttributeError"]
        return None
    for name in STAMPING:
        f = _setter(S, name) if name in ("value", "data") else S.own_method(name)
        V = FuncView(ctx, f, may_raise=may_raise_attr)
        st = _stamp_stores(V)
        deleg = V.call_nodes("self.stampNow") if name != "stampNow" else []
        if deleg and not st:
            # the stamping is delegated to stampNow() (itself one of the four methods judged here): every path must call it
            okd = bool(V.always_then([V.cfg.entry], deleg))
            ctx.check(okd, "T2-stamp", f, "Share.%s stamps through self.stampNow() on every path" % name,
                      "assigning a share's value / updating its fields must stamp it on every path")
            continue
        good = [n for n in st if src(n.ast.value) == "self.store.stamp"]
        none = [n for n in st if isinstance(n.ast.value, ast.Constant) and n.ast.value.value is None]
        ok = bool(good) and bool(none) and len(good) + len(none) == len(st)
        # every path to a normal exit passes one of the stamp stores
        ok = ok and V.always_then([V.cfg.entry], st)
        # the None store only in an AttributeError handler of the try holding the good store
        for n in none:
            hs = [h for h in V.cfg.nodes if h.kind == "except" and n.id in V.cfg.reachable(h.id)]
            ok = ok and bool(hs) and all(dotted(h.ast.type) == "AttributeError" for h in hs)
        ctx.check(ok, "T2-stamp", f, "Share.%s stamps from store.stamp (None without a store) on every path" % name,
                  "assigning a share's value / updating its fields must stamp it with the store's current time on every "
                  "path, and must not raise or keep a stale stamp when the share has no store")
    up = S.own_method("update")
    U = FuncView(ctx, up)
    ch = U.need(U.call_nodes("self.change"), "self.change(*pa, **kwa) in update")
    stamps = _stamp_stores(U) or U.call_nodes("self.stampNow")
    ctx.check(bool(stamps) and U.dominated(stamps, ch), "T2-stamp", up, "update: fields changed, then stamped", "update = change + stamp")
    stamping_calls = ("self.update", "self.stampNow")
    for name in NON_STAMPING:
        f = S.own_method(name)
        V = FuncView(ctx, f)
        bad = _stamp_stores(V) + V.call_nodes(stamping_calls) + \
            [n for n in V.cfg.nodes if any(isinstance(x, ast.Attribute) and isinstance(x.ctx, ast.Store) and src(x) in ("self.value", "self.data")
                                            for x in V.cfg.walk_node(n))]
        ctx.check(not bad, "T1-nostamp", f, "Share.%s never touches the stamp" % name,
                  "changing fields (as opposed to updating them) must never alter the share's stamp")
    cr = S.own_method("create")
    C = FuncView(ctx, cr, may_raise=may_raise_attr)
    sets = C.need(C.call_nodes("setattr"), "setattr calls in Share.create")
    def is_new_field_test(t):
        e = C.sym(t.ast.test, t)
        return src(e).replace(" ", "") == "nothasattr(self._data,k)"
    tests = [t for t in C.cfg.nodes if t.kind == "test" and is_new_field_test(t)]
    ctx.floor("T1-create:guards", len(tests), 1)
    ok = all(any(C.dominated_by_edge([s], t, "T") for t in tests) for s in sets)
    ctx.check(ok, "T1-create", cr, "every setattr in create is under `not hasattr(self._data, k)`",
              "create must never overwrite an existing field")
    st = _stamp_stores(C)
    gates = []        # `if flag: stamp` or `if not flag: return` + stamp: the stamping runs only where the flag holds
    for t in C.cfg.nodes:
        if t.kind != "test" or t.id in {x.id for x in tests} or not st:
            continue
        e, lab = t.ast.test, "T"
        if isinstance(e, ast.UnaryOp) and isinstance(e.op, ast.Not):
            e, lab = e.operand, "F"
        if isinstance(e, ast.Name) and all(C.dominated_by_edge([x], t, lab) for x in st):
            gates.append((t, e.id))
    fname = gates[0][1] if gates else None
    fstores = [n for n in C.cfg.nodes if isinstance(n.ast, (ast.Assign, ast.AugAssign)) and any(
        isinstance(x, ast.Name) and isinstance(x.ctx, ast.Store) and x.id == fname for x in C.cfg.walk_node(n))] if fname else []
    loops = [h for h in C.cfg.nodes if h.kind == "for"]
    in_loop = lambda n: any(id(n.ast) in {id(x) for x in ast.walk(h.ast)} for h in loops)
    latched = bool(fstores) and all(isinstance(n.ast, ast.Assign) and isinstance(n.ast.value, ast.Constant) and
                                    n.ast.value.value is True for n in fstores if in_loop(n))
    inits = [n for n in fstores if not in_loop(n)]
    latched = latched and bool(inits) and all(isinstance(n.ast.value, ast.Constant) and n.ast.value.value is False for n in inits)
    trues = [n for n in fstores if in_loop(n)]
    ok = bool(gates) and bool(st) and latched and bool(trues) and all(any(C.dominated_by_edge([fl], t, "T") for t in tests) for fl in trues)
    for s_ in sets:   # every new-field setattr is followed by setting the flag in the same iteration
        ok = ok and any(fl.id in C.cfg.reachable(s_.id, removed_nodes=[h.id for h in loops]) for fl in trues)
    ctx.check(ok, "T1-create", cr, "create stamps only under flag `%s`: initialised False, only ever set True (latched) next to a new-field setattr" % fname,
              "the stamp decision of create must remember that *some* field was added: a flag that is recomputed per field forgets "
              "earlier additions (stale stamp), and a flag set without an addition stamps when nothing was created")
    D = ctx.cls("storing", "Data")
    sa = D.own_method("__setattr__")
    A = FuncView(ctx, sa, exc="calls")
    store = A.need(A.call_nodes("self.__dict__.__setitem__"), "__dict__.__setitem__ in Data.__setattr__")
    from ..rules import group_condition, formula_equiv
    raises = [n for n in A.cfg.nodes if n.kind == "raise" and "AttributeError" in src(n.ast)]
    WANT = "key in self.__dict__ or REO_IdentPub.match(key)"
    # measured from the handler that both arms live in: store under the condition, AttributeError under its negation
    compound = bool(store) and bool(raises) and \
        formula_equiv(group_condition(A, list(store) + list(raises), by_value=False), "True") and \
        _same_start(A, store, raises, WANT)
    split = False
    ctx.check(compound or split,
              "T1-ident", sa, "Data.__setattr__: store iff key present or REO_IdentPub.match(key), else AttributeError",
              "field names must be public identifiers")
    gm = ctx.repo.mod("globaling")
    ctx.use(gm)
    v = module_assign(gm, "REO_IdentPub")
    pat = const_str(v.args[0]) if isinstance(v, ast.Call) and v.args else None
    ctx.check(pat == r"^[a-zA-Z]\w*$", "T1-ident", v, "REO_IdentPub = %r" % pat, "a public identifier starts with a letter, then word characters, anchored")
    K = ctx.cls("storing", "Deck")
    ca = K.class_attrs
    ctx.check(src(ca.get("push")) == "deque.append" and src(ca.get("pull")) == "deque.popleft", "T9-deck", K.node,
              "Deck.push = deque.append, Deck.pull = deque.popleft (FIFO)", "a deck is a FIFO queue")
    g = K.own_method("gulp")
    G = FuncView(ctx, g)
    t = G.tests(lambda t: src(t) == "elem is not None")
    ap = G.call_nodes(("self.append", "self.push"))
    ctx.check(bool(t) and bool(ap) and G.dominated_by_edge(ap, t[0], "T") and not G.call_nodes(("self.appendleft", "self.insert")), "T9-deck", g,
              "gulp appends (right) only when elem is not None", "gulp ignores None")
    sp = K.own_method("spew")

    def may_raise_pop(node):
        for x in ast.walk(node):
            if isinstance(x, ast.Call) and call_name(x) in ("self.popleft", "self.pull"):
                return ["IndexError"]
        return None
    P = FuncView(ctx, sp, may_raise=may_raise_pop)
    pl = P.call_nodes(("self.popleft", "self.pull"))
    hs = [h for h in P.cfg.nodes if h.kind == "except" and dotted(h.ast.type) == "IndexError"]
    rets = [n for n in P.cfg.nodes if n.kind == "return"]
    okr = True
    for r in rets:
        v = P.sym(r.ast.value, r) if r.ast.value is not None else None
        inh = any(r.id in P.cfg.reachable(h.id) for h in hs)
        if inh:
            okr = okr and (v is None or (isinstance(v, ast.Constant) and v.value is None) or dotted(v) is not None)
    ctx.check(bool(pl) and bool(hs) and not P.call_nodes(("self.pop",)) and okr, "T9-deck", sp,
              "spew = popleft, IndexError -> None", "spew returns None only when the deck is empty")
    entries = [m for m in S.methods.values()] + [m for m in K.methods.values()] + [m for m in D.methods.values()]
    defect_scope(ctx, "D-scope", entries, max_depth=0, floor=40, label="scope: Share, Deck, Data methods")
    mapping_arguments(ctx)


def _same_start(A, store, raises, want):
    """store under `want`, AttributeError under its negation - both measured from the point the two arms share"""
    from ..rules import path_condition, formula_equiv, nearest_dominator
    cfg = A.cfg
    nodes = list(store) + list(raises)
    ids = {n.id for n in nodes}
    cands = [d for d in cfg.nodes if d.id not in ids and all(n.id in cfg.reachable(d.id) and A.dominated([n], [d]) for n in nodes)]
    best = None
    for d in cands:
        if all(o.id == d.id or A.dominated([d], [o]) for o in cands):
            best = d
    start = [best.id] if best is not None else [cfg.entry.id]
    fs = ("or", [path_condition(A, n, start=start, by_value=False) for n in store])
    fr = ("or", [path_condition(A, n, start=start, by_value=False) for n in raises])
    return formula_equiv(fs, want) and formula_equiv(fr, "not (%s)" % want)


def mapping_arguments(ctx):
    """Share.change / Share.create accept, positionally, a dict, *any object with .get and .items* (another Share, a mapping
    proxy) or a sequence of duples.  The test that tells a mapping from a sequence is part of what `update` means for those
    arguments; the look-alike loops of Data.__init__/_change/changeUnit only accept real dicts."""
    from ..rules import formula_equiv, formula_of, path_condition
    ctx.rule("T7-mapping", "Share.change/create classify a positional argument with isinstance(a, dict) or (hasattr(a, 'get') and hasattr(a, 'items'))")
    S = ctx.cls("storing", "Share")
    for mn in ("change", "create"):
        f = S.own_method(mn)
        V = FuncView(ctx, f)
        from ..rules import _atom
        WANT = "isinstance({0}, dict) or (hasattr({0}, 'get') and hasattr({0}, 'items'))"
        ok, seen = True, 0
        for h in [n for n in V.cfg.nodes if n.kind == "for"]:
            itv = V.sym(h.ast.iter, h)
            if isinstance(itv, ast.IfExp) and src(itv.body) == src(itv.orelse) + ".items()":
                # one loop over `a.items() if <mapping test> else a`
                seen += 1
                ok = ok and formula_equiv(_atom(itv.test), WANT.format(src(itv.orelse)))
            elif src(itv).endswith(".items()") and not src(itv).startswith("kwa"):
                seen += 1
                var = src(itv)[:-len(".items()")]
                ok = ok and formula_equiv(path_condition(V, h, by_value=False), WANT.format(var))   # within the loop over pa
        ok = ok and seen > 0
        ctx.check(ok, "T7-mapping", f, "Share.%s: a positional argument is a mapping iff it is a dict or has .get and .items" % mn,
                  "a dictionary-like argument that is not a dict subclass (another Share, a MappingProxyType) is iterated as a "
                  "sequence of duples: its keys are unpacked character by character into bogus fields or raise ValueError, and "
                  "update() never stamps")
    data_delete_through_odict(ctx)
    change_assigns_every_field(ctx)
    data_namespace_private(ctx)


def change_assigns_every_field(ctx, rule="T2-assign"):
    """Share.change (behind update, and so behind init / put / inc / set / copy) stores every field it is given: no test decides
    whether a given value is written"""
    from ..rules import path_condition, formula_unsat
    ctx.rule(rule, "Share.change: setattr(self._data, k, v) for every given (k, v), unconditionally within its loop")
    S = ctx.cls("storing", "Share")
    f = S.own_method("change")
    V = FuncView(ctx, f)
    sets = [(n, c) for n, c in V.calls("setattr") if len(c.args) == 3 and src(V.sym(c.args[0], n)) == "self._data"]
    ok = len(sets) >= 2
    for n, c in sets:
        pc = path_condition(V, n)
        ok = ok and formula_unsat(("not", pc))
    loops = [h for h in V.cfg.nodes if h.kind == "for" and isinstance(h.ast.target, ast.Tuple)]
    for h in loops:
        from ._framing import every_iteration_passes
        ok = ok and every_iteration_passes(V, h, [n for n, c in sets])
    ctx.check(ok and bool(loops), rule, f, "Share.change writes each given field with setattr(self._data, k, v), whatever it held before",
              "a write that is skipped when the field already compares equal keeps the old object: 1 then `put 1.0` (or True) leaves "
              "the int, so the value a script literal was converted to is not the value (and type) the share ends up holding")


def data_namespace_private(ctx):
    """a Data record keeps its fields as attributes: any public name bound on the class (a convenience method `get`, a constant)
    is found by __setattr__'s "the class already has it" branch and by hasattr(), so the legal field name of that spelling is
    written past the ordered key list and create() takes it for present"""
    ctx.rule("T1-namespace", "class Data binds only names that start with an underscore (no public method or class attribute)")
    D = ctx.cls("storing", "Data")
    k = 0
    for st in D.node.body:
        names = [st.name] if isinstance(st, (ast.FunctionDef, ast.ClassDef)) else \
            [t.id for t in getattr(st, "targets", []) if isinstance(t, ast.Name)] if isinstance(st, ast.Assign) else \
            [st.target.id] if isinstance(st, ast.AnnAssign) and isinstance(st.target, ast.Name) else []
        for n in names:
            k += 1
            ctx.check(n.startswith("_"), "T1-namespace", st, "Data binds %s" % n,
                      "`%s` is a legal public field name: with the class defining it, share.update(%s=..) stores the value outside "
                      "the record's key list (keys()/items()/len() miss it) and create(%s=..) does nothing" % (n, n, n))
    ctx.floor("T1-namespace:names", k, 6)
    for b in D.node.bases:
        ctx.check(dotted(b) in ("object",), "T1-namespace", D.node, "Data derives from object only (%s)" % src(b), "an inherited public name has the same effect")


def data_delete_through_odict(ctx):
    """Data binds an odict as its instance __dict__ and routes attribute *stores* through the odict's __setitem__; deletion needs
    the same: object.__delattr__ removes the key at the C level, without odict.__delitem__, and leaves the ordered key list
    stale (keys() lists the deleted field, items() raises KeyError)."""
    ctx.rule("T6-delete", "Data.__delattr__ deletes a field through self.__dict__.__delitem__ (sibling of __setattr__)")
    D = ctx.cls("storing", "Data")
    da = D.methods.get("__delattr__")
    if da is None:
        ctx.bad("T6-delete", D.node, "Data has no __delattr__",
                "del data.field / del share[field] go through object.__delattr__: the field leaves the dict but stays in the odict's "
                "key list - keys() still lists it, len() disagrees, items() raises KeyError")
        return
    V = FuncView(ctx, da)
    dl = [n for n, c in V.attr_calls(("__delitem__",)) if src(V.sym(c.func.value, n)) == "self.__dict__"] + \
        [n for n in V.cfg.nodes if isinstance(n.ast, ast.Delete) and any(src(t).startswith("self.__dict__[") for t in n.ast.targets)]
    ctx.check(bool(dl) and "key in self.__dict__" in V.symfacts(dl[0]) or bool(dl) and not V.facts(dl[0]), "T6-delete", da,
              "Data.__delattr__ removes a stored field with self.__dict__.__delitem__(key)",
              "a field must leave the odict through the odict's own delete so that the ordered key list follows")
    sh = ctx.cls("storing", "Share").own_method("__delitem__")
    ctx.check("delattr(self._data" in src(sh) or "self._data.__dict__" in src(sh), "T6-delete", sh, "Share.__delitem__ deletes through the Data record", "")
