"""C31 - keep-alive connections carry N requests to N ordered, framed responses (framing / reuse clauses)."""
import ast

from ..model import AnchorError, call_name, const_str, dotted, src
from ..rules import FuncView
from ..callgraph import resolve_call

EXPLANATION = (
    "Responder reuse: reset() restores every attribute __init__ sets for a fresh response (attribute-set agreement; "
    "closed/incomer/app outlive a response, evented is write-only) and its chunkable guard tests and assigns the "
    "*parameter* (D9); every call of reset() from the server passes the request's chunkable (a content-length "
    "response switches chunkable off, so it must be re-armed per request); delimiting: build() chunks iff chunkable "
    "and no transfer-encoding header, start() turns chunkable off when a content-length is given, service() "
    "writes the terminating empty chunk on iterator exhaustion before ended = True; Valet.serviceReps re-arms the "
    "request parser for a persisted request and otherwise closes after the transmit queue drained; Patron sets "
    "waited in transmit and clears it only for a final response.")
NOT_DECIDED = "ordering / matching of responses to requests over interleavings (runtime)"

OUTLIVE = {"closed", "incomer", "app", "evented"}


def _self_attrs(fn):
    return {n.targets[0].attr for n in ast.walk(fn) if isinstance(n, ast.Assign) and isinstance(n.targets[0], ast.Attribute) and
            dotted(n.targets[0].value) == "self"}


def responder_framing(ctx):
    """how a WSGI response is delimited on the wire (shared with C30: a response only survives the trip if its framing is right)"""
    ctx.rule("T6-reset", "attrs(__init__) - OUTLIVE subset of attrs(reset)")
    ctx.rule("D9-guard", "reset: `if chunkable is not None: self.chunkable = <chunkable>` (guard and value are the same parameter)")
    ctx.rule("T5-reset-callers", "callers of Responder.reset pass chunkable")
    ctx.rule("T1-delimit", "chunked iff chunkable and no transfer-encoding; content-length => not chunkable; final empty chunk before ended")
    ctx.rule("T3-reuse", "persisted => makeParser(); else close after txes drained; Patron waited bookkeeping")
    R = ctx.cls("aio.http.serving", "Responder")
    ini, rs = R.own_method("__init__"), R.own_method("reset")
    a0, a1 = _self_attrs(ini), _self_attrs(rs)
    miss = a0 - OUTLIVE - a1
    ctx.check(not miss, "T6-reset", rs, "reset restores %s" % sorted(a0 - OUTLIVE),
              "Responder.reset leaves %s from the previous response in place: the next response on a keep-alive connection starts "
              "from stale state" % sorted(miss))
    V = FuncView(ctx, rs)
    st = [n for n in V.cfg.nodes if isinstance(n.ast, ast.Assign) and dotted(n.ast.targets[0]) == "self.chunkable"]
    ok = len(st) == 1
    if ok:
        tests = [t for t in V.cfg.nodes if t.kind == "test" and V.dominated_by_edge(st, t, "T")]
        ok = len(tests) == 1 and src(tests[0].ast.test) == "chunkable is not None"
        val = st[0].ast.value
        names = {x.id for x in ast.walk(val) if isinstance(x, ast.Name)} - {"True", "False"}
        ok = ok and names == {"chunkable"}
    ctx.check(ok, "D9-guard", rs, "reset: if chunkable is not None: self.chunkable = f(chunkable)",
              "the guard tests a different variable than the one assigned (or the attribute itself): a reset without the argument "
              "overwrites the setting with None and the next response is neither chunked nor length-delimited")
    k = 0
    for m in ctx.repo.modules.values():
        if m.is_test or "/aio/http/" not in "/" + m.relpath:
            continue
        for c in [x for x in ast.walk(m.tree) if isinstance(x, ast.Call) and isinstance(x.func, ast.Attribute) and x.func.attr == "reset"
                  and ("respond" in src(x.func.value).lower() or ".reps[" in src(x.func.value))]:
            k += 1
            kws = {kw.arg for kw in c.keywords}
            ctx.check("chunkable" in kws or len(c.args) >= 2, "T5-reset-callers", c, src(c),
                      "a reused responder must be re-armed with the request's chunkable: start() switches chunkable off for a "
                      "response with content-length and nothing else switches it back on")
    ctx.floor("T5-reset-callers:sites", k, 1)
    bd = R.own_method("build")
    B = FuncView(ctx, bd)
    t = B.tests(lambda t: src(t) == "self.chunkable and 'transfer-encoding' not in self.headers")
    cs = [n for n in B.cfg.nodes if isinstance(n.ast, ast.Assign) and dotted(n.ast.targets[0]) == "self.chunked"]
    ctx.check(bool(t) and bool(cs) and B.dominated_by_edge(cs, t[0], "T"), "T1-delimit", bd, "build: chunked iff chunkable and no transfer-encoding header", "")
    sta = R.own_method("start")
    S = FuncView(ctx, sta, exc="calls")
    t = S.tests(lambda t: src(t) == "'content-length' in self.headers")
    off = [n for n in S.cfg.nodes if isinstance(n.ast, ast.Assign) and dotted(n.ast.targets[0]) == "self.chunkable" and
           isinstance(n.ast.value, ast.Constant) and n.ast.value.value is False]
    ln = [n for n in S.cfg.nodes if isinstance(n.ast, ast.Assign) and dotted(n.ast.targets[0]) == "self.length" and "content-length" in src(n.ast.value)]
    ctx.check(bool(t) and bool(off) and bool(ln) and S.dominated_by_edge(off + ln, t[0], "T"), "T1-delimit", sta,
              "start: content-length given => length = int(..), chunkable = False", "a response is either length-delimited or chunked")
    sv = R.own_method("service")
    W = FuncView(ctx, sv, may_raise=lambda n: ["StopIteration"] if any(isinstance(x, ast.Call) and call_name(x) == "next" for x in ast.walk(n)) else None)
    hs = [h for h in W.cfg.nodes if h.kind == "except" and dotted(h.ast.type) == "StopIteration"]
    ok = bool(hs)
    if ok:
        r = W.cfg.reachable(hs[0].id)
        wr = [n for n, c in W.calls("self.write") if n.id in r and c.args and src(c.args[0]) == "b''"]
        en = [n for n in W.cfg.nodes if n.id in r and isinstance(n.ast, ast.Assign) and dotted(n.ast.targets[0]) == "self.ended"]
        ok = bool(wr) and bool(en) and all(e.id in W.cfg.reachable(wr[0].id) for e in en)
    ctx.check(ok, "T1-delimit", sv, "service: iterator exhausted => write(b'') (terminating chunk) then ended = True",
              "a streamed response without length must be terminated by the empty chunk so the connection stays usable")
    # the framing of a response is decided once (start: length/chunkable from the app's headers; build: chunked) and then fixed
    ctx.rule("T4-framing", "Responder framing state (chunkable, chunked, length, content-length/transfer-encoding headers) is written only by __init__/reset/start/build")
    FR = {"chunkable": ("__init__", "reset", "start"), "chunked": ("__init__", "reset", "build"), "length": ("__init__", "reset", "start")}
    k = 0
    for fn in [b for b in R.node.body if isinstance(b, ast.FunctionDef)]:
        for x in ast.walk(fn):
            if isinstance(x, ast.Attribute) and isinstance(x.ctx, ast.Store) and dotted(x.value) == "self" and x.attr in FR:
                k += 1
                ctx.check(fn.name in FR[x.attr], "T4-framing", x, "Responder.%s writes self.%s" % (fn.name, x.attr),
                          "the head may already describe the other framing (or the body written later is not trimmed/terminated to "
                          "match): bytes of this response are read as the start of the next one on a keep-alive connection")
            if isinstance(x, ast.Subscript) and isinstance(x.ctx, (ast.Store, ast.Del)) and dotted(x.value) == "self.headers" and \
                    (const_str(x.slice) or "").lower() in ("content-length", "transfer-encoding"):
                k += 1
                ctx.check(fn.name in ("build", "start"), "T4-framing", x, "Responder.%s sets the %s header" % (fn.name, const_str(x.slice)),
                          "a framing header that start() did not see leaves .length/.chunkable describing a different framing than the head")
    ctx.floor("T4-framing:writers", k, 8)


def head_goes_out_with_first_write(ctx):
    """Responder.write: the first write - also an empty one (a response with no body) - transmits the head"""
    from ..rules import local_condition, formula_equiv
    ctx.rule("T2-head", "Responder.write transmits the built head iff the head was not written yet, independent of the body bytes")
    R = ctx.cls("aio.http.serving", "Responder")
    f = R.own_method("write")
    V = FuncView(ctx, f)
    txs = [(n, c) for n, c in V.calls("self.incomer.tx") if c.args and "self.build()" in src(V.sym(c.args[0], n))]
    if not txs:
        ctx.bad("T2-head", f, "Responder.write: no incomer.tx(<self.build()>) found",
                "the head must be handed to the connection by the first write on its own terms; folded into a later, conditional send "
                "it is lost for a response whose body is empty (Content-Length: 0): that response never reaches the wire and every "
                "later response on the connection is attributed to the wrong request")
        return
    ok = all(formula_equiv(local_condition(V, n, by_value=False), "not self.headed") for n, c in txs)
    ctx.check(ok, "T2-head", txs[0][1], "Responder.write: tx(head) iff not self.headed", "the head goes out exactly once, with the first write")


def check(ctx):
    from . import _http
    _http.last_chunk_consumes_terminator(ctx, "T1-lastchunk")
    responder_framing(ctx)
    head_goes_out_with_first_write(ctx)
    vr = ctx.cls("aio.http.serving", "Valet").own_method("serviceReps")
    t_ = src(vr)
    X = FuncView(ctx, vr)
    pt = X.tests(lambda t: "persisted" in src(t))
    mp = X.call_nodes("makeParser")
    cl = X.call_nodes("self.closeConnection")
    ok = bool(pt) and bool(mp) and bool(cl) and any(X.dominated_by_edge(mp, t, "T") for t in pt)
    ctx.check(ok, "T3-reuse", vr, "serviceReps: persisted => requestant.makeParser(); else closeConnection", "a keep-alive connection is re-armed for the next request")
    # re-arm once: while the finished responder stays `ended` serviceReps passes here on every cycle; a parser that is already
    # reading the next request must not be replaced (it has consumed bytes from the receive buffer)
    ctx.check(bool(mp) and all("requestant.parser is None" in X.facts(m) for m in mp), "T3-reuse", vr,
              "serviceReps: makeParser() only when requestant.parser is None",
              "a request arriving in several segments is torn: the half-finished parser is thrown away after it consumed the first "
              "segment and the rest is parsed as a new request (fewer than N responses)")
    # client side: which framing a response uses is decided by its headers alone
    ph = ctx.cls("aio.http.clienting", "Respondent").own_method("parseHead")
    PH = FuncView(ctx, ph)
    cst = [n for n in PH.stores("chunked") if isinstance(n.ast, ast.Assign) and dotted(n.ast.targets[0]) == "self.chunked"]
    okc = bool(cst)
    for n in cst:
        v = n.ast.value
        if isinstance(v, ast.Constant) and v.value is False:
            okc = okc and not PH.facts(n)      # only as the unconditional initial value
    ctx.check(okc, "T3-reuse", ph, "Respondent.parseHead: .chunked is cleared only unconditionally (initial value), never for a status class",
              "the server frames an empty 204/304 body as a chunked `0 CRLF CRLF`; a client that stops reading chunks for those statuses "
              "leaves the terminator in the buffer and every later response on the connection is shifted")
    P = ctx.cls("aio.http.clienting", "Patron")
    tr = P.own_method("transmit")
    ctx.check("self.waited = True" in src(tr), "T3-reuse", tr, "Patron.transmit sets waited", "one response is awaited per transmitted request")
    sr = P.own_method("serviceResponse")
    Y = FuncView(ctx, sr)
    wf = [n for n in Y.cfg.nodes if isinstance(n.ast, ast.Assign) and dotted(n.ast.targets[0]) == "self.waited" and
          isinstance(n.ast.value, ast.Constant) and n.ast.value.value is False]
    rt = Y.tests(lambda t: src(t) == "self.respondent.redirectable and self.respondent.redirectant")
    ok = bool(wf) and bool(rt) and all(Y.dominated_by_edge([w], rt[0], "F") or not Y.dominated_by_edge([w], rt[0], "T") for w in wf)
    ok = ok and not any(Y.dominated_by_edge([w], rt[0], "T") for w in wf)
    ctx.check(ok, "T3-reuse", sr, "waited cleared only for a final (non-redirect) response", "")
