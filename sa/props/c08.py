"""C08 - entry guards are never bypassed and refused transitions have no effect."""
from . import _framing

EXPLANATION = ("Dominance rules: every effect of a transition is dominated by a truthy "
               "framer.checkEnter(enters, exits); Framer.checkEnter/Frame.checkEnter return True only after "
               "every frame, before-enter condition, aux ownership test and aux first-frame check passed; the "
               "conditional-aux start path has the same guards; the framer clocks are restarted only for "
               "non-empty enters and written only by the clock methods.")
NOT_DECIDED = "guard values flipping at arbitrary ticks (runtime)"


def check(ctx):
    ctx.rule("T3-guardclone", "Act.clone returns a copy of the receiver's own class (a negated entry guard `let me if not ..` is an Nact: cloned as a plain Act it loses its negation)")
    _framing.act_clone_preserves_class(ctx, "T3-guardclone")
    _framing.entry_guards(ctx)
    from .c04 import start_guards
    start_guards(ctx)      # the start path of a framer is an entry too (first frame outline's guards)
    # a frame that is cloned (aux .. as mine / as name, rear) keeps its before-enter conditions
    ctx.rule("T6-guards", "Frame.clone copies the beacts (entry guards) of the original through addBeact")
    from .c12 import clone_lists
    clone_lists(ctx, "T6-guards", only=("beacts",))
