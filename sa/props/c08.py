"""C08 - entry guards are never bypassed and refused transitions have no effect."""
from . import _framing

EXPLANATION = ("Dominance rules: every effect of a transition is dominated by a truthy "
               "framer.checkEnter(enters, exits); Framer.checkEnter/Frame.checkEnter return True only after "
               "every frame, before-enter condition, aux ownership test and aux first-frame check passed; the "
               "conditional-aux start path has the same guards; the framer clocks are restarted only for "
               "non-empty enters and written only by the clock methods.")
NOT_DECIDED = "guard values flipping at arbitrary ticks (runtime)"


def check(ctx):
    _framing.entry_guards(ctx)
    from .c04 import start_guards
    start_guards(ctx)      # the start path of a framer is an entry too (first frame outline's guards)
