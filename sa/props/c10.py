"""C10 - a conditional auxiliary suspends the frames below its main frame."""
from . import _framing

EXPLANATION = ("CFG regions of Suspender.action keyed on aux.done: start path (needs, ownership, checkStart, "
               "tracts, claim, enterAll, recur), no truncation when the aux completes in its first run, "
               "truncation at main.head and a truthy result otherwise; running path (segue, recur, no needs), "
               "deactivate + reactivate + None on completion with no enter call; deactivize exit action; "
               "buildAux refuses clone with a condition.")
NOT_DECIDED = "condition toggling histories (runtime)"


def check(ctx):
    _framing.per_tick_over_actives(ctx)
    _framing.precur_rule(ctx, "T3-precur")
    _framing.suspender(ctx)
    _framing.aux_pairing(ctx)
    # suspension and resumption work through Framer.change/activate/reactivate/deactivate: their state rules (C05) are part of this property
    _framing.outline_state(ctx)
