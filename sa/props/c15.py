"""C15 - optional clauses of a command may appear in any order."""
import ast
import io
import tokenize

from ..model import AnchorError, call_name, const_str, dotted, src, parent, walk_no_nested
from ..rules import FuncView, suffix_match, module_assign
from ..callgraph import resolve_call

EXPLANATION = (
    "For every clause loop (`while index < len(tokens): connective = tokens[index]; index += 1; if/elif on "
    "connective`) of the builder: (A) no absorption - if a branch uses a sub-parser that stops only at Reserved "
    "words, every connective K the loop dispatches on must be in Reserved (Reserved is evaluated from the "
    "module's literal lists, implicit string concatenations included); (B) every hand-rolled part loop with a "
    "literal stop list must stop at every K; (E) an optional operand (token taken under `if index < len(tokens)`) "
    "must be refused when it is a reserved word; (C) the else arm raises ParseError; (D) commutativity - no "
    "branch reads (upward-exposed) a variable another branch writes, and two branches do not write the same "
    "variable that is live after the loop, apart from the cursor; (D11) no implicit string concatenation inside "
    "the keyword list displays.")
NOT_DECIDED = ("equality of the built house (runtime object graph) under permutation - only that the parsing "
               "state cannot depend on clause order; grammar ambiguities between a clause's free-text operand and "
               "a later keyword that is not reserved are reported only through rule A")

LOOP_FUNCS = ["buildServer", "buildLogger", "buildLog", "buildFramer", "buildFrame", "buildAux", "buildRear",
              "buildRaze", "buildDo", "buildBid", "makeMarkerNeed"]
CURSOR = {"index", "connective", "msg", "tokens"}


def _lits(t):
    if isinstance(t, ast.Compare) and dotted(t.left) == "connective" and len(t.ops) == 1:
        c = t.comparators[0]
        if isinstance(c, (ast.Tuple, ast.List, ast.Set)):
            return [const_str(e) for e in c.elts]
        if const_str(c) is not None:
            return [const_str(c)]
    return None


def _stops_on_reserved(repo, fn, depth=0, seen=None):
    seen = seen or set()
    if id(fn) in seen:
        return False
    seen.add(id(fn))
    for n in ast.walk(fn):
        if isinstance(n, ast.Compare) and any(isinstance(c, ast.Name) and c.id == "Reserved" for c in n.comparators):
            return True
    if depth < 3:
        for n in ast.walk(fn):
            if isinstance(n, ast.Call) and (call_name(n) or "").startswith("self.parse"):
                for cal, _, _ in resolve_call(repo, n, fn):
                    if _stops_on_reserved(repo, cal, depth + 1, seen):
                        return True
    return False


def _eval_list(module, name, depth=0):
    """value of a module-level list expression built from literal lists and '+' of other names"""
    v = module_assign(module, name)

    def ev(e):
        if isinstance(e, (ast.List, ast.Tuple)):
            out = []
            for x in e.elts:
                s = const_str(x)
                if s is None:
                    raise AnchorError("%s is not a literal list of strings" % name)
                out.append(s)
            return out
        if isinstance(e, ast.BinOp) and isinstance(e.op, ast.Add):
            return ev(e.left) + ev(e.right)
        if isinstance(e, ast.Name):
            return _eval_list(module, e.id, depth + 1)
        raise AnchorError("%s: unsupported list expression %s" % (name, src(e)))
    return ev(v)


def implicit_concats(module, node):
    """adjacent string literal tokens inside the source span of node (a list display)"""
    seg = ast.get_source_segment(module.source, node) or ""
    out = []
    try:
        toks = [t for t in tokenize.generate_tokens(io.StringIO(seg).readline)
                if t.type not in (tokenize.NL, tokenize.NEWLINE, tokenize.COMMENT, tokenize.INDENT, tokenize.DEDENT)]
    except (tokenize.TokenError, IndentationError):
        return out
    for a, b in zip(toks, toks[1:]):
        if a.type == tokenize.STRING and b.type == tokenize.STRING:
            out.append((a.string, b.string))
    return out


def check(ctx):
    positional_parsing(ctx)
    # sub-parsers that read a variable number of tokens end at the next Reserved word (the next clause keyword); confirmed on the
    # reference tree, frozen here: one that stops looking at Reserved swallows the following clause in some orders only
    ctx.rule("T6-stoppers", "parseDirect/parseFields/parseIndirect/parseRelation/.. still end their look-ahead at Reserved words")
    STOPPERS = ("parseDirect", "parseFields", "parseIndirect", "parseRelation")
    Bc = ctx.cls("building", "Builder")
    for nm in STOPPERS:
        mth = Bc.own_method(nm)
        ctx.check(_stops_on_reserved(ctx.repo, mth), "T6-stoppers", mth, "Builder.%s ends at the next Reserved word" % nm,
                  "a clause keyword that follows is read as data of this clause (a field name, a value): the same clauses in "
                  "another order build something else")
    repo = ctx.repo
    bm = repo.mod("building")
    ctx.use(bm)
    B = ctx.cls("building", "Builder")
    ctx.rule("T6-absorb", "K subset of Reserved where a branch uses a Reserved-terminated sub-parser; K subset of every literal stop list")
    ctx.rule("T1-optional", "optional operands are refused when they are reserved words")
    ctx.rule("T10-else", "unknown connective => ParseError")
    ctx.rule("T-commute", "branches of a clause loop neither read what another branch writes nor write the same live variable")
    ctx.rule("D11", "no implicit string concatenation inside keyword list displays of building.py")
    reserved = set(_eval_list(bm, "Reserved"))
    connectives = _eval_list(bm, "Connectives")
    # D11 over all list displays of string literals in building.py that are used as keyword tables
    nlists = 0
    for n in ast.walk(bm.tree):
        if isinstance(n, (ast.List, ast.Tuple, ast.Set)) and len(n.elts) >= 2 and all(const_str(e) is not None for e in n.elts):
            nlists += 1
            for a, b in implicit_concats(bm, n):
                ctx.bad("D11", n, "%s %s" % (a, b), "two adjacent string literals inside a keyword list are silently "
                        "concatenated (a missing comma): both words drop out of the list, so neither stops a clause "
                        "parser and a following clause beginning with either word is absorbed")
    ctx.ok("D11", "ioflo/base/building.py", "%d literal keyword lists scanned for adjacent string tokens" % nlists)
    ctx.floor("D11:lists", nlists, 25)
    loops = 0
    for fname in LOOP_FUNCS:
        f = B.own_method(fname)
        V = FuncView(ctx, f)
        cl = None
        for w in walk_no_nested(f):
            wt = w.test if isinstance(w, ast.While) else None
            first = wt.values[0] if isinstance(wt, ast.BoolOp) and isinstance(wt.op, ast.And) else wt
            if wt is not None and src(first) == "index < len(tokens)" and w.body and \
                    isinstance(w.body[0], ast.Assign) and dotted(w.body[0].targets[0]) == "connective":
                cl = w
                break
        if cl is None:
            raise AnchorError("%s: clause loop not found" % fname)
        loops += 1
        chain = [s for s in cl.body if isinstance(s, ast.If)]
        if not chain:
            raise AnchorError("%s: clause dispatch chain not found" % fname)
        # flatten the dispatch: an if/elif chain on `connective`, or (normal form N5 of a one-branch chain)
        # a guard `if connective not in K / != k: raise` followed by the single branch's body
        branches = []   # (keywords, body, node)
        has_else = None
        first = [s for s in cl.body if isinstance(s, ast.If) and _lits(s.test) is not None]
        node = first[0] if first else (chain[-1] if len(chain) == 1 else chain[0])
        if not node.orelse and isinstance(node.test, ast.Compare) and isinstance(node.test.ops[0], (ast.NotIn, ast.NotEq)) \
                and _lits(node.test) is not None and any(isinstance(x, ast.Raise) for x in node.body):
            rest = cl.body[cl.body.index(node) + 1:]
            carrier = ast.If(test=node.test, body=rest, orelse=[])
            ast.copy_location(carrier, node)
            carrier._module = node._module
            branches.append((_lits(node.test), rest, carrier))
            has_else = node.body
        else:
            while True:
                ks = _lits(node.test)
                branches.append((ks, node.body, node))
                if len(node.orelse) == 1 and isinstance(node.orelse[0], ast.If):
                    node = node.orelse[0]
                    continue
                has_else = node.orelse
                break
        K = set()
        for ks, _, nd in branches:
            if ks is None:
                ctx.note("%s: branch test %s is not a connective comparison" % (fname, src(nd.test)))
            else:
                K |= set(ks)
        # (C)
        ok = bool(has_else) and any(isinstance(x, ast.Raise) and "ParseError" in src(x) for s in has_else for x in ast.walk(s))
        # need clauses (makeMarkerNeed) end at the first word that is not one of theirs: `if connective not in K: break`
        pre = [s for s in cl.body if isinstance(s, ast.If) and isinstance(s.test, ast.Compare) and dotted(s.test.left) == "connective"
               and isinstance(s.test.ops[0], ast.NotIn) and any(isinstance(x, ast.Break) for x in s.body)]
        if pre and not ok:
            stopk = {const_str(e) for e in pre[0].test.comparators[0].elts} if isinstance(pre[0].test.comparators[0], (ast.Tuple, ast.List)) else set()
            ok = K <= stopk and stopk <= K | {None}
        if not ok and isinstance(cl.test, ast.BoolOp) and isinstance(cl.test.op, ast.And) and len(cl.test.values) == 2:
            # the same stop list folded into the loop condition: `while index < len(tokens) and tokens[index] in K:`
            c2 = cl.test.values[1]
            if isinstance(c2, ast.Compare) and src(c2.left) == "tokens[index]" and isinstance(c2.ops[0], ast.In) and \
                    isinstance(c2.comparators[0], (ast.Tuple, ast.List)):
                stopk = {const_str(e) for e in c2.comparators[0].elts}
                ok = K <= stopk and stopk <= K | {None}
        ctx.check(ok, "T10-else", cl, "%s: unknown connective raises ParseError" % fname,
                  "an unknown clause keyword must be a parse error in every order")
        # (A)
        parsers = set()
        for n in ast.walk(cl):
            if isinstance(n, ast.Call) and (call_name(n) or "").startswith("self.parse"):
                for cal, _, _ in resolve_call(repo, n, f):
                    if _stops_on_reserved(repo, cal):
                        parsers.add(cal.name)
        if parsers:
            for k in sorted(K):
                ctx.check(k in reserved, "T6-absorb", cl, "%s: clause keyword %r is Reserved (its sibling clauses' sub-parsers stop only at Reserved words)"
                          % (fname, k),
                          "clause keyword %r is not in Reserved while branch sub-parsers %s of the same command stop only at "
                          "Reserved words: written after such a clause, %r is absorbed as data, so the clause order changes the "
                          "result" % (k, sorted(parsers), k))
        else:
            ctx.ok("T6-absorb", cl, "%s: fixed-arity branches only (K=%s)" % (fname, sorted(K)))
        # (B) hand-rolled stop lists anywhere in the function
        for w in ast.walk(f):
            if isinstance(w, ast.While) and w is not cl and src(w.test) == "index < len(tokens)":
                for t in ast.walk(w):
                    if isinstance(t, ast.If) and isinstance(t.test, ast.Compare) and src(t.test.left) == "tokens[index]" \
                            and isinstance(t.test.ops[0], ast.In) and any(isinstance(x, ast.Break) for x in t.body):
                        L = t.test.comparators[0]
                        if isinstance(L, (ast.List, ast.Tuple, ast.Set)):
                            stop = {const_str(e) for e in L.elts}
                            miss = sorted(K - stop)
                            ctx.check(not miss, "T6-absorb", t, "%s: part loop stop list %s covers K" % (fname, sorted(x for x in stop if x)),
                                      "the free-text part loop stops at %s but the command also has clause keywords %s: a clause "
                                      "beginning with one of them is absorbed into the preceding name" % (sorted(x for x in stop if x), miss))
        # (E) optional operands
        for t in ast.walk(cl):
            if isinstance(t, ast.If) and src(t.test).replace(" ", "").startswith("index<len(tokens)"):
                takes = [x for s in t.body for x in ast.walk(s) if isinstance(x, ast.Subscript) and src(x) == "tokens[index]"]
                if takes and not any(isinstance(s, (ast.While, ast.For)) for s in t.body):
                    guarded = "Reserved" in src(t.test) or any(
                        isinstance(x, ast.Compare) and isinstance(x.ops[0], (ast.In, ast.NotIn)) and
                        (dotted(x.comparators[0]) == "Reserved" or isinstance(x.comparators[0], (ast.List, ast.Tuple, ast.Set)))
                        for s in t.body for x in ast.walk(s))
                    ctx.check(guarded, "T1-optional", t, "%s: optional operand `%s` refused when reserved" % (fname, src(t.test)),
                              "an optional operand is taken from the next token whatever it is: when the clause is followed by "
                              "another clause, that clause's keyword is absorbed as the operand and the remaining words fail to "
                              "parse, while the other order builds")
        # (D) commutativity
        _commute(ctx, V, fname, cl, branches)
        # (F) the dispatch variable names the clause being parsed: a branch may re-use it for a look-ahead, but then no later
        # read in the same iteration may see *either* value (one reaching definition per read)
        inloop = {id(x) for x in ast.walk(cl)}
        amb = []
        for n in V.cfg.nodes:
            if id(n.ast) not in inloop:
                continue
            if any(isinstance(x, ast.Name) and x.id == "connective" and isinstance(x.ctx, ast.Load) for x in V.cfg.walk_node(n)):
                ds, _ = V.reaching_defs(n, "connective")
                if len(ds) > 1:
                    amb.append("line %d: %s" % (n.lineno, src(n.ast)[:50]))
        ctx.check(not amb, "T-commute", cl, "%s: every read of the clause word `connective` sees one definition %s" % (fname, amb[:2] or ""),
                  "a branch overwrites `connective` with a look-ahead token and code after the dispatch reads it: what is recorded or "
                  "tested for this clause depends on whether an operand followed, i.e. on the order of the clauses")
    ctx.floor("clause-loops", loops, 11)
    reserved_peeks(ctx, B)


def _branch_rw(V, body):
    """(writes, upward-exposed reads) of a branch body: names and self.attrs"""
    cfg = V.cfg
    ids = set()
    for s in body:
        for x in ast.walk(s):
            ids.add(id(x))
    nodes = [n for n in cfg.nodes if id(n.ast) in ids and n.copy == 0]
    nset = {n.id for n in nodes}
    writes = set()       # rebinding writes
    accum = set()        # accumulating writes (x.update(..), x[k] = v, x.append(..)): commute with each other
    reads = {}
    for n in nodes:
        recv_ids = set()
        for x in cfg.walk_node(n):
            if isinstance(x, ast.Call) and isinstance(x.func, ast.Attribute) and x.func.attr in (
                    "append", "extend", "update", "insert", "add", "setdefault", "__setitem__"):
                d = dotted(x.func.value)
                if d and d.count(".") <= 1:
                    accum.add(d)
                    for y in ast.walk(x.func.value):
                        recv_ids.add(id(y))
            if isinstance(x, ast.Subscript) and isinstance(x.ctx, (ast.Store, ast.Del)):
                d = dotted(x.value)
                if d and d.count(".") <= 1:
                    accum.add(d)
                    for y in ast.walk(x.value):
                        recv_ids.add(id(y))
        for x in cfg.walk_node(n):
            d = None
            if isinstance(x, ast.Name):
                d = x.id
            elif isinstance(x, ast.Attribute) and isinstance(x.value, ast.Name) and x.value.id == "self":
                d = "self." + x.attr
            if d is None or id(x) in recv_ids:
                continue
            if isinstance(x.ctx, (ast.Store, ast.Del)):
                writes.add(d)
            elif isinstance(x.ctx, ast.Load):
                reads.setdefault(d, []).append(n)
    # entry nodes of the branch: those with a predecessor outside the branch
    entries = [n.id for n in nodes if any(p not in nset for p, _ in cfg.pred[n.id])]
    ue = set()
    for d, rnodes in reads.items():
        defs = [n.id for n in nodes if any(isinstance(x, ast.Name) and isinstance(x.ctx, ast.Store) and x.id == d
                                           for x in cfg.walk_node(n))]
        outside = [m.id for m in cfg.nodes if m.id not in nset]
        for rn in rnodes:
            if rn.id in defs and not isinstance(rn.ast, ast.AugAssign):
                # the same statement writes it: the read may still be exposed (x = x + 1)
                pass
            reach = set()
            for e in entries:
                reach |= cfg.reachable(e, removed_nodes=[x for x in defs if x != rn.id] + outside)
            if rn.id in reach or rn.id in entries:
                ue.add(d)
                break
    return writes, ue, accum


def _commute(ctx, V, fname, cl, branches):
    # names live after the loop: loaded anywhere in the function outside the loop after it
    f = V.fn
    loop_ids = {id(x) for x in ast.walk(cl)}
    after = set()
    for x in ast.walk(f):
        if id(x) in loop_ids:
            continue
        if isinstance(x, ast.Name) and isinstance(x.ctx, ast.Load) and getattr(x, "lineno", 0) > cl.lineno:
            after.add(x.id)
        elif isinstance(x, ast.Attribute) and isinstance(x.ctx, ast.Load) and isinstance(x.value, ast.Name) and x.value.id == "self":
            after.add("self." + x.attr)
    rw = []
    for ks, body, nd in branches:
        w, ue, acc = _branch_rw(V, body)
        rw.append((ks, w - CURSOR, ue - CURSOR, acc - CURSOR))
    trailing = TRAILING.get(fname, set())
    problems = []
    for i, (ki, wi, ui, ai) in enumerate(rw):
        for j, (kj, wj, uj, aj) in enumerate(rw):
            if i >= j:
                continue
            if trailing and (set(ki or []) & trailing or set(kj or []) & trailing):
                continue
            ww = ((wi & wj) | (wi & aj) | (wj & ai)) & after    # rebinding against any other write
            wr = ((wi | ai) & uj) | ((wj | aj) & ui)
            if ww:
                problems.append("clauses %s and %s both write %s, which is used after the loop (last clause wins)" % (ki, kj, sorted(ww)))
            if wr:
                problems.append("clause %s/%s: one reads %s that the other writes" % (ki, kj, sorted(wr)))
    ctx.check(not problems, "T-commute", cl, "%s: %d clause branches commute" % (fname, len(rw)),
              "; ".join(problems[:3]) + ": the parse result depends on the order of the clauses")


TRAILING = {"buildAux": {"if", "and"}}   # the property excludes aux's trailing condition clause


def reserved_peeks(ctx, B):
    """look-ahead discipline of optional operands: `x = tokens[index]` followed by a test `x in Reserved`.  When the token
    turns out to be reserved it was only peeked, not consumed: x must be re-assigned before it is used as a value (error
    messages excepted), otherwise the keyword of the *next* clause becomes the operand and the result depends on clause order"""
    ctx.rule("T1-peek", "a peeked token found to be Reserved is never used as the operand value (re-assigned first)")
    inst = 0
    for name, f in sorted(B.methods.items()):
        if not name.startswith(("parse", "build", "make")):
            continue
        V = FuncView(ctx, f)
        cfg = V.cfg
        raises = [n.id for n in cfg.nodes if n.kind == "raise"]
        for A in cfg.nodes:
            a = A.ast
            if not (isinstance(a, ast.Assign) and len(a.targets) == 1 and isinstance(a.targets[0], ast.Name) and src(a.value) == "tokens[index]"):
                continue
            X = a.targets[0].id
            for tn, lab in V.ptests("%s in Reserved" % X):
                if not V.dominated([tn], [A]):
                    continue
                inst += 1
                bad = None
                seen, stack = set(), [b for b, l in cfg.succ[tn.id] if l == lab]
                while stack and bad is None:
                    i = stack.pop()
                    if i in seen:
                        continue
                    seen.add(i)
                    n = cfg.nodes[i]
                    stores = any(isinstance(x, ast.Name) and x.id == X and isinstance(x.ctx, ast.Store) for x in cfg.walk_node(n))
                    use = n.kind not in ("test", "raise") and any(isinstance(x, ast.Name) and x.id == X and isinstance(x.ctx, ast.Load)
                                                                  for x in cfg.walk_node(n))
                    if use and not (raises and cfg.always_reaches([n.id], raises)):
                        bad = n
                        break
                    if stores:
                        continue
                    stack.extend(b for b, _ in cfg.succ.get(i, []))
                ctx.check(bad is None, "T1-peek", tn.ast, "%s: `%s = tokens[index]` found reserved is re-assigned before use%s" % (
                    name, X, "" if bad is None else " (used at line %d: %s)" % (bad.lineno, src(bad.ast)[:50])),
                    "the reserved word of the following clause is returned as the optional operand although it was not consumed: "
                    "`... of framer with a 1` names framer `with`, while the permuted clause order names `me`")
    ctx.floor("T1-peek:instances", inst, 20)


def positional_parsing(ctx):
    """the clause parsers work from the current position: (tokens, index) in, new index out.  Locating a clause by searching the
    whole command for a word (tokens.index(word) without a start, `word in tokens`, tokens.count) finds the first occurrence
    anywhere - the result then depends on which clauses came before"""
    ctx.rule("T6-position", "no Builder method searches the whole token list for a word (tokens.index(x) without start, x in tokens, "
             "tokens.count(x))")
    B = ctx.cls("building", "Builder")
    k = 0
    # the matcher must still recognise what it is for (a rule whose expected count is zero would otherwise pass vacuously)
    probe = ast.parse("i = tokens.index(w)\nif w in tokens: pass\nn = tokens.count(w)\nj = tokens.index(w, i)")
    if sum(1 for x in ast.walk(probe) if _global_search(x)) != 3:
        raise AnchorError("T6-position matcher no longer recognises its positive examples")
    for mn, f in sorted(B.methods.items()):
        if "tokens" not in {a.arg for a in f.args.args}:
            continue
        k += 1
        for x in ast.walk(f):
            bad = _global_search(x)
            if bad:
                ctx.bad("T6-position", x, "Builder.%s: %s" % (mn, bad),
                        "the first occurrence of the word in the whole command is not the clause that follows the current position: "
                        "with an earlier clause using the same connective the parser cuts the wrong slice, so one order of the same "
                        "clauses builds and another raises or builds something else")
    ctx.floor("T6-position:parsers", k, 60)


def _global_search(x):
    if isinstance(x, ast.Call) and isinstance(x.func, ast.Attribute) and dotted(x.func.value) == "tokens":
        if x.func.attr == "index" and len(x.args) < 2:
            return src(x)
        if x.func.attr == "count":
            return src(x)
    elif isinstance(x, ast.Compare) and len(x.ops) == 1 and isinstance(x.ops[0], (ast.In, ast.NotIn)) and \
            dotted(x.comparators[0]) == "tokens":
        return src(x)
    return None
