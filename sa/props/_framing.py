"""Shared rule groups for the frame state-machine properties C05-C11 (framing.py, acting.py)."""
import ast

from ..model import AnchorError, call_name, const_str, dotted, src, parent
from ..rules import (FuncView, suffix_match, check_writers, attr_writers, func_qual_of, defect_scope)

LEGACY_HARNESS = {
    "ioflo/base/building.py:Test": "module-level legacy self-test harness; writes House.actives, a different class's attribute",
    "ioflo/base/building.py:TestProfile": "legacy harness",
    "ioflo/base/skedding.py:Test": "legacy harness (house.actives of a local object)",
    "ioflo/base/skedding.py:TestProfile": "legacy harness",
}


def _self_receiver_class(repo, node):
    """if the written attribute's receiver is the `self` of an enclosing method, that class"""
    from ..callgraph import owner_class, self_name
    from ..model import enclosing_func
    f = enclosing_func(node)
    while f is not None:
        if isinstance(f, (ast.FunctionDef, ast.AsyncFunctionDef)):
            ci = owner_class(repo, f)
            if ci is not None:
                sn = self_name(f)
                if isinstance(node.value, ast.Name) and node.value.id == sn:
                    return ci
                return None
        f = enclosing_func(f)
    return None


def writers_in(ctx, rule, attr, allowed, floor, why, owner=("framing", None)):
    """T4, receiver-aware: a write through `self` inside a class unrelated to the owning class
    is a different attribute of the same name and is skipped; writes through any other receiver
    are counted (unknown type => conservative).  Frozen legacy-harness exemptions apply."""
    n = 0
    owner_cls = None
    for a in allowed:
        cn = a.split(":")[1].split(".")[0]
        owner_cls = ctx.repo.cls(a.split(":")[0][:-3].replace("/", "."), cn)
        break
    for node, kind in attr_writers(ctx.repo, attr):
        q = func_qual_of(ctx.repo, node)
        ctx.use(node)
        if q in LEGACY_HARNESS:
            ctx.note("T4 exemption %s: %s" % (q, LEGACY_HARNESS[q]))
            continue
        rc = _self_receiver_class(ctx.repo, node)
        if rc is not None and owner_cls is not None and not (rc.is_subclass_of(owner_cls) or owner_cls.is_subclass_of(rc)):
            continue
        n += 1
        ok = q in allowed
        ctx.check(ok, rule, node, "%s of .%s in %s" % (kind, attr, q),
                  "attribute .%s is written outside %s: %s" % (attr, sorted(x.split(":")[1] for x in allowed), why),
                  detail="%s %s" % (kind, src(parent(node))[:80]))
    ctx.floor(rule + ":" + attr, n, floor)


FR = "ioflo/base/framing.py:"


def loops_over(V, pat):
    def name(it):
        return dotted(it) or (call_name(it) if isinstance(it, ast.Call) and not it.args else None)
    return [n for n in V.cfg.nodes if n.kind == "for" and suffix_match(name(n.ast.iter), pat)]


def every_iteration_passes(V, header, nodes):
    """every path header -(iter)-> ... -> header passes one of nodes (paths that leave the
    function instead of coming back are not iterations that continue)"""
    via = set(V.ids(nodes))
    V.ctx.paths += 1
    starts = [b for b, lab in V.cfg.succ[header.id] if lab == "iter"]
    for s in starts:
        if s in via:
            continue
        r = V.cfg.reachable(s, removed_nodes=via)
        if header.id in r:
            return False
    return bool(starts)


def every_iteration_passes_while(V, wtest, nodes):
    """every path from the T edge of a while test back to the test passes one of nodes"""
    via = set(V.ids(nodes))
    V.ctx.paths += 1
    starts = [b for b, lab in V.cfg.succ[wtest.id] if lab == "T"]
    for s in starts:
        if s in via:
            continue
        if wtest.id in V.cfg.reachable(s, removed_nodes=via):
            return False
    return bool(starts)


def call_in_loop(V, loop_pat, call_pat):
    """cfg call nodes for call_pat that sit inside a for-loop over loop_pat"""
    out = []
    for h in loops_over(V, loop_pat):
        inside = {id(x) for x in ast.walk(h.ast)}
        out += [n for n in V.call_nodes(call_pat) if id(n.ast) in inside]
    return out


# ------------------------------------------------------------------------ C05
def outline_state(ctx):
    ctx.rule("T4-actives", ".actives is written only by Framer.__init__/change/deactivate, .active only by "
             "__init__/activate/deactivate")
    ctx.rule("T5-change", "Framer.change is called only as change(self.active.outline, self.active.human) "
             "(reactivate) and change(main.head, main.headHuman) (Suspender.action)")
    ctx.rule("T3-activate", "activate stores .active then reactivates; exitAll ends in deactivate which "
             "clears actives/active")
    ctx.rule("T9-outline", "traceOutline climbs .over from self, reverses, then descends primary .under; "
             "traceHead is the climbing half; .outline/.head written only there")
    writers_in(ctx, "T4-actives", "actives", {FR + "Framer.__init__", FR + "Framer.change", FR + "Framer.deactivate"},
               3, "the active outline of a framer")
    writers_in(ctx, "T4-actives", "active", {FR + "Framer.__init__", FR + "Framer.activate", FR + "Framer.deactivate"},
               3, "the active frame of a framer")
    # callers of Framer.change(actives, human): arguments bound by position or keyword, and read by value (a frame hoisted
    # into a local is the same argument)
    chg = ctx.fn("framing", "Framer.change")
    pnames = [a.arg for a in chg.args.args][1:3]
    sites = []
    for m in ctx.repo.modules.values():
        if m.is_test:
            continue
        for n in ast.walk(m.tree):
            if isinstance(n, ast.Call) and isinstance(n.func, ast.Attribute) and n.func.attr == "change" \
                    and len(n.args) + len(n.keywords) == 2 and all(k.arg in pnames for k in n.keywords) \
                    and dotted(n.func.value) in ("self", "framer", "self.framer", "main.framer"):
                sites.append(n)
    ctx.floor("T5-change:callers", len(sites), 2)
    from ..model import enclosing_func
    for c in sites:
        q = func_qual_of(ctx.repo, c)
        bound = dict(zip(pnames, c.args))
        bound.update({k.arg: k.value for k in c.keywords})
        fn_ = enclosing_func(c)
        W = FuncView(ctx, fn_)
        cn_ = [n for n, cc in W.calls(("self.change", "framer.change", "self.framer.change", "main.framer.change")) if cc is c]
        at = cn_[0] if cn_ else None
        args = tuple(src(W.sym(bound[p], at)) if at is not None and p in bound else src(bound.get(p)) for p in pnames)
        if at is not None:
            # a name that was just stored into an attribute of self stands for that attribute (`self.active = active;
            # self.change(active.outline, ..)`): same object unless the name is rebound in between
            al = {}
            for sn in W.cfg.nodes:
                if isinstance(sn.ast, ast.Assign) and len(sn.ast.targets) == 1 and isinstance(sn.ast.targets[0], ast.Attribute) and \
                        dotted(sn.ast.targets[0].value) == "self" and isinstance(sn.ast.value, ast.Name) and W.dominated([at], [sn]):
                    x = sn.ast.value.id
                    redefs = [d for d in W._def_nodes(x) if d in W.cfg.reachable(sn.id) and at.id in W.cfg.reachable(d) and d != sn.id]
                    if not redefs:
                        al[x] = "self." + sn.ast.targets[0].attr
            args = tuple((al[a.split(".")[0]] + a[len(a.split(".")[0]):]) if a.split(".")[0] in al else a for a in args)
        if q.startswith(FR + "Framer.") and args == ("self.active.outline", "self.active.human"):
            ok = dotted(c.func.value) == "self"        # the full outline of the active frame, from any Framer method (reactivate or inlined)
        elif q == "ioflo/base/acting.py:Suspender.action":
            ok = args == ("main.head", "main.headHuman") and src(W.sym(c.func.value, at)) in ("framer", "main.framer")
        else:
            ok = False
        ctx.check(ok, "T5-change", c, "%s in %s" % (src(c), q),
                  "the active outline may only be set to the active frame's full outline, or cut at a "
                  "conditional auxiliary's main frame (main.head)")
    act = ctx.fn("framing", "Framer.activate")
    A = FuncView(ctx, act)
    st = A.need(A.stores("self.active"), "self.active = ... in activate")
    ra = A.call_nodes("self.reactivate") or \
        [n for n, c in A.calls("self.change") if [src(a) for a in c.args] in (["self.active.outline", "self.active.human"],
                                                                               ["active.outline", "active.human"])]
    A.need(ra, "self.reactivate() (or its body) in activate")
    ctx.check(A.dominated(ra, st) and A.always_then([A.cfg.entry], ra) and
              isinstance(st[0].ast, ast.Assign) and dotted(st[0].ast.value) == "active",
              "T3-activate", act, "activate: self.active = active; self.reactivate()",
              "activating a frame must set the active frame and then rebuild the active outline from it")
    de = ctx.fn("framing", "Framer.deactivate")
    D = FuncView(ctx, de)
    sa = D.stores("self.actives")
    sc = D.stores("self.active")
    ok = bool(sa) and bool(sc) and all(isinstance(n.ast, ast.Assign) and isinstance(n.ast.value, ast.List)
                                         and not n.ast.value.elts for n in sa) and \
        all(isinstance(n.ast, ast.Assign) and isinstance(n.ast.value, ast.Constant) and n.ast.value.value is None for n in sc) \
        and D.always_then([D.cfg.entry], sa) and D.always_then([D.cfg.entry], sc)
    ctx.check(ok, "T3-activate", de, "deactivate: actives = [] and active = None",
              "a stopped or aborted framer must have no active frames")
    ea = ctx.fn("framing", "Framer.exitAll")
    E = FuncView(ctx, ea)
    ctx.check(E.always_then([E.cfg.entry], E.need(E.call_nodes("self.deactivate"), "deactivate() in exitAll")),
              "T3-activate", ea, "exitAll always reaches deactivate()", "exitAll must leave no active frames")
    # trace methods
    to = ctx.fn("framing", "Frame.traceOutline")
    _trace_shape(ctx, to, "outline", descend=True)
    th = ctx.fn("framing", "Frame.traceHead")
    _trace_shape(ctx, th, "head", descend=False)
    writers_in(ctx, "T9-outline", "outline", {FR + "Frame.__init__", FR + "Frame.traceOutline"}, 2,
               "a frame's outline is a build-time constant of the frame hierarchy")
    writers_in(ctx, "T9-outline", "head", {FR + "Frame.__init__", FR + "Frame.traceHead"}, 2,
               "a frame's head is a build-time constant of the frame hierarchy")
    gu = ctx.fn("framing", "Frame.getUnder")
    rets = [n for n in ast.walk(gu) if isinstance(n, ast.Return) and n.value is not None]
    ok = any(src(r.value) == "self.unders[0]" for r in rets)
    ctx.check(ok, "T9-outline", gu, "under = unders[0] (primary child)", "the outline descends through the "
              "primary (first) under frame")
    tos = ctx.fn("framing", "Framer.traceOutlines")
    T = FuncView(ctx, tos)
    for meth in ("frame.traceOutline", "frame.traceHead", "frame.traceHuman", "frame.traceHeadHuman"):
        ctx.check(bool(call_in_loop(T, "Frame.Names.values", meth)), "T9-outline", tos,
                  "traceOutlines calls %s for every frame" % meth, "every frame's outline must be traced at resolve time")
    rs = ctx.fn("framing", "Framer.resolve")
    R = FuncView(ctx, rs)
    tr = R.need(R.call_nodes("self.traceOutlines"), "traceOutlines() in Framer.resolve")
    ctx.check(R.always_then(call_in_loop(R, "Frame.Names.values", "frame.resolve") or [R.cfg.entry], tr),
              "T9-outline", rs, "Framer.resolve traces outlines after resolving frames",
              "outlines must be traced from the resolved over/under links")


def _trace_shape(ctx, fn, attr, descend):
    V = FuncView(ctx, fn)
    cfg = V.cfg
    whiles = [n for n in cfg.nodes if n.kind == "test" and isinstance(n.ast, ast.While)]
    ups = [w for w in whiles if any(isinstance(x, ast.Assign) and src(x.value).endswith(".over") for x in ast.walk(w.ast))]
    downs = [w for w in whiles if any(isinstance(x, ast.Assign) and src(x.value).endswith(".under") for x in ast.walk(w.ast))]
    rev = V.call_nodes("reverse")
    st = V.stores("self." + attr)

    def in_loop(n, w):
        return id(n.ast) in {id(x) for x in ast.walk(w.ast)} and n.id != w.id
    ok = len(ups) == 1 and bool(st)
    lst = None
    if ok:
        app = [(n, c) for n, c in V.attr_calls(("append", "insert")) if in_loop(n, ups[0])]
        ok = len(app) == 1
        if ok:
            n0, c0 = app[0]
            lst = dotted(c0.func.value)
            if c0.func.attr == "append":        # bottom-up collection, reversed once afterwards
                ok = len(rev) == 1 and V.dominated(rev, ups) and V.dominated(st, rev) and dotted(rev[0].ast.value.func.value) == lst \
                    if isinstance(rev[0].ast, ast.Expr) and isinstance(rev[0].ast.value, ast.Call) else False
            else:                               # each frame put in front: top ends up left-most, nothing to reverse
                ok = not rev and len(c0.args) == 2 and isinstance(c0.args[0], ast.Constant) and c0.args[0].value == 0
            ok = ok and V.dominated(st, ups)
    # climbing starts from self
    starts = [n for n in cfg.nodes if isinstance(n.ast, ast.Assign) and dotted(n.ast.value) == "self"
              and isinstance(n.ast.targets[0], ast.Name)]
    ok = ok and bool(starts) and V.dominated(ups, starts)
    after_up = rev if rev else ups
    if descend:
        ok = ok and len(downs) == 1 and V.dominated(st, downs)
        seed = [n for n in cfg.nodes if isinstance(n.ast, ast.Assign) and src(n.ast.value) == "self.under"]
        ok = ok and bool(seed) and V.dominated(downs, seed)
        if ok:
            dapp = [(n, c) for n, c in V.attr_calls(("append",)) if in_loop(n, downs[0])]
            ok = len(dapp) == 1
            if ok:
                dl = dotted(dapp[0][1].func.value)
                if dl == lst:                   # appended directly below the climbed part
                    ok = V.dominated(downs, after_up)
                else:                           # collected separately, then appended as a whole
                    ext = [n for n, c in V.attr_calls(("extend",)) if dotted(c.func.value) == lst and c.args and
                           dotted(c.args[0]) == dl]
                    ok = len(ext) == 1 and V.dominated(ext, after_up) and V.dominated(ext, downs) and V.dominated(st, ext)
    else:
        ok = ok and not downs
    # the stored list is the traced one
    ok = ok and all(isinstance(s_.ast, ast.Assign) and dotted(s_.ast.value) == lst for s_ in st)
    ctx.check(ok, "T9-outline", fn, "%s: climb .over from self, reverse%s, store self.%s"
              % (fn.name, ", descend primary .under" if descend else "", attr),
              "the %s must be the chain from the top of the hierarchy down to the frame%s"
              % (attr, " and on through each primary child to a leaf" if descend else ""))
    for s in st:
        v = s.ast.value if isinstance(s.ast, ast.Assign) else None
        ctx.check(v is not None and isinstance(v, ast.Name), "T9-outline", s.ast, src(s.ast),
                  "self.%s must be assigned the traced list" % attr)


# ------------------------------------------------------------------------ C06
def transition_order(ctx):
    ctx.rule("T3-trans", "Transiter.action order: needs -> ExEn -> checkEnter -> tracts -> exit(exits) -> "
             "rexit(copy of reexens) -> renter(reexens) -> enter(enters) -> activate(far)")
    ctx.rule("T9-ExEn", "ExEn splits at the first i with nears[i] is far or nears[i] is not fars[i] and "
             "returns nears[i:], fars[i:], nears[:i] with the same i; identity comparisons; no split => "
             "empty exits and enters")
    ctx.rule("T3-bottomup", "Framer.exit/rexit reverse once before iterating, enter/renter iterate in order")
    ctx.rule("T2-auxpair", "Frame.enter: own enacts, then per aux main=self (originals) before enterAll; "
             "Frame.exit: aux exitAll + release before own exacts; Suspender._resolve installs deactivize "
             "as exit action of the main frame")
    ctx.rule("T9-entered", "lists reaching Framer.exit derive from the full outline, not the truncated .actives")
    ta = ctx.fn("acting", "Transiter.action")
    V = FuncView(ctx, ta)
    cfg = V.cfg
    needs = V.need(loops_over(V, "needs"), "loop over needs")
    exen = V.need(V.call_nodes("Framer.ExEn"), "Framer.ExEn(...) call")
    chk = V.need([n for n in V.tests(lambda t: any(isinstance(x, ast.Call) and suffix_match(call_name(x), "framer.checkEnter")
                                                 for x in ast.walk(t)))], "framer.checkEnter test")
    tracts = V.need(loops_over(V, "self._tracts"), "loop over self._tracts")
    ex = V.need(V.call_nodes("framer.exit"), "framer.exit")
    rx = V.need(V.call_nodes("framer.rexit"), "framer.rexit")
    rn = V.need(V.call_nodes("framer.renter"), "framer.renter")
    en = V.need(V.call_nodes("framer.enter"), "framer.enter")
    ac = V.need(V.call_nodes("framer.activate"), "framer.activate")
    groups = [set(V.ids(g)) for g in (needs, exen, chk, tracts, ex, rx, rn, en, ac)]
    ok, p = V.order_on_paths(cfg.entry, [cfg.exit], groups, max_visits=2)
    ctx.check(ok, "T3-trans", ta, "order of effects in Transiter.action" + ("" if ok else ": " + V.path_text(p)),
              "a transition must evaluate needs, compute exits/enters, check entry, run transit actions, exit "
              "bottom-up, re-exit, re-enter, enter, then activate the target - in that order")
    far_ret = [n for n in cfg.nodes if n.kind == "return" and n.ast.value is not None and dotted(n.ast.value) == "far"]
    for g, what in ((ex, "exit"), (rx, "rexit"), (rn, "renter"), (en, "enter"), (ac, "activate")):
        ctx.check(V.always_then(chk, g, ends=far_ret) if far_ret else False, "T3-trans", g[0].ast,
                  "taken transition always performs %s" % what,
                  "a taken transition (returns far) must perform framer.%s on every path" % what)
    # argument shapes
    exc = [c for n, c in V.calls("Framer.ExEn")][0]
    tgt = parent(exc)
    names = [e.id for e in tgt.targets[0].elts] if isinstance(tgt, ast.Assign) and isinstance(tgt.targets[0], ast.Tuple) \
        and all(isinstance(e, ast.Name) for e in tgt.targets[0].elts) else None
    ctx.check(names is not None and len(names) == 3, "T3-trans", exc, "exits, enters, reexens = ExEn(...)",
              "ExEn's three results must be unpacked")
    if names and len(names) == 3:
        EX, EN, RE = names

        def arg0(pat):
            c = [c for n, c in V.calls(pat)][0]
            return c.args[0] if c.args else (c.keywords[0].value if c.keywords else None)
        ctx.check(dotted(arg0("framer.exit")) == EX, "T3-trans", ex[0].ast, "framer.exit(%s)" % EX, "exit gets the exits list")
        rxn = [n for n, c_ in V.calls("framer.rexit")][0]
        a = V.sym(arg0("framer.rexit"), rxn)        # by value: `rexits = reexens[:]; framer.rexit(rexits)` is the same copy
        is_copy = (isinstance(a, ast.Subscript) and dotted(a.value) == RE and isinstance(a.slice, ast.Slice)
                   and a.slice.lower is None and a.slice.upper is None) or \
            (isinstance(a, ast.Call) and call_name(a) == "list" and dotted(a.args[0]) == RE)
        inplace = bool(FuncView(ctx, ctx.fn("framing", "Framer.rexit")).call_nodes("rexits.reverse"))
        ctx.check(is_copy or not inplace, "T3-trans", rx[0].ast, "framer.rexit(copy of %s): %s" % (RE, src(a)),
                  "rexit reverses its argument in place, so it must get a copy; otherwise renter would run "
                  "bottom-up instead of top-down")
        ctx.check(dotted(arg0("framer.renter")) == RE, "T3-trans", rn[0].ast, "framer.renter(%s)" % RE, "renter gets reexens in top-down order")
        ctx.check(dotted(arg0("framer.enter")) == EN, "T3-trans", en[0].ast, "framer.enter(%s)" % EN, "enter gets the enters list")
        c = [c for n, c in V.calls("framer.checkEnter")][0]
        got = [dotted(x) for x in c.args] + [dotted(k.value) for k in c.keywords]
        ctx.check(got == [EN, EX], "T3-trans", c, src(c), "checkEnter must be given (enters, exits)")
        a = [c for n, c in V.calls("framer.activate")][0]
        av = a.args[0] if a.args else a.keywords[0].value
        ctx.check(dotted(av) == "far", "T3-trans", a, src(a), "the target frame becomes active")
    # entered-set rule
    a0 = V.sym(exc.args[0], exen[0]) if exc.args else None
    has_outline = a0 is not None and any(isinstance(x, ast.Attribute) and x.attr == "outline" for x in ast.walk(a0))
    has_actives = a0 is not None and any(isinstance(x, ast.Attribute) and x.attr == "actives" for x in ast.walk(a0))
    ctx.check(has_outline and not has_actives, "T9-entered", exc,
              "%s(%s)" % (src(exc.func), ", ".join([src(a0)] + [src(a) for a in exc.args[1:]])) if a0 is not None else src(exc),
              "the current outline handed to ExEn is `.actives`, which a running conditional auxiliary "
              "truncates to its main frame's head: when a transition fires in a frame at or above that main "
              "frame, the frames suspended below it were entered but are never exited")
    # ExEn shape
    fe = ctx.fn("framing", "Framer.ExEn")
    _exen_shape(ctx, fe)
    # bottom-up / top-down
    from .c03 import _reverse_then_loop
    _reverse_then_loop(ctx, ctx.fn("framing", "Framer.exit"), "exits", "exit")
    _reverse_then_loop(ctx, ctx.fn("framing", "Framer.rexit"), "rexits", "rexit")
    for name, arg, meth in (("enter", "enters", "enter"), ("renter", "renters", "renter")):
        f = ctx.fn("framing", "Framer." + name)
        W = FuncView(ctx, f)
        lp = [n for n in W.cfg.nodes if n.kind == "for" and dotted(n.ast.iter) == arg]
        W.need(lp, "for frame in %s" % arg)
        ctx.check(not W.call_nodes(("reverse", "reversed", "sort", "sorted")) and bool(W.call_nodes("frame." + meth)),
                  "T3-bottomup", f, "Framer.%s iterates %s in given (top-down) order" % (name, arg),
                  "frames must be %sed top-down" % meth)
    aux_pairing(ctx)


def _exen_shape(ctx, fe):
    V = FuncView(ctx, fe)
    loops = [n for n in V.cfg.nodes if n.kind == "for"]
    V.need(loops, "index loop in ExEn")
    h = loops[0]
    it = h.ast.iter
    itv = V.sym(it, h)
    okb = isinstance(itv, ast.Call) and call_name(itv) == "range" and len(itv.args) == 1 and \
        src(itv.args[0]).replace(" ", "").replace("far.outline", "fars") in ("min(len(nears),len(fars))", "min(len(fars),len(nears))")
    elem = {}
    tg = h.ast.target
    if not okb and isinstance(itv, ast.Call) and call_name(itv) == "enumerate" and len(itv.args) == 1 and \
            isinstance(itv.args[0], ast.Call) and call_name(itv.args[0]) == "zip" and \
            [src(a).replace("far.outline", "fars") for a in itv.args[0].args] == ["nears", "fars"] and \
            isinstance(tg, ast.Tuple) and len(tg.elts) == 2 and isinstance(tg.elts[0], ast.Name) and \
            isinstance(tg.elts[1], ast.Tuple) and len(tg.elts[1].elts) == 2 and all(isinstance(e, ast.Name) for e in tg.elts[1].elts):
        # for i, (near, other) in enumerate(zip(nears, fars)): zip stops at the common length; the element names stand for
        # nears[i] / fars[i]
        okb = True
        elem = {tg.elts[1].elts[0].id: "nears[%s]" % tg.elts[0].id, tg.elts[1].elts[1].id: "fars[%s]" % tg.elts[0].id}
        tg = tg.elts[0]
    ctx.check(okb and isinstance(tg, ast.Name), "T9-ExEn", h.ast, "for %s in %s" % (src(h.ast.target), src(itv)),
              "the comparison must run over the common length of both outlines")
    i = tg.id if isinstance(tg, ast.Name) else "i"
    fars = [n for n in V.cfg.nodes if isinstance(n.ast, ast.Assign) and dotted(n.ast.targets[0]) == "fars"]
    ctx.check(bool(fars) and src(fars[0].ast.value) == "far.outline", "T9-ExEn", fe, "fars = far.outline",
              "the target outline is the target frame's full outline")
    tests = [t for t in V.cfg.nodes if t.kind == "test" and isinstance(t.ast, ast.If) and id(t.ast) in {id(x) for x in ast.walk(h.ast)}]
    V.need(tests, "split test in ExEn loop")
    t = tests[0].ast.test
    want = {"nears[%s] is far" % i, "nears[%s] is not fars[%s]" % (i, i)}
    def spell(v):
        class R(ast.NodeTransformer):
            def visit_Name(self, n):
                return ast.parse(elem[n.id], mode="eval").body if n.id in elem else n
        from ..inline import clone
        return src(R().visit(clone(v)))
    got = {spell(v) for v in t.values} if isinstance(t, ast.BoolOp) and isinstance(t.op, ast.Or) else {spell(t)}
    ctx.check(got == want, "T9-ExEn", t, src(t),
              "the split point is the first index where the current frame is the target itself (forced "
              "re-entry) or differs from the target outline, compared by identity")
    rets = [n for n in V.cfg.nodes if n.kind == "return"]
    inloop = [r for r in rets if V.dominated_by_edge([r], tests[0], "T")]
    V.need(inloop, "return inside split test")
    for r in inloop:
        want_r = "(nears[%s:], fars[%s:], nears[:%s])" % (i, i, i)
        ctx.check(src(r.ast.value).replace(" ", "") == want_r.replace(" ", ""), "T9-ExEn", r.ast, src(r.ast.value),
                  "exits, enters and the re-exit/re-enter part must be cut at the same index: exits = current "
                  "outline from the split down, enters = target outline from the split down, reexens = the "
                  "shared ancestors above it")
    rest = [r for r in rets if r not in inloop]
    for r in rest:
        v = r.ast.value
        ok = isinstance(v, ast.Tuple) and len(v.elts) == 3 and isinstance(v.elts[0], ast.List) and not v.elts[0].elts \
            and isinstance(v.elts[1], ast.List) and not v.elts[1].elts
        ctx.check(ok, "T9-ExEn", r.ast, src(v), "when no split point exists nothing may be exited or entered "
                  "(the transition is then refused by the empty-enters guard)")
    ctx.floor("T9-ExEn:returns", len(rets), 2)


def aux_pairing(ctx):
    fe = ctx.fn("framing", "Frame.enter")
    V = FuncView(ctx, fe)
    en = V.need(loops_over(V, "self.enacts"), "loop over self.enacts")
    ax = V.need(loops_over(V, "self.auxes"), "loop over self.auxes in Frame.enter")
    ctx.check(V.dominated(ax, en) and not (set(V.ids(en)) & V.reach(ax[0])), "T2-auxpair", fe,
              "Frame.enter: own enter actions before auxiliaries", "a frame's own enter actions run before its auxiliaries start")
    ea = V.need(call_in_loop(V, "self.auxes", "aux.enterAll"), "aux.enterAll() in Frame.enter")
    sets = [n for n in V.stores("aux.main")]
    ok = bool(sets) and all(isinstance(s.ast, ast.Assign) and dotted(s.ast.value) == "self" for s in sets)
    otest = V.tests(lambda t: dotted(t) == "aux.original")
    ok = ok and bool(otest) and all(V.dominated_by_edge([s], otest[0], "T") for s in sets)
    # enterAll after the ownership assignment within an iteration: assignment not reachable from enterAll without passing header
    h = ax[0]
    ok = ok and all(s.id not in V.cfg.reachable(ea[0].id, removed_nodes=[h.id]) for s in sets)
    # every iteration with aux.original passes the assignment before enterAll
    ok = ok and V.cfg.must_pass([ea[0].id], [s.id for s in sets], start=h.id,
                                via_edges=V.cfg.edges_from(otest[0].id, "F") if otest else ())
    ctx.check(ok, "T2-auxpair", fe, "Frame.enter: if aux.original: aux.main = self; then aux.enterAll()",
              "an original auxiliary must be claimed by the entering frame before it is started")
    fx = ctx.fn("framing", "Frame.exit")
    X = FuncView(ctx, fx)
    xa = X.need(call_in_loop(X, "self.auxes", "aux.exitAll"), "aux.exitAll() in Frame.exit")
    rel = [n for n in X.stores("aux.main")]
    ok = bool(rel) and all(isinstance(s.ast, ast.Assign) and isinstance(s.ast.value, ast.Constant) and s.ast.value.value is None for s in rel)
    ok = ok and all(X.dominated([s], xa, start=loops_over(X, "self.auxes")[0]) for s in rel)
    ctx.check(ok, "T2-auxpair", fx, "Frame.exit: aux.exitAll() then aux.main = None",
              "an auxiliary is fully exited and then released when its main frame exits")
    sr = ctx.fn("acting", "Suspender._resolve")
    S = FuncView(ctx, sr)
    side = [c for n, c in S.calls("SideAct")]
    ok = bool(side)
    for c in side:
        kw = {k.arg: k.value for k in c.keywords}
        ok = ok and const_str(kw.get("action")) == "deactivize" and dotted(kw.get("actor")) == "self"
    add = S.call_nodes("frame.addExact")
    ok = ok and bool(add) and S.always_then([S.cfg.entry], add)
    ctx.check(ok, "T2-auxpair", sr, "Suspender._resolve adds SideAct(action='deactivize') to the frame's exit actions",
              "leaving the main frame must exit a running conditional auxiliary")
    dz = ctx.fn("acting", "Suspender.deactivize")
    Z = FuncView(ctx, dz)
    t = Z.tests(lambda t: src(t) == "not aux.done")
    d = Z.call_nodes("self.deactivate")
    ctx.check(bool(t) and bool(d) and Z.dominated_by_edge(d, t[0], "T"), "T2-auxpair", dz,
              "deactivize: if not aux.done: self.deactivate(aux)", "only a running conditional aux is force-exited")
    dd = ctx.fn("acting", "Suspender.deactivate")
    Dd = FuncView(ctx, dd)
    xa = Dd.need(Dd.call_nodes("aux.exitAll"), "aux.exitAll() in Suspender.deactivate")
    rel = Dd.stores("aux.main")
    ctx.check(Dd.always_then([Dd.cfg.entry], xa) and bool(rel) and Dd.dominated(rel, xa), "T2-auxpair", dd,
              "Suspender.deactivate: aux.exitAll() then release", "a deactivated aux is fully exited, then released")
    # Suspender.action uses aux.done as its "not running" flag: every deactivation must leave done True (exitAll sets it only
    # when it is not an abort)
    calls = [c for n, c in Dd.calls("aux.exitAll")]
    def falsy_here(v):
        # a literal falsy value, or a parameter of deactivate whose default is falsy and that no caller in the package ever supplies
        if isinstance(v, ast.Constant):
            return not v.value
        if isinstance(v, ast.Name):
            a = dd.args
            names = [x.arg for x in a.args]
            if v.id in names:
                i = names.index(v.id) - (len(names) - len(a.defaults))
                dflt = a.defaults[i] if i >= 0 else None
                if not (isinstance(dflt, ast.Constant) and not dflt.value):
                    return False
                if any(isinstance(x, ast.Name) and x.id == v.id and isinstance(x.ctx, ast.Store) for x in ast.walk(dd)):
                    return False
                pos = names.index(v.id) - 1       # position among the call's arguments (self bound)
                for m in ctx.repo.modules.values():
                    if m.is_test:
                        continue
                    for x in ast.walk(m.tree):
                        if isinstance(x, ast.Call) and isinstance(x.func, ast.Attribute) and x.func.attr == dd.name and \
                                (len(x.args) > pos or any(k.arg in (v.id, None) for k in x.keywords) or any(isinstance(z, ast.Starred) for z in x.args)):
                            return False
                return True
        return False
    plain = all(not c.args and all(k.arg == "abort" and falsy_here(k.value) for k in c.keywords) for c in calls)
    ea_ = ctx.fn("framing", "Framer.exitAll")
    Ea = FuncView(ctx, ea_)
    dset = [n for n in Ea.stores("done") if isinstance(n.ast, ast.Assign) and isinstance(n.ast.value, ast.Constant) and n.ast.value.value is True]
    ctx.check(plain and bool(dset) and all("abort" not in f.replace("not abort", "") for n in dset for f in Ea.facts(n)), "T2-auxpair", dd,
              "Suspender.deactivate exits the aux as completed (exitAll() without abort) so aux.done becomes True",
              "a conditional aux cut short by the exit of its main frame but left with done == False is taken for still running: on "
              "re-entry of the main frame the later clauses and lower frames are skipped forever and the aux is never started again")


def claim_after_checks(ctx, S, rule):
    """Suspender.action: the conditional aux is claimed (aux.main = <this frame>) only once its start can no longer be refused:
    every path from the claim leads to aux.enterAll() - a refusal (`return None` after a failed need, ownership test or
    checkStart) after the claim would leave the auxiliary owned by a frame that never started it"""
    cl = [n for n in S.stores("aux.main") if isinstance(n.ast, ast.Assign) and not (isinstance(n.ast.value, ast.Constant) and n.ast.value.value is None)]
    ea = S.call_nodes("aux.enterAll")
    S.need(cl, "claim `aux.main = <frame>` in Suspender.action")
    S.need(ea, "aux.enterAll() in Suspender.action")
    bad = None
    for c in cl:
        r = S.cfg.reachable(c.id, removed_nodes=[e.id for e in ea])
        rets = [S.cfg.nodes[i] for i in r if S.cfg.nodes[i].kind == "return"]
        if rets or S.cfg.exit.id in r:
            bad = rets[0] if rets else c
    ctx.check(bad is None, rule, (bad.ast if bad is not None else cl[0].ast), "Suspender.action claims the aux only on the path that enters it",
              "a start refused after the claim (failed checkStart, ..) leaves aux.main set: the refused attempt has an effect - the "
              "auxiliary stays owned by a frame that is not running it, and every other frame is refused as `in use`")


def frame_check_enter(ctx, rule="T1-checkEnter"):
    """Frame.checkEnter: before-enter conditions, auxiliary ownership and first-frame checks (shared by C08 and C09)"""
    # Frame.checkEnter
    fr = ctx.fn("framing", "Frame.checkEnter")
    R = FuncView(ctx, fr)
    rets = [n for n in R.cfg.nodes if n.kind == "return"]
    true_rets = [r for r in rets if isinstance(r.ast.value, ast.Constant) and r.ast.value.value is True]
    false_rets = [r for r in rets if isinstance(r.ast.value, ast.Constant) and r.ast.value.value is False]
    bl = loops_over(R, "self.beacts")
    if not bl and any(isinstance(x, ast.Attribute) and x.attr == "beacts" for x in ast.walk(fr)):
        # the conditions are still consulted, but not one by one with a refusal at the first that fails
        ctx.bad(rule, fr, "Frame.checkEnter does not loop over self.beacts refusing at the first unsatisfied condition",
                "every before-enter condition must hold (a conjunction): `any(..)` over the conditions, or a count, lets a frame in "
                "when one of two `let me if` conditions holds - a start fiat then reports success for a slave that must stay stopped")
        return
    bl = R.need(bl, "loop over self.beacts")
    al = R.need(loops_over(R, "self.auxes"), "loop over self.auxes in Frame.checkEnter")
    ok = bool(true_rets) and len(true_rets) + len(false_rets) == len(rets)
    for r in true_rets:
        for h in (bl[0], al[0]):
            ok = ok and not (R.cfg.reachable(R.cfg.entry.id, removed_edges=R.cfg.edges_from(h.id, "done")) & {r.id})
    ctx.check(ok, rule, fr, "Frame.checkEnter returns True only after both loops ran to completion",
              "entry is allowed only when every before-enter condition and every auxiliary check passed")
    nt = R.tests(lambda t: isinstance(t, ast.UnaryOp) and isinstance(t.op, ast.Not) and isinstance(t.operand, ast.Call)
                 and dotted(t.operand.func) == "need")
    ctx.check(bool(nt) and any(R.dominated_by_edge([r], nt[0], "T") for r in false_rets), rule, fr,
              "if not need(): return False", "the first unsatisfied before-enter condition refuses entry")
    ot = R.tests(lambda t: isinstance(t, ast.BoolOp) and isinstance(t.op, ast.And) and
                 {src(v) for v in t.values} == {"aux.main", "aux.main is not self", "aux.main not in exits"})
    ctx.check(bool(ot) and any(R.dominated_by_edge([r], ot[0], "T") for r in false_rets), rule, fr,
              "aux.main and aux.main is not self and aux.main not in exits => False",
              "a frame whose original auxiliary is owned by another frame that is not being exited must not be entered")
    st = R.tests(lambda t: isinstance(t, ast.UnaryOp) and isinstance(t.op, ast.Not) and isinstance(t.operand, ast.Call)
                 and dotted(t.operand.func) == "aux.checkStart")
    ctx.check(bool(st) and any(R.dominated_by_edge([r], st[0], "T") for r in false_rets), rule, fr,
              "if not aux.checkStart(): return False", "an auxiliary whose first-frame conditions fail refuses entry of its main frame")
    ctx.check(bool(nt) and every_iteration_passes(R, bl[0], nt), rule, fr,
              "every before-enter condition is evaluated", "an iteration of the beacts loop skips the condition")
    ctx.check(bool(ot) and bool(st) and every_iteration_passes(R, al[0], ot) and every_iteration_passes(R, al[0], st),
              rule, fr, "every auxiliary gets the ownership test and checkStart",
              "an iteration of the auxes loop skips the ownership test or the first-frame check")


# ------------------------------------------------------------------------ C08
def entry_guards(ctx):
    ctx.rule("T1-guard", "in Transiter.action every effect (tracts, exit, rexit, renter, enter, activate, any "
             "attribute store) is dominated by a truthy framer.checkEnter(enters, exits)")
    ctx.rule("T1-checkEnter", "Framer.checkEnter: False for empty enters and at the first refusing frame; "
             "Frame.checkEnter: True only after every beact, the aux ownership test and aux.checkStart passed")
    ctx.rule("T1-susp", "Suspender.action: aux.enterAll dominated by needs, ownership test and aux.checkStart()")
    ctx.rule("T4-clocks", "timer/counter restart only under `if enters`; clock fields written only by the clock methods")
    ta = ctx.fn("acting", "Transiter.action")
    V = FuncView(ctx, ta)
    chk = V.need(V.ptests(lambda t: isinstance(t, ast.Call) and suffix_match(call_name(t), "framer.checkEnter")),
                 "test of framer.checkEnter(...)")
    c, passed = chk[0]                       # `passed`: the edge on which the check succeeded
    refused = "F" if passed == "T" else "T"
    effects = []
    for pat in ("framer.exit", "framer.rexit", "framer.renter", "framer.enter", "framer.activate"):
        effects += V.need(V.call_nodes(pat), pat)
    effects += V.need(loops_over(V, "self._tracts"), "tracts loop")
    for e in effects:
        ctx.check(V.dominated_by_edge([e], c, passed), "T1-guard", e.ast, "%s guarded by checkEnter" % V.cfg.describe(e.id),
                  "a refused transition must run none of its exit, re-exit, re-enter, enter or transit actions")
    tsucc = [b for b, lab in V.cfg.succ[c.id] if lab == refused]
    r = V.cfg.reachable(tsucc[0]) if tsucc else set()
    rets = [i for i in r if V.cfg.nodes[i].kind == "return"]
    ok = bool(rets) and all(V.cfg.nodes[i].ast.value is None or (isinstance(V.cfg.nodes[i].ast.value, ast.Constant) and
                                                                V.cfg.nodes[i].ast.value.value in (None, False)) for i in rets) \
        and not any(V.cfg.nodes[i].id in set(V.ids(effects)) for i in r)
    ctx.check(ok, "T1-guard", c.ast, "refused => return None before any effect", "a refused transition returns a falsy result at once")
    stores = [n for n in V.cfg.nodes if any(isinstance(x, (ast.Attribute, ast.Subscript)) and isinstance(x.ctx, (ast.Store, ast.Del))
                                            for x in V.cfg.walk_node(n))]
    for s in stores:
        ctx.check(V.dominated_by_edge([s], c, passed), "T1-guard", s.ast, src(s.ast)[:80],
                  "no framer/frame state may be written before the entry check passed")
    ctx.ok("T1-guard", ta, "%d attribute/item stores in Transiter.action, all after the guard" % len(stores))
    # Framer.checkEnter
    fc = ctx.fn("framing", "Framer.checkEnter")
    F = FuncView(ctx, fc)
    emp = F.need(F.tests(lambda t: src(t) == "not enters"), "`if not enters` test")
    rets = [n for n in F.cfg.nodes if n.kind == "return"]
    false_rets = [r for r in rets if isinstance(r.ast.value, ast.Constant) and r.ast.value.value is False]
    true_rets = [r for r in rets if isinstance(r.ast.value, ast.Constant) and r.ast.value.value is True]
    ok = any(F.dominated_by_edge([r], emp[0], "T") for r in false_rets)
    ctx.check(ok, "T1-checkEnter", fc, "empty enters => False", "a transition that changes nothing in the outline is refused")
    lp = F.need(loops_over(F, "enters"), "loop over enters")
    ft = F.tests(lambda t: isinstance(t, ast.UnaryOp) and isinstance(t.op, ast.Not) and isinstance(t.operand, ast.Call)
                 and suffix_match(call_name(t.operand), "frame.checkEnter"))
    F.need(ft, "`if not frame.checkEnter(...)`")
    ok = any(F.dominated_by_edge([r], ft[0], "T") for r in false_rets) and bool(true_rets) and \
        all(not (F.cfg.reachable(F.cfg.entry.id, removed_edges=F.cfg.edges_from(lp[0].id, "done")) & {r.id}) for r in true_rets) \
        and len(true_rets) + len(false_rets) == len(rets)
    ctx.check(ok, "T1-checkEnter", fc, "first refusing frame => False; True only after the loop over enters",
              "every frame to be entered must pass its entry check")
    ctx.check(every_iteration_passes(F, lp[0], ft), "T1-checkEnter", fc,
              "every frame in enters is checked (no iteration skips frame.checkEnter)",
              "some path through the loop over the frames to be entered skips that frame's entry check: its "
              "before-enter conditions and auxiliary checks are bypassed")
    cc = [c for n, c in F.calls("frame.checkEnter")]
    ctx.check(all(any(k.arg == "exits" and dotted(k.value) == "exits" for k in c.keywords) or
                  (c.args and dotted(c.args[0]) == "exits") for c in cc), "T1-checkEnter", fc,
              "frame.checkEnter(exits=exits)", "the exits list must reach the aux ownership test")
    cs = ctx.fn("framing", "Framer.checkStart")
    rr = [n for n in ast.walk(cs) if isinstance(n, ast.Return)]
    ctx.check(len(rr) == 1 and src(rr[0].value).replace(" ", "") == "self.checkEnter(enters=self.first.outline)",
              "T1-checkEnter", cs, "checkStart = checkEnter(enters=self.first.outline)",
              "starting a framer checks the entry conditions of its first frame's whole outline")
    frame_check_enter(ctx, "T1-checkEnter")
    # Suspender.action
    sa = ctx.fn("acting", "Suspender.action")
    S = FuncView(ctx, sa)
    ea = S.need(S.call_nodes("aux.enterAll"), "aux.enterAll() in Suspender.action")
    claim_after_checks(ctx, S, "T1-susp")
    nt = S.need(need_tests(S), "`if not act()` needs test")
    from ..rules import path_condition, formula_implies_f, formula_of
    nl = S.need(loops_over(S, "needs"), "needs loop")
    OWN = "not (aux.main and aux.main is not self._act.frame)"
    START = "aux.checkStart()"

    def guarded(nodes):
        # by value: whatever the spelling (separate guard clauses, one merged test, nested ifs), the node runs only when the aux
        # is free or ours AND its entry check passed
        for n in nodes:
            pc = path_condition(S, n)
            if not (formula_implies_f(pc, formula_of(OWN)) and formula_implies_f(pc, formula_of(START))):
                return False
        return True
    ok = guarded(ea) and \
        not (S.cfg.reachable(S.cfg.entry.id, removed_edges=S.cfg.edges_from(nl[0].id, "done")) & set(S.ids(ea))) and \
        all(nl[0].id not in S.cfg.reachable(g.id) and g.id not in S.cfg.reachable(nl[0].id)
            for g in S.need(S.call_nodes("aux.segue"), "aux.segue()"))      # conditions belong to the not-running case only
    ctx.check(ok, "T1-susp", sa, "aux.enterAll() only after needs, ownership test and checkStart passed",
              "a conditional auxiliary may start only when its conditions hold, it is not owned by another frame, "
              "and its first-frame entry conditions hold (aux.checkStart() must be consulted for a free aux as well)")
    tr = loops_over(S, "self._tracts")
    ctx.check(bool(tr) and guarded(tr), "T1-susp", sa,
              "transit actions of the conditional aux after all guards", "a refused start runs no transit actions")
    clocks(ctx, guard_only=True)


# ------------------------------------------------------------------------ C11 / clocks
def clocks(ctx, guard_only=False):
    fe = ctx.fn("framing", "Framer.enter")
    V = FuncView(ctx, fe)
    t = V.tests(lambda t: dotted(t) == "enters")
    rt = V.call_nodes("self.restartTimer")
    rc = V.call_nodes("self.restartCounter")
    lp = V.need(loops_over(V, "enters"), "loop over enters")
    if not (t and rt and rc):
        ctx.bad("T4-clocks", fe, "Framer.enter does not restart timer and counter under `if enters`",
                "elapsed and recurred must restart whenever frames are (re-)entered - including a forced re-entry of the "
                "active frame, which produces non-empty enters without changing the active frame - and must not restart "
                "when nothing is entered")
        t = rt = rc = None
    if t:
        ok = V.dominated_by_edge(rt + rc, t[0], "T") and V.dominated(lp, t)
        ok = ok and all(n.id not in V.reach(lp[0]) for n in rt + rc)
        tsucc = [b for b, lab in V.cfg.succ[t[0].id] if lab == "T"]
        ok = ok and bool(tsucc) and V.cfg.always_reaches([t[0].id], V.ids(rt) + [b for b, lab in V.cfg.succ[t[0].id] if lab == "F"],
                                                         ends=[lp[0].id]) \
            and V.cfg.always_reaches([t[0].id], V.ids(rc) + [b for b, lab in V.cfg.succ[t[0].id] if lab == "F"], ends=[lp[0].id])
        ctx.check(ok, "T4-clocks", fe, "if enters: restartTimer(); restartCounter() before entering",
                  "elapsed/recurred restart exactly when the outline changes (non-empty enters), and a refused "
                  "transition leaves them unchanged")
    callers = {"restartTimer": {FR + "Framer.enter"}, "restartCounter": {FR + "Framer.enter"},
               "updateTimer": {FR + "Framer.segue"}, "updateCounter": {FR + "Framer.segue"}}
    for meth, allowed in callers.items():
        k = 0
        for m in ctx.repo.modules.values():
            if m.is_test:
                continue
            for n in ast.walk(m.tree):
                if isinstance(n, ast.Call) and isinstance(n.func, ast.Attribute) and n.func.attr == meth:
                    q = func_qual_of(ctx.repo, n)
                    k += 1
                    ctx.check(q in allowed, "T4-clocks", n, "%s called in %s" % (meth, q),
                              "%s may only be called from %s" % (meth, sorted(allowed)))
        ctx.floor("T4-clocks:" + meth, k, 1)
    writers_in(ctx, "T4-clocks", "elapsed", {FR + "Framer.__init__", FR + "Framer.restartTimer", FR + "Framer.updateTimer"}, 3,
               "framer elapsed clock")
    writers_in(ctx, "T4-clocks", "recurred", {FR + "Framer.__init__", FR + "Framer.restartCounter", FR + "Framer.updateCounter"}, 3,
               "framer iteration counter")
    if guard_only:
        return
    ctx.rule("T9-clock", "elapsed = store.stamp - self.stamp; restart sets stamp = store.stamp, elapsed = 0; "
             "recurred += 1 / = 0; each mirrored to its share; segue updates both before any need is evaluated")
    sg = ctx.fn("framing", "Framer.segue")
    S = FuncView(ctx, sg)
    ut = S.need(S.call_nodes("self.updateTimer"), "updateTimer() in segue")
    uc = S.need(S.call_nodes("self.updateCounter"), "updateCounter() in segue")
    firsts = loops_over(S, "self.actives")
    S.need(firsts, "loops over self.actives in segue")
    ctx.check(S.dominated(firsts, ut) and S.dominated(firsts, uc) and S.always_then([S.cfg.entry], ut) and
              S.always_then([S.cfg.entry], uc), "T9-clock", sg, "segue: updateTimer(); updateCounter() before any frame is evaluated",
              "whenever a transition condition is evaluated the clocks must already be current")
    ut_f = ctx.fn("framing", "Framer.updateTimer")
    U = FuncView(ctx, ut_f)
    st = [n for n in U.stores("self.elapsed") if isinstance(n.ast, ast.Assign) and isinstance(n.ast.value, ast.BinOp)]
    ok = bool(st) and all(src(s.ast.value).replace(" ", "") == "self.store.stamp-self.stamp" for s in st)
    ok = ok and U.always_then([U.cfg.entry], U.need(U.call_nodes("self.updateElapsed"), "updateElapsed()"))
    ctx.check(ok, "T9-clock", ut_f, "elapsed = self.store.stamp - self.stamp; updateElapsed()",
              "elapsed is store time since the outline last changed")
    rt_f = ctx.fn("framing", "Framer.restartTimer")
    Rr = FuncView(ctx, rt_f)
    s1 = [n for n in Rr.stores("self.stamp") if isinstance(n.ast, ast.Assign) and src(n.ast.value) == "self.store.stamp"]
    s2 = [n for n in Rr.stores("self.elapsed") if isinstance(n.ast, ast.Assign) and isinstance(n.ast.value, ast.Constant) and n.ast.value.value == 0]
    ctx.check(bool(s1) and bool(s2) and Rr.always_then([Rr.cfg.entry], Rr.call_nodes("self.updateElapsed")), "T9-clock", rt_f,
              "restartTimer: stamp = store.stamp; elapsed = 0.0; updateElapsed()", "timer restart")
    uc_f = ctx.fn("framing", "Framer.updateCounter")
    aug = [n for n in ast.walk(uc_f) if isinstance(n, ast.AugAssign) and dotted(n.target) == "self.recurred"]
    ok = len(aug) == 1 and isinstance(aug[0].op, ast.Add) and isinstance(aug[0].value, ast.Constant) and aug[0].value.value == 1
    ctx.check(ok and any(isinstance(x, ast.Call) and call_name(x) == "self.updateRecurred" for x in ast.walk(uc_f)),
              "T9-clock", uc_f, "recurred += 1; updateRecurred()", "one iteration per segue")
    rc_f = ctx.fn("framing", "Framer.restartCounter")
    z = [n for n in ast.walk(rc_f) if isinstance(n, ast.Assign) and dotted(n.targets[0]) == "self.recurred"]
    ctx.check(len(z) == 1 and isinstance(z[0].value, ast.Constant) and z[0].value.value == 0 and
              any(isinstance(x, ast.Call) and call_name(x) == "self.updateRecurred" for x in ast.walk(rc_f)),
              "T9-clock", rc_f, "recurred = 0; updateRecurred()", "counter restart")
    for fname, shr, val in (("updateElapsed", "elapsedShr", "self.elapsed"), ("updateRecurred", "recurredShr", "self.recurred")):
        f = ctx.fn("framing", "Framer." + fname)
        cs = [n for n in ast.walk(f) if isinstance(n, ast.Call) and call_name(n) == "self.%s.update" % shr]
        ok = len(cs) == 1 and any(k.arg == "value" and src(k.value) == val for k in cs[0].keywords)
        ctx.check(ok, "T9-clock", f, "%s.update(value=%s)" % (shr, val), "the store share mirrors the clock")


# ------------------------------------------------------------------------ C09
def aux_lifetime(ctx):
    ctx.rule("T3-aux", "segue runs segueAuxes for all actives before any precur; Frame.recur runs own reacts "
             "then aux.recur; enterAll = done False, activate(first), enter(actives)")
    ctx.rule("T1-owner", "resolveAuxLinks: a clone gets a fixed main once (refuses a second), an original is "
             "registered once per name in framer.auxes")
    ctx.rule("T9-done", "CompleteDone sets .done = True; NeedDoneAux any/all/named forms")
    aux_pairing(ctx)
    sg = ctx.fn("framing", "Framer.segue")
    S = FuncView(ctx, sg)
    sa = S.need(call_in_loop(S, "self.actives", "frame.segueAuxes"), "frame.segueAuxes() loop in segue")
    pc = S.need([n for n in S.cfg.nodes if n.kind == "test" and any(
        isinstance(x, ast.Call) and suffix_match(call_name(x), "frame.precur") for x in ast.walk(n.ast.test))], "frame.precur() test in segue")
    l1 = [h for h in loops_over(S, "self.actives") if id(sa[0].ast) in {id(x) for x in ast.walk(h.ast)}][0]
    ok = not (S.cfg.reachable(S.cfg.entry.id, removed_edges=S.cfg.edges_from(l1.id, "done")) & set(S.ids(pc)))
    ctx.check(ok, "T3-aux", sg, "all auxiliaries' transitions before any main-framer transition",
              "auxiliary transitions of every active frame run before the main framer's transition conditions")
    rets = [n for n in S.cfg.nodes if n.kind == "return"]
    ctx.check(any(S.dominated_by_edge([r], pc[0], "T") for r in rets), "T3-aux", sg, "segue returns at the first truthy precur",
              "the first taken transition ends evaluation for the tick")
    fr = ctx.fn("framing", "Frame.recur")
    R = FuncView(ctx, fr)
    a = R.need(loops_over(R, "self.reacts"), "reacts loop")
    b = R.need(call_in_loop(R, "self.auxes", "aux.recur"), "aux.recur() loop")
    ctx.check(R.dominated(b, a) and not (set(R.ids(a)) & R.reach(b[0])), "T3-aux", fr, "own recur actions then aux.recur()",
              "an auxiliary's recur actions run right after its main frame's")
    ea = ctx.fn("framing", "Framer.enterAll")
    E = FuncView(ctx, ea)
    d = [n for n in E.stores("self.done") if isinstance(n.ast, ast.Assign) and isinstance(n.ast.value, ast.Constant) and n.ast.value.value is False]
    ac = E.need(E.calls("self.activate"), "activate in enterAll")
    en = E.need(E.calls("self.enter"), "enter in enterAll")
    ok = bool(d) and src(ac[0][1].args[0]) == "self.first" and src(en[0][1].args[0]) == "self.actives" and \
        E.dominated([en[0][0]], [ac[0][0]]) and E.always_then([E.cfg.entry], [en[0][0]])
    ctx.check(ok, "T3-aux", ea, "enterAll: done = False; activate(self.first); enter(self.actives)",
              "an auxiliary starts at its first frame each time its main frame is entered")
    ra = ctx.fn("framing", "Frame.resolveAuxLinks")
    A = FuncView(ctx, ra)
    setm = [n for n in A.stores("aux.main") if isinstance(n.ast, ast.Assign) and dotted(n.ast.value) == "self"]
    mt = A.tests(lambda t: dotted(t) == "aux.main")
    raises = [n for n in A.cfg.nodes if n.kind == "raise"]
    ok = bool(setm) and bool(mt) and any(A.dominated_by_edge([r], mt[0], "T") for r in raises) and \
        all(A.dominated_by_edge([s], mt[0], "F") for s in setm)
    ctx.check(ok, "T1-owner", ra, "clone: `if aux.main: raise` precedes aux.main = self",
              "a cloned auxiliary can have only one main frame")
    reg = [n for n in A.cfg.nodes if any(isinstance(x, ast.Subscript) and isinstance(x.ctx, ast.Store) and
                                        dotted(x.value) == "self.framer.auxes" for x in A.cfg.walk_node(n))]
    nt = A.ptests("aux.name not in self.framer.auxes")
    st = A.ptests("self.framer.auxes[aux.name] is not aux")
    ok = bool(reg) and bool(nt) and all(A.under([r], nt[0]) for r in reg) and bool(st) and \
        any(A.under([r], st[0]) for r in raises)
    ctx.check(ok, "T1-owner", ra, "original: registered once per name in framer.auxes, a different aux of the same name is refused",
              "auxiliary names are unique within a framer")
    # ... and at run time: a frame is not entered while its original auxiliary is owned by a frame that is not being exited
    frame_check_enter(ctx, "T1-owner")
    cd = ctx.fn("completing", "CompleteDone.action")
    C = FuncView(ctx, cd)
    lp = C.need(loops_over(C, "taskers"), "loop over taskers")
    ds = [n for n in C.stores("tasker.done") if isinstance(n.ast, ast.Assign) and isinstance(n.ast.value, ast.Constant) and n.ast.value.value is True]
    ctx.check(bool(ds) and all(id(d.ast) in {id(x) for x in ast.walk(lp[0].ast)} for d in ds), "T9-done", cd,
              "for tasker in taskers: tasker.done = True", "`done` marks every named auxiliary complete")
    nd = ctx.fn("needing", "NeedDoneAux.action")
    N = FuncView(ctx, nd)
    # by partial evaluation on the word given for the aux (`any` / `all`), then the named form by its guard
    from ..rules import peval

    def canon(e):
        t = src(e).replace(" ", "")
        return t.replace("([", "(").replace("])", ")").replace("((", "(").replace("))", ")")
    forms = {"any": "any(aux.doneforauxinframe.auxes)", "all": "frame.auxesandall(aux.doneforauxinframe.auxes)"}
    for word, want in forms.items():
        got = [canon(e) for k, e, h in peval(N, {"tasker": word}) if k == "return" and e is not None]
        # the frame-less form (no `in frame`) is decided separately below; with a frame the result is the documented reduction
        got = [g for g in got if g != "tasker.done" and g != "'%s'.done" % word]
        okq = bool(got) and all(g == want for g in got)
        if not okq and set(got) == {"True", "False"}:
            # explicit loop form of the same reduction (normal form of `result = any(..)` / `all(..)`)
            from ..rules import quantifier_loops
            qs = [q for q in quantifier_loops(N) if q["iter"] == "frame.auxes" and ("tasker == %r" % word) in N.facts(q["node"])]
            if word == "any":
                okq = len(qs) == 1 and qs[0]["kind"] == "any" and qs[0]["test"] == qs[0]["var"] + ".done" and qs[0]["sets"] is True
            else:
                okq = len(qs) == 1 and qs[0]["kind"] == "all" and qs[0]["test"] == "not %s.done" % qs[0]["var"] and qs[0]["sets"] is False and \
                    "frame.auxes" in N.facts(qs[0]["node"])
        ctx.check(okq, "T9-done", nd, "tasker == %r -> %s (got %s)" % (word, want, sorted(set(got))),
                  "`if aux %s is done` must observe the completion state of the frame's auxiliaries" % word)
    named = {canon(e) for k, e, h in peval(N, {"tasker": "SOMEAUX"}) if k == "return" and e is not None}
    inline_guard = "'SOMEAUX'.doneif'SOMEAUX'inframe.auxeselseFalse"
    okn = bool(named) and named <= {inline_guard, "'SOMEAUX'.done", "False"} and (inline_guard in named or {"'SOMEAUX'.done", "False"} <= named)
    if okn and inline_guard not in named:
        # statement form: the assignment/return of tasker.done given a frame sits under `tasker in frame.auxes`
        sites = [n for n in N.cfg.nodes if n.kind != "test" and any(isinstance(x, ast.Attribute) and src(x) == "tasker.done" for x in N.cfg.walk_node(n))]
        guarded = [n for n in sites if "tasker in frame.auxes" in N.symfacts(n)]
        framed = [n for n in sites if "frame" in N.facts(n) or "tasker in frame.auxes" in N.symfacts(n) or not any(f in N.facts(n) for f in ("not frame",))]
        okn = bool(guarded) and all(("tasker in frame.auxes" in N.symfacts(n)) or ("not frame" in N.facts(n)) for n in sites)
    ctx.check(okn, "T9-done", nd, "named aux: result = tasker.done when it is an aux of the frame, else False (got %s)" % sorted(named),
              "named form observes that auxiliary")
    nd1 = ctx.fn("needing", "NeedDone.action")
    v = [n for n in ast.walk(nd1) if isinstance(n, ast.Return)]
    N1 = FuncView(ctx, nd1)
    ok = len(v) == 1 and src(N1.sym(v[0].value, [n for n in N1.cfg.nodes if n.kind == "return"][0])) == "tasker.done"
    ctx.check(ok, "T9-done", nd1, "NeedDone returns tasker.done", "`if tasker is done`")
    b = ctx.repo.cls("building", "Builder")
    entries = [b.own_method("buildDone"), ctx.fn("completing", "Complete._resolve"), cd, nd, nd1,
               ctx.fn("needing", "NeedDone._resolve"), ctx.fn("needing", "NeedDoneAux._resolve")]
    mdn = b.methods.get("makeDoneNeed")
    if mdn is not None:
        entries.append(mdn)
    defect_scope(ctx, "D-scope", entries, max_depth=1, floor=7, label="scope: done/complete builders, resolvers, actions")


# ------------------------------------------------------------------------ C10
def suspender(ctx):
    ctx.rule("T3-susp", "Suspender.action inactive region: needs -> ownership -> checkStart -> tracts -> claim -> "
             "enterAll -> recur; completing in the first run deactivates and returns None without truncating; "
             "otherwise change(main.head, main.headHuman) and a truthy result")
    ctx.rule("T3-active", "active region: segue -> recur, needs are not evaluated; on completion deactivate then "
             "framer.reactivate() and None (resume same tick, no enter)")
    ctx.rule("T1-buildaux", "buildAux refuses `clone` together with a condition")
    ctx.rule("T9-suspended", "while a conditional aux runs, transitions are computed against the truncated .actives (or the "
             "suspender re-truncates every tick): a transition may not re-activate frames below the main frame")
    sa = ctx.fn("acting", "Suspender.action")
    S = FuncView(ctx, sa)
    cfg = S.cfg
    ta = ctx.fn("acting", "Transiter.action")
    TV = FuncView(ctx, ta)
    ex_ = TV.need(TV.calls(("framing.Framer.ExEn", "framer.ExEn", "Framer.ExEn")), "Framer.ExEn(...) in Transiter.action")
    n0, c0 = ex_[0]
    a0 = TV.sym(c0.args[0], n0) if c0.args else None
    full = a0 is not None and any(isinstance(x, ast.Attribute) and x.attr == "outline" for x in ast.walk(a0)) and \
        not any(isinstance(x, ast.Attribute) and x.attr == "actives" for x in ast.walk(a0))
    chg = [n for n, c in S.calls("framer.change")]
    ctx.check((not full) or len(chg) >= 2, "T9-suspended", c0, "Transiter.action: ExEn(%s, far)" % (src(a0) if a0 is not None else "?"),
              "computing a transition from the full outline while a conditional aux has truncated .actives lets a clause of a frame "
              "above the main frame transit to a frame *below* it: activate(far) restores the full outline, the lower frame is "
              "entered and recurs every tick although the aux is still running (the suspender truncates only once, at aux start)")
    claim_after_checks(ctx, S, "T3-susp")
    ea = S.need(S.call_nodes("aux.enterAll"), "aux.enterAll()")
    rc = S.need(S.call_nodes("aux.recur"), "aux.recur()")
    sg = S.need(S.call_nodes("aux.segue"), "aux.segue()")
    de = S.need(S.call_nodes("self.deactivate"), "self.deactivate(aux)")
    ch = S.need(S.call_nodes("framer.change"), "framer.change(...)")
    ra = S.call_nodes("framer.reactivate")
    if not ra:
        ctx.bad("T3-active", sa, "Suspender.action never calls framer.reactivate()",
                "when the conditional auxiliary completes, the suspended frames must resume by restoring the outline of the "
                "framer's *active* frame (framer.reactivate()); any other list (e.g. the main frame's own primary outline) "
                "resumes the wrong frames when the active leaf is not on the main frame's primary chain")
        return
    nl = S.need(loops_over(S, "needs"), "needs loop")
    # Regions, independent of how the two cases are spelled (`if aux.done: .. if not aux.done: ..`, or one test with an
    # early return):  tests on aux.done evaluated before the aux has run this tick are ENTRY tests; a node is in the
    # inactive region when it runs only if aux.done held at entry, in the active region when it runs only if it did not.
    # Tests on aux.done after aux.recur() are COMPLETION tests.
    dts = S.need(S.ptests("aux.done"), "tests on aux.done")
    runs = ea + sg + rc

    def after_run(t):
        return any(S.dominated([t], [r]) for r in runs)
    entry = [(t, lab) for t, lab in dts if not after_run(t)]
    compl = [(t, lab) for t, lab in dts if after_run(t)]
    S.need(entry, "entry test on aux.done (is the conditional aux running?)")
    S.need(compl, "completion tests on aux.done after aux.recur()")

    def other(lab):
        return "F" if lab == "T" else "T"

    def inact(n):
        return any(S.dominated_by_edge([n], t, lab) for t, lab in entry)

    def act(n):
        return any(S.dominated_by_edge([n], t, other(lab)) for t, lab in entry)
    c_in = [(t, lab) for t, lab in compl if inact(t)]
    c_ac = [(t, lab) for t, lab in compl if act(t)]
    S.need(c_in, "`if aux.done` after first run in the inactive region")
    S.need(c_ac, "completion test in the active region")
    t1, l1 = c_in[0]
    t3, l3 = c_ac[0]
    # inactive region
    rc1 = [n for n in rc if inact(n)]
    ok = all(inact(n) for n in ea) and bool(rc1) and S.dominated(rc1, ea) and S.dominated([t1], rc1)
    ctx.check(ok, "T3-susp", sa, "inactive: enterAll -> recur -> completion test", "a conditional aux whose conditions hold is entered and run once")
    ctx.check(all(S.dominated_by_edge([c], t1, other(l1)) and inact(c) for c in ch) and len(ch) == 1, "T3-susp", ch[0].ast,
              "truncate (framer.change(main.head, ...)) only when the aux did not complete in its first run",
              "frames below the main frame are suspended only while the conditional aux keeps running")
    d1 = [d for d in de if S.dominated_by_edge([d], t1, l1)]
    tsucc = [b for b, lab in cfg.succ[t1.id] if lab == l1]
    r = cfg.reachable(tsucc[0]) if tsucc else set()
    rets = [cfg.nodes[i] for i in r if cfg.nodes[i].kind == "return"]
    ok = bool(d1) and bool(rets) and all(x.ast.value is None or (isinstance(x.ast.value, ast.Constant) and x.ast.value.value is None) for x in rets) \
        and not (set(S.ids(ch)) & r)
    ctx.check(ok, "T3-susp", t1.ast, "completed in first run => deactivate(aux); return None (no truncation)",
              "an aux that completes in its first run is fully exited and does not suspend anything")
    fsucc = [b for b, lab in cfg.succ[t1.id] if lab == other(l1)]
    r = cfg.reachable(fsucc[0], removed_nodes=[t.id for t, _ in entry if t.id != t1.id]) if fsucc else set()
    rets = [cfg.nodes[i] for i in r if cfg.nodes[i].kind == "return"]
    ctx.check(bool(rets) and all(dotted(x.ast.value) == "aux" for x in rets), "T3-susp", t1.ast,
              "still running => return aux (truthy: later preacts and lower frames skipped)",
              "while the conditional aux runs, the main frame's later transition clauses are skipped")
    # active region
    sg2 = [n for n in sg if act(n)]
    rc2 = [n for n in rc if act(n)]
    ok = bool(sg2) and bool(rc2) and S.dominated(rc2, sg2)
    ok = ok and not act(nl[0]) and not any(nl[0].id in cfg.reachable(n.id) for n in sg2)
    ctx.check(ok, "T3-active", sg2[0].ast if sg2 else sa, "active: aux.segue(); aux.recur(); needs not re-evaluated",
              "a running conditional aux runs every tick regardless of its conditions")
    d2 = [d for d in de if S.dominated_by_edge([d], t3, l3)]
    ra2 = [x for x in ra if S.dominated_by_edge([x], t3, l3)]
    tsucc = [b for b, lab in cfg.succ[t3.id] if lab == l3]
    r = cfg.reachable(tsucc[0]) if tsucc else set()
    rets = [cfg.nodes[i] for i in r if cfg.nodes[i].kind == "return"]
    enter_calls = [i for i in r if any(isinstance(x, ast.Call) and suffix_match(call_name(x), ("enter", "enterAll", "framer.activate"))
                                       for x in cfg.walk_node(cfg.nodes[i]))]
    ok = bool(d2) and bool(ra2) and S.dominated(ra2, d2) and bool(rets) and not enter_calls and \
        all(x.ast.value is None or (isinstance(x.ast.value, ast.Constant) and x.ast.value.value is None) for x in rets)
    ctx.check(ok, "T3-active", t3.ast, "on completion: deactivate(aux); framer.reactivate(); return None",
              "when the conditional aux completes it is exited and the suspended frames resume in the same tick "
              "without being re-entered")
    ctx.check(all(S.dominated_by_edge([x], t3, l3) and act(x) for x in ra), "T3-active", sa, "reactivate only on the completing path",
              "the full outline is restored only when the aux has completed")
    # argument of change
    c = [c for n, c in S.calls("framer.change")][0]
    ctx.check([src(a) for a in c.args] == ["main.head", "main.headHuman"], "T3-susp", c, src(c),
              "the active outline is cut at the aux's main frame")
    ba = ctx.fn("building", "Builder.buildAux")
    B = FuncView(ctx, ba)
    t = B.tests(lambda t: isinstance(t, ast.BoolOp) and isinstance(t.op, ast.And) and {src(v) for v in t.values} == {"clone", "needs"})
    raises = [n for n in B.cfg.nodes if n.kind == "raise"]
    ctx.check(bool(t) and any(B.dominated_by_edge([r], t[0], "T") for r in raises), "T1-buildaux", ba,
              "if clone and needs: raise ParseError", "a cloned auxiliary cannot be conditional")


def act_clone_preserves_class(ctx, rule):
    """Act.clone must return an object of the receiver's own class (a negated need is an Nact, a subclass of Act: a clone
    built with the literal base-class constructor silently drops the `not`)."""
    ac = ctx.fn("acting", "Act.clone")
    A = FuncView(ctx, ac)
    rets = [n for n in A.cfg.nodes if n.kind == "return" and n.ast.value is not None]
    A.need(rets, "return of the clone")
    ok = True
    shapes = []
    for r in rets:
        v = A.sym(r.ast.value, r)
        shapes.append(src(v)[:60])
        good = isinstance(v, ast.Call) and (
            (call_name(v) in ("copy.deepcopy", "deepcopy", "copy.copy") and len(v.args) >= 1 and dotted(v.args[0]) == "self") or
            dotted(v.func) in ("self.__class__", "type(self)") or
            (isinstance(v.func, ast.Call) and call_name(v.func) == "type" and len(v.func.args) == 1 and dotted(v.func.args[0]) == "self"))
        ok = ok and good
    ctx.check(ok, rule, ac, "Act.clone returns a copy of the receiver's own class: %s" % shapes,
              "the clone of a negated need (Nact) built as a plain Act evaluates the condition un-negated in every cloned framer")


def need_tests(V, iterable="needs"):
    """`if not <x>():` tests where <x> is the loop variable of the loop over `iterable` (whatever it is called)"""
    names = {dotted(h.ast.target) for h in loops_over(V, iterable) if isinstance(h.ast.target, ast.Name)}
    return V.tests(lambda t: isinstance(t, ast.UnaryOp) and isinstance(t.op, ast.Not) and isinstance(t.operand, ast.Call)
                   and not t.operand.args and dotted(t.operand.func) in names)


def per_tick_over_actives(ctx, rule="T3-actives"):
    """what a framer does in a tick (transitions, recur actions) it does for the frames of .actives - the part of the outline a
    running conditional auxiliary has not suspended - top-down, and enterAll clears .done before anything is entered"""
    ctx.rule(rule, "Framer.recur and Framer.segue loop over self.actives (by value) and nothing else; Framer.enterAll resets "
             ".done before activate/enter")
    for mname, inner in (("recur", ("frame.recur",)), ("segue", ("frame.segueAuxes", "frame.precur"))):
        f = ctx.fn("framing", "Framer." + mname)
        V = FuncView(ctx, f)
        loops = [n for n in V.cfg.nodes if n.kind == "for" and getattr(n, "copy", 0) == 0]
        iters = sorted({src(V.sym(n.ast.iter, n)) for n in loops})
        calls = [c for pat in inner for c in V.call_nodes(pat)]
        ok = bool(loops) and iters == ["self.actives"] and len(calls) >= len(inner) and \
            all(any(c.id in {b.id for b in V.body_nodes(l.ast)} for l in loops) for c in calls)
        ctx.check(ok, rule, f, "Framer.%s iterates %s calling %s" % (mname, iters, list(inner)),
                  "the frames below the main frame of a running conditional auxiliary are suspended: they are in the active frame's "
                  "full outline but not in .actives; looping over anything else (active.outline, a cached list) runs their actions "
                  "or transitions while they are suspended, or skips frames that are active")
    ea = ctx.fn("framing", "Framer.enterAll")
    E = FuncView(ctx, ea)
    dn = [n for n in E.stores("self.done")]
    after = E.call_nodes("self.activate") + E.call_nodes("self.enter")
    okd = bool(dn) and bool(after) and all(isinstance(n.ast, ast.Assign) and isinstance(n.ast.value, ast.Constant) and n.ast.value.value is False
                                           for n in dn) and all(E.dominated([a], dn) for a in after) and \
        not any(d.id in E.cfg.reachable(a.id) for a in after for d in dn)
    ctx.check(okd, rule, ea, "Framer.enterAll: self.done = False before activate()/enter()",
              "an enter action of the first frame may complete the framer (`done me`); clearing .done after the frames were entered "
              "wipes that out, and the framer never reports done")


def precur_first_truthy(ctx, P, rets):
    """Frame.precur: preacts in script order; the first one whose result is truthy - whatever it is: the frame a transition went
    to, the framer of a conditional aux that started or is running, True - ends the evaluation with a truthy result"""
    from ..rules import path_condition, formula_equiv
    lp = P.need(loops_over(P, "self.preacts"), "preacts loop")
    var = src(lp[0].ast.target)
    inner = [r for r in rets if r.id in {b.id for b in P.body_nodes(lp[0].ast)}]
    if not inner:
        return False
    ok = True
    for r in inner:
        truthy = isinstance(r.ast.value, ast.Constant) and bool(r.ast.value.value)
        pc = path_condition(P, r)
        ok = ok and truthy and formula_equiv(pc, "%s()" % var)
    calls = P.call_nodes(var)
    ok = ok and len(calls) == 1 and every_iteration_passes(P, lp[0], calls) and not P.call_nodes(("reversed", "reverse", "sorted"))
    return ok


def precur_rule(ctx, rule):
    ctx.rule(rule, "Frame.precur returns truthy at the first preact whose result is truthy (any truthy value)")
    fp = ctx.fn("framing", "Frame.precur")
    P = FuncView(ctx, fp)
    rets = [n for n in P.cfg.nodes if n.kind == "return"]
    ctx.check(precur_first_truthy(ctx, P, rets), rule, fp, "precur: for act in preacts: if act(): return True",
              "Suspender.action returns the aux framer while its conditional aux runs: that truthy result is what keeps the clauses "
              "after `aux .. if ..` in the main frame from firing; a precur that recognises only some truthy results lets them run")


def tracts_only_when_taken(ctx, rule):
    """the transit acts of a transition (the marker resets of `if .. is updated/changed` needs among them) run only when the
    transition is taken: after the needs held AND framer.checkEnter allowed the far frame"""
    ctx.rule(rule, "Transiter.action: the loop over self._tracts is dominated by the passing edge of framer.checkEnter(..)")
    ta = ctx.fn("acting", "Transiter.action")
    V = FuncView(ctx, ta)
    chk = V.need(V.ptests(lambda t: isinstance(t, ast.Call) and suffix_match(call_name(t), "framer.checkEnter")),
                 "test of framer.checkEnter(...)")
    c, passed = chk[0]
    tr = V.need(loops_over(V, "self._tracts"), "tracts loop")
    ctx.check(all(V.dominated_by_edge([t], c, passed) for t in tr), rule, tr[0].ast, "transit acts run after checkEnter passed",
              "a marker that is reset although the entry guard of the far frame then refuses the transition forgets the update it "
              "was watching: the transition is not taken later when the guard opens")
