"""Per-function control-flow graph over the statement kinds ioflo uses.

Nodes are simple statements, branch tests ('test'), for-headers ('for'), with-headers
('with'), except-handler heads ('except').  Edges carry labels: None (sequence),
'T'/'F' (test outcomes), 'iter'/'done' (for), 'exc' (exceptional), 'break', 'continue',
'return', 'raise'.  finally bodies are inlined once per continuation kind.

The primitive all path rules are built on is reachability with removed nodes/edges:
  "every path entry->B passes A"   ==  B unreachable from entry once A is removed
  "every path A->normal exit passes B" == exit unreachable from A once B is removed
"""
import ast
import builtins

from .model import dotted, walk_no_nested, src


class N:
    __slots__ = ("id", "kind", "ast", "copy")

    def __init__(self, id, kind, node, copy=0):
        self.id = id
        self.kind = kind
        self.ast = node
        self.copy = copy

    @property
    def lineno(self):
        return getattr(self.ast, "lineno", 0)

    def __repr__(self):
        return "<N%d %s L%s%s>" % (self.id, self.kind, self.lineno, "'" * self.copy)


def _exc_names(type_node):
    if type_node is None:
        return None  # bare except
    out = []
    elts = type_node.elts if isinstance(type_node, ast.Tuple) else [type_node]
    for e in elts:
        d = dotted(e)
        out.append(d.split(".")[-1] if d else "?")
    return out


def _builtin_exc_supers(name):
    cls = getattr(builtins, name, None)
    if isinstance(cls, type) and issubclass(cls, BaseException):
        return {c.__name__ for c in cls.__mro__}
    return None


class CFG:
    def __init__(self, func, exc="raise", may_raise=None, exc_supers=None):
        """exc: 'raise' (edges from raise statements only), 'calls' (any statement in a try
        body containing a call/subscript/attribute access may reach every handler), or a
        callable may_raise(stmt)->iterable of exception class names ('*' = anything)."""
        self.func = func
        self.nodes = []
        self.succ = {}
        self.pred = {}
        self.exc = exc
        self.may_raise = may_raise
        self.exc_supers = exc_supers or (lambda name: None)
        self.entry = self._new("entry", func)
        self.exit = self._new("exit", func)         # normal return / fall off
        self.raise_exit = self._new("raise_exit", func)
        self._frames = []   # try frames: dict(kind='handlers'|'finally', ...)
        self._loops = []    # (continue_target_id, break_collector list, frame_depth)
        last = self._seq(func.body, [(self.entry.id, None)])
        self._connect(last, self.exit.id)
        self.by_ast = {}
        for n in self.nodes:
            self.by_ast.setdefault(id(n.ast), []).append(n)

    # ------------------------------------------------------------------ building
    def _new(self, kind, node, copy=0):
        n = N(len(self.nodes), kind, node, copy)
        self.nodes.append(n)
        self.succ[n.id] = []
        self.pred[n.id] = []
        return n

    def _edge(self, a, b, label=None):
        if (b, label) not in self.succ[a]:
            self.succ[a].append((b, label))
            self.pred[b].append((a, label))

    def _connect(self, frontier, target):
        for a, label in frontier:
            self._edge(a, target, label)

    def _seq(self, body, frontier):
        for st in body:
            frontier = self._stmt(st, frontier)
        return frontier

    def _stmt(self, st, frontier):
        copy = self._copy
        if isinstance(st, ast.If):
            t = self._new("test", st, copy)
            self._connect(frontier, t.id)
            self._exc_edges(t, st.test)
            cv = _const_truth(st.test)
            out = []
            if cv is not False:
                out += self._seq(st.body, [(t.id, "T")])
            if cv is not True:
                out += self._seq(st.orelse, [(t.id, "F")])
            return out
        if isinstance(st, ast.While):
            t = self._new("test", st, copy)
            self._connect(frontier, t.id)
            self._exc_edges(t, st.test)
            breaks = []
            self._loops.append((t.id, breaks, len(self._frames)))
            cv = _const_truth(st.test)
            body_out = self._seq(st.body, [(t.id, "T")]) if cv is not False else []
            self._loops.pop()
            self._connect(body_out, t.id)
            out = []
            if cv is not True:
                out += self._seq(st.orelse, [(t.id, "F")])
            return out + breaks
        if isinstance(st, (ast.For, ast.AsyncFor)):
            h = self._new("for", st, copy)
            self._connect(frontier, h.id)
            self._exc_edges(h, st.iter)
            breaks = []
            self._loops.append((h.id, breaks, len(self._frames)))
            body_out = self._seq(st.body, [(h.id, "iter")])
            self._loops.pop()
            self._connect(body_out, h.id)
            out = self._seq(st.orelse, [(h.id, "done")])
            return out + breaks
        if isinstance(st, (ast.With, ast.AsyncWith)):
            w = self._new("with", st, copy)
            self._connect(frontier, w.id)
            self._exc_edges(w, st)
            return self._seq(st.body, [(w.id, None)])
        if isinstance(st, ast.Try) or st.__class__.__name__ == "TryStar":
            return self._try(st, frontier)
        if isinstance(st, ast.Return):
            n = self._new("return", st, copy)
            self._connect(frontier, n.id)
            if st.value is not None:
                self._exc_edges(n, st.value)
            self._jump([(n.id, "return")], "return")
            return []
        if isinstance(st, ast.Raise):
            n = self._new("raise", st, copy)
            self._connect(frontier, n.id)
            self._raise_from(n, self._raised_names(st))
            return []
        if isinstance(st, ast.Break):
            n = self._new("break", st, copy)
            self._connect(frontier, n.id)
            self._jump([(n.id, "break")], "break")
            return []
        if isinstance(st, ast.Continue):
            n = self._new("continue", st, copy)
            self._connect(frontier, n.id)
            self._jump([(n.id, "continue")], "continue")
            return []
        if isinstance(st, (ast.FunctionDef, ast.AsyncFunctionDef, ast.ClassDef)):
            n = self._new("def", st, copy)
            self._connect(frontier, n.id)
            return [(n.id, None)]
        n = self._new("stmt", st, copy)
        self._connect(frontier, n.id)
        self._exc_edges(n, st)
        return [(n.id, None)]

    _copy = 0

    # ---------------------------------------------------------------- exceptions
    def _raised_names(self, st):
        if st.exc is None:
            return ["*reraise"]
        e = st.exc.func if isinstance(st.exc, ast.Call) else st.exc
        d = dotted(e)
        return [d.split(".")[-1]] if d else ["*"]

    def _stmt_may_raise(self, node):
        if callable(self.may_raise):
            r = self.may_raise(node)
            if r:
                return list(r)
            if self.exc != "calls":
                return []
        if self.exc == "calls":
            for n in walk_no_nested(node, include_self=True):
                if isinstance(n, (ast.Call, ast.Subscript, ast.Attribute, ast.BinOp)):
                    return ["*"]
        return []

    def _exc_edges(self, n, node):
        if not self._frames:
            if callable(self.may_raise) and self.may_raise(node):
                self._edge(n.id, self.raise_exit.id, "exc")
            return
        names = self._stmt_may_raise(node)
        if names:
            self._raise_from(n, names, label="exc")

    def _matches(self, raised, handler_names):
        """True / False / None(maybe)"""
        if handler_names is None:
            return True
        if raised in ("*", "*reraise"):
            return None
        sup = self.exc_supers(raised) or _builtin_exc_supers(raised) or {raised}
        for h in handler_names:
            if h in sup:
                return True
            if h in ("Exception", "BaseException") and raised not in (
                    "KeyboardInterrupt", "SystemExit", "GeneratorExit", "BaseException") \
                    or h == "BaseException":
                return True
        if self.exc_supers(raised) is None and _builtin_exc_supers(raised) is None:
            return None
        return False

    def _raise_from(self, n, names, label="raise"):
        """route an exception raised at node n through enclosing frames"""
        for name in names:
            src_front = [(n.id, label)]
            depth = len(self._frames)
            definite = False
            while depth > 0 and not definite:
                depth -= 1
                fr = self._frames[depth]
                if fr["kind"] == "handlers":
                    if fr.get("in_handler"):
                        continue
                    for hnode, hnames in fr["handlers"]:
                        m = self._matches(name, hnames)
                        if m is True:
                            self._connect(src_front, hnode.id)
                            definite = True
                            break
                        if m is None:
                            self._connect(src_front, hnode.id)
                elif fr["kind"] == "finally":
                    src_front = self._inline_finally(fr, src_front, depth)
            if not definite:
                self._connect(src_front, self.raise_exit.id)

    def _inline_finally(self, fr, frontier, depth):
        saved_frames, saved_copy = self._frames, self._copy
        self._frames = self._frames[:depth]
        self._copy = saved_copy + 1
        fr["copies"] = fr.get("copies", 0) + 1
        out = self._seq(fr["body"], frontier)
        self._frames, self._copy = saved_frames, saved_copy
        return out

    def _jump(self, frontier, kind):
        """return/break/continue crossing finally frames"""
        if kind == "return":
            stop = 0
        else:
            if not self._loops:
                return
            stop = self._loops[-1][2]
        depth = len(self._frames)
        while depth > stop:
            depth -= 1
            fr = self._frames[depth]
            if fr["kind"] == "finally":
                frontier = self._inline_finally(fr, frontier, depth)
        if kind == "return":
            self._connect(frontier, self.exit.id)
        elif kind == "break":
            self._loops[-1][1].extend(frontier)
        else:
            self._connect(frontier, self._loops[-1][0])

    def _try(self, st, frontier):
        has_fin = bool(st.finalbody)
        if has_fin:
            fin = {"kind": "finally", "body": st.finalbody}
            self._frames.append(fin)
        handlers = []
        for h in st.handlers:
            hn = self._new("except", h, self._copy)
            handlers.append((hn, _exc_names(h.type)))
        hf = {"kind": "handlers", "handlers": handlers}
        if handlers:
            self._frames.append(hf)
        body_out = self._seq(st.body, frontier)
        if handlers:
            self._frames.pop()
        out = self._seq(st.orelse, body_out) if st.orelse else body_out
        for hn, _ in handlers:
            out = out + self._seq(hn.ast.body, [(hn.id, None)])
        if has_fin:
            self._frames.pop()
            # normal completion copy
            saved = self._copy
            out = self._seq(st.finalbody, out)
            self._copy = saved
        return out

    # ------------------------------------------------------------------- queries
    def nodes_where(self, pred):
        return [n for n in self.nodes if n.kind not in ("entry", "exit", "raise_exit") and pred(n)]

    def node_exprs(self, n):
        """the expression/statement roots evaluated *at* node n (not its nested bodies)"""
        a = n.ast
        if n.kind == "test":
            return [a.test]
        if n.kind == "for":
            return [a.iter, a.target]
        if n.kind == "with":
            return [i.context_expr for i in a.items] + \
                [i.optional_vars for i in a.items if i.optional_vars is not None]
        if n.kind == "except":
            return [a.type] if a.type is not None else []
        if n.kind in ("entry", "exit", "raise_exit", "def"):
            return []
        return [a]

    def walk_node(self, n):
        for root in self.node_exprs(n):
            yield from walk_no_nested(root, include_self=True)

    def calls_at(self, n):
        return [x for x in self.walk_node(n) if isinstance(x, ast.Call)]

    def find(self, pred_ast):
        """nodes for which some sub-expression evaluated at the node satisfies pred_ast"""
        out = []
        for n in self.nodes:
            for x in self.walk_node(n):
                if pred_ast(x):
                    out.append(n)
                    break
        return out

    def reachable(self, start, removed_nodes=(), removed_edges=(), labels_block=()):
        """set of node ids reachable from start (id or iterable of ids)"""
        rn = set(removed_nodes)
        re_ = set(removed_edges)
        starts = [start] if isinstance(start, int) else list(start)
        seen = set()
        stack = [s for s in starts if s not in rn]
        while stack:
            a = stack.pop()
            if a in seen:
                continue
            seen.add(a)
            for b, lab in self.succ[a]:
                if b in rn or (a, b, lab) in re_ or lab in labels_block:
                    continue
                if b not in seen:
                    stack.append(b)
        return seen

    def must_pass(self, target_ids, via_ids, start=None, via_edges=()):
        """True iff every path start->any target passes some via node (or via edge)"""
        start = self.entry.id if start is None else start
        via = set(via_ids)
        r = self.reachable(start, removed_nodes=via, removed_edges=via_edges)
        return not (set(target_ids) - via) & r

    def always_reaches(self, start_ids, via_ids, ends=None, skip_exc=False):
        """True iff every path from each start to an end (default: normal exit) passes via"""
        ends = [self.exit.id] if ends is None else ends
        via = set(via_ids)
        for s in start_ids:
            r = set()
            for b, lab in self.succ[s]:
                if skip_exc and lab in ("exc",):
                    continue
                if b in via:
                    continue
                r |= self.reachable(b, removed_nodes=via,
                                    labels_block=("exc",) if skip_exc else ())
            if r & set(ends):
                return False
        return True

    def edges_from(self, nid, label):
        return [(nid, b, lab) for b, lab in self.succ[nid] if lab == label]

    def dominators(self):
        ids = [n.id for n in self.nodes]
        reach = self.reachable(self.entry.id)
        dom = {i: set(reach) for i in reach}
        dom[self.entry.id] = {self.entry.id}
        changed = True
        order = [i for i in ids if i in reach]
        while changed:
            changed = False
            for i in order:
                if i == self.entry.id:
                    continue
                ps = [p for p, _ in self.pred[i] if p in reach]
                new = set.intersection(*[dom[p] for p in ps]) if ps else set()
                new = new | {i}
                if new != dom[i]:
                    dom[i] = new
                    changed = True
        return dom

    def paths(self, start, ends, max_visits=2, limit=20000, labels_block=()):
        """enumerate paths (lists of node ids) from start to any of ends; each node at most
        max_visits times per path"""
        ends = set(ends)
        out = []
        stack = [(start, [start], {start: 1})]
        while stack and len(out) < limit:
            a, path, cnt = stack.pop()
            if a in ends and len(path) > 1 or (a in ends and start in ends and len(path) == 1 and False):
                out.append(path)
                continue
            for b, lab in self.succ[a]:
                if lab in labels_block:
                    continue
                c = cnt.get(b, 0)
                if c >= max_visits:
                    continue
                nc = dict(cnt)
                nc[b] = c + 1
                stack.append((b, path + [b], nc))
        return out

    def describe(self, nid):
        n = self.nodes[nid]
        if n.kind in ("entry", "exit", "raise_exit"):
            return n.kind
        roots = self.node_exprs(n)
        text = src(roots[0]) if roots else n.kind
        text = text.split("\n")[0]
        return "L%d %s: %s" % (n.lineno, n.kind, text[:90])


def _const_truth(test):
    if isinstance(test, ast.Constant):
        return bool(test.value)
    return None
